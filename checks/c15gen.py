"""Generator of legal libavoid lifecycle histories for C15 (and reused by the protocol-model correspondence).
A history is a list of op lines understood by harness/c15_life.cpp and extract/c15_driver.ml."""
from vlib.common import SplitMix64


def cp_points(rng, k):
    """k checkpoint positions: mostly on the lanes x,y = 45 mod 50 that no unmoved generated shape covers, sometimes anywhere"""
    pts = []
    for _ in range(k):
        if rng.chance(3, 4):
            pts.append((45 + 50 * rng.below(8), 45 + 50 * rng.below(8)))
        else:
            pts.append((rng.range(0, 400), rng.range(0, 400)))
    return pts


def k_op(conn, pts):
    return 'K %d %d' % (conn, len(pts)) + ''.join(' %d %d' % p for p in pts)


def gen_cp_history(rng):
    """directed at ConnRef::setRoutingCheckpoints: set, (reroute), replace with fewer / more / none, (reroute), then delete
    the connector and/or the router; transactions on or off, orthogonal or polyline, with a second connector sharing the scene"""
    orth = rng.below(2)
    trans = 1 if rng.chance(2, 3) else 0
    ops = ['R %d %d' % (orth, trans), 'S 1 0 100 30 30 2', 'S 2 300 100 30 30 1', 'S 3 150 %d 40 50 1' % rng.choice([80, 90, 100])]
    if rng.chance(1, 2):
        ops.append('T')
    ends = [('S 1 1', 'S 2 1'), ('S 1 2', 'P 380 %d' % rng.range(20, 300)), ('P 5 %d' % rng.range(20, 300), 'P 390 %d' % rng.range(20, 300)),
            ('S 1 1', 'P 200 350')]
    a, b = rng.choice(ends)
    ops.append('C 10 %s %s' % (a, b))
    conns = [10]
    if rng.chance(1, 2):
        ops.append('C 11 S 2 1 P %d %d' % (rng.range(0, 400), rng.range(200, 400)))
        conns.append(11)
    if rng.chance(2, 3):
        ops.append('T')

    def kick(c):
        k = rng.below(5)
        if k == 0:
            ops.append('M 3 %d %d' % (rng.range(-20, 20), rng.range(-20, 20)))
        elif k == 1:
            ops.append('I %d' % c)
        elif k == 2:
            ops.append('E %d 1 P %d %d' % (c, rng.range(300, 400), rng.range(0, 400)))
        elif k == 3:
            ops.append('I %d' % c)
            ops.append('M 1 %d %d' % (rng.range(-5, 5), rng.range(-5, 5)))
        if rng.chance(3, 4):
            ops.append('T')

    counts = {c: 0 for c in conns}
    for rnd in range(rng.range(2, 4)):
        c = rng.choice(conns)
        if rnd == 0:
            k = rng.range(1, 3)
        else:
            k = rng.choice([0, max(0, counts[c] - 1), counts[c], counts[c] + 1, counts[c] + 2])
        ops.append(k_op(c, cp_points(rng, k)))
        counts[c] = k
        if rng.chance(4, 5):
            kick(c)
    e = rng.below(5)
    if e == 0:
        ops.append('X 10')
    elif e == 1:
        ops += ['X 10', 'T']
    elif e == 2:
        ops += ['D 3', 'T']
    elif e == 3:
        ops += [k_op(10, []), 'X 10']
    ops.append('Q')
    return ops


def gen_history(rng, max_steps=30, family='generic'):
    orth = rng.below(2)
    trans = 1 if rng.chance(3, 4) else 0
    ops = ['R %d %d' % (orth, trans)]
    shapes, juncs, conns = [], [], []
    fresh = set()          # shapes added since the last processTransaction (must not be deleted before it)
    cends = {}             # connector -> its two ends as last set
    nid = [1]

    def newid():
        nid[0] += 1
        return nid[0]

    def end():
        k = rng.below(10)
        if shapes and k < 5:
            s = rng.choice(shapes)
            return 'S %d %d' % (s[0], 2 if (s[1] >= 2 and rng.chance(1, 2)) else 1)
        if juncs and k < 7:
            return 'J %d' % rng.choice(juncs)
        return 'P %d %d' % (rng.range(0, 400), rng.range(0, 400))

    steps = rng.range(5, max_steps)
    for _ in range(steps):
        op = rng.below(13)
        if op == 0 or len(shapes) < 2:
            i = newid()
            np = 1 + rng.below(2)
            ops.append('S %d %d %d %d %d %d' % (i, rng.below(8) * 50, rng.below(8) * 50, 20 + rng.below(3) * 10, 20 + rng.below(3) * 10, np))
            shapes.append((i, np))
            if trans:
                fresh.add(i)
        elif op in (1, 2):
            i = newid()
            a, b = end(), end()
            if a == b and a[0] == 'J':
                b = 'P %d %d' % (rng.range(0, 400), rng.range(0, 400))   # no connector from a junction to itself
            ops.append('C %d %s %s' % (i, a, b))
            conns.append(i)
            cends[i] = [a, b]
        elif op == 3 and shapes:
            s = rng.choice(shapes)
            ops.append('M %d %d %d' % (s[0], rng.range(-30, 30), rng.range(-30, 30)))
        elif op == 4 and shapes:
            cand = [s for s in shapes if s[0] not in fresh]
            if cand:
                s = rng.choice(cand)
                ops.append('D %d' % s[0])
                shapes.remove(s)
        elif op == 5 and conns:
            c = rng.choice(conns)
            ops.append('X %d' % c)
            conns.remove(c)
        elif op == 6 and conns:
            c, w, e = rng.choice(conns), rng.below(2), end()
            if e[0] == 'J' and cends[c][1 - w] == e:
                e = 'P %d %d' % (rng.range(0, 400), rng.range(0, 400))   # no connector from a junction to itself (also not via setEndpoint)
            cends[c][w] = e
            ops.append('E %d %d %s' % (c, w, e))
        elif op in (7, 8):
            ops.append('T')
            fresh.clear()
        elif op == 9:
            i = newid()
            ops.append('J %d %d %d' % (i, rng.range(0, 400) + 15, rng.range(0, 400) + 15))
            juncs.append(i)
            if trans:
                fresh.add(i)
        elif op == 10 and family != 'nojdel':
            cand = [j for j in juncs if j not in fresh]
            if cand:
                j = rng.choice(cand)
                ops.append('DJ %d' % j)
                juncs.remove(j)
        elif op == 11 and conns:
            ops.append(k_op(rng.choice(conns), cp_points(rng, rng.below(4))))
        elif op == 12 and conns:
            ops.append('I %d' % rng.choice(conns))
    if rng.chance(1, 2):
        ops.append('T')
    ops.append('Q')
    return ops
