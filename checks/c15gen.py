"""Generator of legal libavoid lifecycle histories for C15 (and reused by the protocol-model correspondence).
A history is a list of op lines understood by harness/c15_life.cpp and extract/c15_driver.ml."""
from vlib.common import SplitMix64


def gen_history(rng, max_steps=30, family='generic'):
    orth = rng.below(2)
    trans = 1 if rng.chance(3, 4) else 0
    ops = ['R %d %d' % (orth, trans)]
    shapes, juncs, conns = [], [], []
    fresh = set()          # shapes added since the last processTransaction (must not be deleted before it)
    nid = [1]

    def newid():
        nid[0] += 1
        return nid[0]

    def end():
        k = rng.below(10)
        if shapes and k < 5:
            s = rng.choice(shapes)
            return 'S %d %d' % (s[0], 2 if (s[1] >= 2 and rng.chance(1, 2)) else 1)
        if juncs and k < 7:
            return 'J %d' % rng.choice(juncs)
        return 'P %d %d' % (rng.range(0, 400), rng.range(0, 400))

    steps = rng.range(5, max_steps)
    for _ in range(steps):
        op = rng.below(11)
        if op == 0 or len(shapes) < 2:
            i = newid()
            np = 1 + rng.below(2)
            ops.append('S %d %d %d %d %d %d' % (i, rng.below(8) * 50, rng.below(8) * 50, 20 + rng.below(3) * 10, 20 + rng.below(3) * 10, np))
            shapes.append((i, np))
            if trans:
                fresh.add(i)
        elif op in (1, 2):
            i = newid()
            a, b = end(), end()
            if a == b and a[0] == 'J':
                b = 'P %d %d' % (rng.range(0, 400), rng.range(0, 400))   # no connector from a junction to itself
            ops.append('C %d %s %s' % (i, a, b))
            conns.append(i)
        elif op == 3 and shapes:
            s = rng.choice(shapes)
            ops.append('M %d %d %d' % (s[0], rng.range(-30, 30), rng.range(-30, 30)))
        elif op == 4 and shapes:
            cand = [s for s in shapes if s[0] not in fresh]
            if cand:
                s = rng.choice(cand)
                ops.append('D %d' % s[0])
                shapes.remove(s)
        elif op == 5 and conns:
            c = rng.choice(conns)
            ops.append('X %d' % c)
            conns.remove(c)
        elif op == 6 and conns:
            ops.append('E %d %d %s' % (rng.choice(conns), rng.below(2), end()))
        elif op in (7, 8):
            ops.append('T')
            fresh.clear()
        elif op == 9:
            i = newid()
            ops.append('J %d %d %d' % (i, rng.range(0, 400) + 15, rng.range(0, 400) + 15))
            juncs.append(i)
            if trans:
                fresh.add(i)
        elif op == 10 and family != 'nojdel':
            cand = [j for j in juncs if j not in fresh]
            if cand:
                j = rng.choice(cand)
                ops.append('DJ %d' % j)
                juncs.remove(j)
    if rng.chance(1, 2):
        ops.append('T')
    ops.append('Q')
    return ops
