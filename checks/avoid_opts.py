"""Router-option coverage for the polyline families of C04 and C06 (seeded change C04-6, DESIGN 9.16).

Avoid::Router has public data members that select how the poly-line visibility graph is maintained (router.h:411-424, no doc comments,
grouped under "Poly-line routing options" / "General routing options"; constructor defaults router.cpp:48-58):
  InvisibilityGrph (default true)   true: blocked edges are kept in Router::invisGraph with their blocker and re-checked when that obstacle
                                    moves or is deleted (checkAllBlockedEdges); false: only visible edges are stored and after every
                                    transaction that moved or deleted an obstacle ALL missing edges are re-derived (checkAllMissingEdges)
  UseLeesAlgorithm (default true)   true: vertex visibility by Lee's rotational sweep (vertexSweep); false: pairwise (EdgeInf::checkVis)
  RubberBandRouting (default false) interactive dragging mode: an existing route is kept as a prefix and "we do not reroute connectors that
                                    may have a better route, only invalid connectors" (router.cpp:1819-1824) - by its own comments it does
                                    NOT promise shortest paths or history independence, so it is only exercised on the FIRST routing of a
                                    scene (where no earlier route exists and the ordinary search runs); see DESIGN 9.16 for what was
                                    observed on histories (routes dragged along with a moved shape; COLA_ASSERT(m_start_vert) after the
                                    shape carrying a bend is deleted).
Neither flag changes WHICH visibility graph is meant, so the promises of C04 (cost = proved-optimal model cost) and C06 (history = fresh
router, under the same flags) are unchanged; the harness sets the flags with script lines "F <name> <0|1>" right after the R line.

Family 'unblock' (gen_unblock_history): a connector whose straight src-dst segment passes through the interior of one (or two) obstacles,
1-3 bystander obstacles beside the line (so that a detour exists once the direct edge is missing), first transaction; then the blocker is
deleted / moved away / shrunk off the line (two blockers: in one transaction or in consecutive ones); then optionally: the line is blocked
again (moved back / a new shape dropped on it) and freed again, a bystander or an endpoint is moved.  After every processTransaction the
direct segment must be the route whenever it is free.  Variant 'between' (1/3, gen_unblock_between): three obstacles in a row across the line,
the wider middle one leaves - the optimal route then needs a corner-to-corner edge between the two that stay (a hand mutation that never
re-derives shape-vertex / shape-vertex edges in checkAllMissingEdges was invisible to the direct-line variant)."""
from checks import avoid_lib as A

# (name, flags)   flags = tuple of (member name, value)
OPT_COMBOS = [('invis0', (('InvisibilityGrph', 0),)),
              ('lees0', (('UseLeesAlgorithm', 0),)),
              ('invis0-lees0', (('InvisibilityGrph', 0), ('UseLeesAlgorithm', 0))),
              ('default', ())]
RUBBER_ONESHOT = ('rubber1', (('RubberBandRouting', 1),))


def opt_lines(opts):
    return ['F %s %d' % (k, int(v)) for k, v in (opts or ())]


def with_opts(script, opts):
    """insert the flag lines right after the R line of a one-router script"""
    return script[:1] + opt_lines(opts) + script[1:] if opts else script


def opts_json(opts):
    return [[k, int(v)] for k, v in (opts or ())]


def opts_from_json(j):
    return tuple((str(k), int(v)) for k, v in (j or ()))


def _near_line_poly(h, s, d, crossing, tries=60):
    """a polygon near the segment sd: crossing=True -> the segment passes through its interior; False -> it does not (bystander beside
    the line, at a perpendicular offset)"""
    rng = h.rng
    dx, dy = d[0] - s[0], d[1] - s[1]
    L = max(1.0, (dx * dx + dy * dy) ** 0.5)
    for _ in range(tries):
        t = rng.range(2, 8) / 10.0
        cx, cy = s[0] + t * dx, s[1] + t * dy
        if not crossing:
            off = rng.range(3, 10) * (1 if rng.chance(1, 2) else -1)
            cx, cy = cx - dy / L * off, cy + dx / L * off
        w, hh = rng.range(2, 9), rng.range(2, 9)
        x0, y0 = int(round(cx - w / 2.0)) + rng.range(-1, 1), int(round(cy - hh / 2.0)) + rng.range(-1, 1)
        b = (x0, y0, x0 + w, y0 + hh)
        P = A.rect_poly(b) if h.rect_only or rng.chance(1, 2) else A.poly_in_box(rng, b)
        if A.through_interior(P, s, d) == crossing:
            yield P


def gen_unblock_between(rng, R=40):
    """variant 'between' (a shape-vertex / shape-vertex edge must come back): three obstacles in a row across the connector's line - two
    that stay (A, B) and a WIDER one between them (M) - so that on either side the tangent segment from a corner of A to a corner of B passes
    through M's interior.  First transaction (route round all three), then M is deleted / moved far away / shrunk away: the optimal route now
    bends at a corner of A and at a corner of B and needs the corner-corner edge that M blocked.  Built in a canonical frame (line along x),
    then one of the 8 symmetries, a scale and an offset; all heights distinct (generic position is re-checked by plain_scene_valid)."""
    h = A._Hist(rng, True, R)
    for _ in range(30):
        xa, wa = rng.range(4, 7), rng.range(2, 4)
        xm = xa + wa + rng.range(2, 4); wm = rng.range(3, 6)
        xb = xm + wm + rng.range(2, 4); wb = rng.range(2, 4)
        L = xb + wb + rng.range(4, 7)
        a1, a2, b1, b2 = rng.range(3, 6), rng.range(3, 6), rng.range(3, 6), rng.range(3, 6)
        m1, m2 = max(a1, b1) + rng.range(2, 5), max(a2, b2) + rng.range(2, 5)
        sym = rng.choice(A.SYMS); sc = rng.choice([1, 1, 2]); off = (rng.range(-10, 30), rng.range(-10, 30))
        rects = [(xa, -a1, xa + wa, a2), (xm, -m1, xm + wm, m2), (xb, -b1, xb + wb, b2)]
        s, d = A._xf(sym, sc, off, (0, rng.range(-1, 1))), A._xf(sym, sc, off, (L, rng.range(-1, 1)))
        shapes = {i + 1: A._xf_rect(sym, sc, off, r) for i, r in enumerate(rects)}
        if not A.plain_scene_valid(shapes, {100: (s, d)}):
            continue
        h.shapes, h.conns = {}, {}
        h.ops = []
        ok = all(h.try_op(('A', i, shapes[i])) for i in (1, 2, 3)) and h.try_op(('C', 100, s, d))
        if not ok:
            continue
        h.nid, h.ncid = 4, 101
        h.P()
        k = rng.choice(['delete', 'move', 'shrink'])
        done = False
        if k == 'move':
            for _ in range(40):
                dx, dy = rng.range(-60, 60), rng.range(-60, 60)
                P2 = [(x + dx, y + dy) for x, y in h.shapes[2]]
                b2x = A.bbox(P2); bA, bB = A.bbox(h.shapes[1]), A.bbox(h.shapes[3])
                hull = (min(bA[0], bB[0], s[0], d[0]), min(bA[1], bB[1], s[1], d[1]), max(bA[2], bB[2], s[0], d[0]), max(bA[3], bB[3], s[1], d[1]))
                if A.box_sep(b2x, hull, 1) and h.try_op(('M', 2, dx, dy)):
                    done = True
                    break
        elif k == 'shrink':
            for _ in range(40):
                x0, y0 = rng.range(-40, 70), rng.range(-40, 70)
                P2 = A.rect_poly((x0, y0, x0 + rng.range(2, 4), y0 + rng.range(2, 4)))
                bA, bB = A.bbox(h.shapes[1]), A.bbox(h.shapes[3])
                hull = (min(bA[0], bB[0], s[0], d[0]), min(bA[1], bB[1], s[1], d[1]), max(bA[2], bB[2], s[0], d[0]), max(bA[3], bB[3], s[1], d[1]))
                if A.box_sep(A.bbox(P2), hull, 1) and h.try_op(('T', 2, P2)):
                    done = True
                    break
        if not done:
            k = 'delete'
            if not h.try_op(('D', 2)):
                continue
        h.P()
        tags = ['between', 'between:' + k]
        if rng.chance(1, 3):
            for _ in range(20):
                p = A.free_point(rng, list(h.shapes.values()), R, use_bbox=True)
                if h.try_op(('E', 100, rng.below(2), p)):
                    h.P(); tags.append('endpoint-moved')
                    break
        return h.ops, tags
    return None, None


def gen_unblock_history(rng, rect_only=False, R=40):
    """-> (ops, tags) or (None, None).  See the module docstring."""
    if rng.chance(1, 3):
        return gen_unblock_between(rng, R)
    h = A._Hist(rng, rect_only, R)
    tags = []
    if not h.add_shapes(1):
        return None, None
    M = [1]
    sd = h.across_points(h.shapes[1])
    if sd is None or not h.try_op(('C', h.ncid, sd[0], sd[1])):
        return None, None
    h.ncid += 1
    s, d = sd
    two = rng.chance(1, 3)
    if two:
        for P in _near_line_poly(h, s, d, True):
            if h.try_op(('A', h.nid, P)):
                M.append(h.nid); h.nid += 1
                break
        if len(M) == 2:
            tags.append('two-blockers')
    by = []
    for _ in range(rng.range(1, 3)):
        for P in _near_line_poly(h, s, d, False):
            if h.try_op(('A', h.nid, P)):
                by.append(h.nid); h.nid += 1
                break
    if not by:
        by = h.add_shapes(1)
    if not by:
        return None, None
    if rng.chance(1, 3):
        h.add_conns(1)
        tags.append('second-connector')
    h.P()
    gone = {}                               # blocker id -> how it left: ('D',) | ('M', dx, dy) | ('T', old poly)

    def unblock(i):
        k = rng.choice(['delete', 'move', 'move', 'shrink'])
        if k == 'move':
            for _ in range(40):
                dx, dy = rng.range(-30, 30), rng.range(-30, 30)
                P2 = [(x + dx, y + dy) for x, y in h.shapes[i]]
                if not A.through_interior(P2, s, d) and h.try_op(('M', i, dx, dy)):
                    gone[i] = ('M', dx, dy)
                    return 'move'
        if k == 'shrink':
            old = h.shapes[i]
            for _ in range(40):
                P2 = h.new_poly(maxw=6, minw=2)
                if len(P2) == len(old) and not A.through_interior(P2, s, d) and h.try_op(('T', i, P2)):
                    gone[i] = ('T', old)
                    return 'shrink'
        if h.try_op(('D', i)):
            gone[i] = ('D',)
            return 'delete'
        return None

    first = True
    for i in M:
        k = unblock(i)
        if k is None:
            return None, None
        tags.append(k)
        if first and len(M) == 2 and rng.chance(1, 2):
            h.P()
            tags.append('blockers-leave-in-consecutive-transactions')
        first = False
    h.P()
    for _ in range(rng.range(0, 2)):
        k = rng.choice(['reblock', 'reblock', 'bystander', 'endpoint'])
        if k == 'reblock':
            i = M[0]
            how = gone.get(i)
            done = False
            if how and how[0] == 'M' and i in h.shapes:
                done = h.try_op(('M', i, -how[1], -how[2]))
            elif how and how[0] == 'T' and i in h.shapes:
                done = h.try_op(('T', i, how[1]))
            if not done:
                for P in _near_line_poly(h, s, d, True):
                    if h.try_op(('A', h.nid, P)):
                        i = h.nid; h.nid += 1; done = True
                        break
            if done:
                h.P()
                tags.append('blocked-again')
                if unblock(i) is not None:
                    h.P()
                    tags.append('freed-again')
        elif k == 'bystander':
            cand = [j for j in by if j in h.shapes]
            if cand:
                j = rng.choice(cand)
                for _ in range(20):
                    if h.try_op(('M', j, rng.range(-8, 8), rng.range(-8, 8))):
                        h.P(); tags.append('bystander-moved')
                        break
        else:
            for _ in range(20):
                p = A.free_point(rng, list(h.shapes.values()), R, use_bbox=True)
                if h.try_op(('E', 100, rng.below(2), p)):
                    h.P(); tags.append('endpoint-moved')
                    break
    h.P()
    return h.ops, tags


def direct_line_free(shapes, s, d):
    return not any(A.through_interior(P, s, d) for P in shapes.values())
