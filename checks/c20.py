"""C20 - results are reproducible; routing / VPSC are independent of the frame (DESIGN 5.20).
proof: Coq theorems that make the hidden inputs explicit (Rect/Determinism.v: the scan line's dependence on the
address oracle, translation invariance; Geom/Symmetry.v: the predicates under the 8 symmetries of the square about the
cpp2v-generated Gen/Geometry.v; Cola/PseudoRandom: the LCG recurrence);
tie: translator (T) for the geometry predicates + correspondence (C) for the scan-line model (checks/c09.py machinery) +
replay runs on the real code: same call repeated in one process under allocator priming / unrelated work, translated
frames, the 8 symmetries, permuted input order.
(c2) the routing runs are repeated under sampled NON-DEFAULT configurations: every Avoid::RoutingParameter at 0 and at one or two
positive values, every RoutingOption on/off, polyline and orthogonal, 1-3 connectors, optionally pins / direction flags; compared:
bit-identical repetition (also after a routing call with other arguments), exact translation of route(), 1e-9 translation of the nudged
displayRoute(), and under the 8 symmetries / permuted insertion the route COST recomputed from the raw route() exactly as cost()
(makepath.cpp) accumulates it.  (a2) removeoverlaps repeated after unrelated calls of the same API (thirdPass false, other rectangles,
borders set and restored by the caller) with no reset in between.
(c3) libavoid under the DEFAULT configuration (no setRoutingParameter / setRoutingOption call, so that nothing hides a value the constructor
left uninitialised) on scenes with multi-pin classes of different pin costs / directions, crossing connectors, clusters: repeated after an
unrelated Router with EXTREME parameters was used and deleted, after malloc / fill / free of blocks of sizeof(Router) and nearby sizes, and with
every block handed out by operator new pre-filled (harness command F); plus every scene alone in one fresh process per fill mode (identical
allocation sequence => identical address order, only the prior contents of the heap blocks differ).  (d) libcola: ConstrainedFDLayout /
ConstrainedMajorizationLayout on small graphs with coincident / nearly coincident / distinct start positions, compound constraints off / on,
repeated with unrelated layouts of OTHER graphs with coincident nodes, a layout with extreme settings and heap fills in between (1e-9; measured:
bit-identical), translated start and permuted node / edge order (judged on the class where HEAD is measurably stable).  (e) the same for
vpsc::IncSolver and removeoverlaps (same-type object with extreme settings in between, heap fills, fresh-process fill invariance).
(b2) the static vpsc::Solver on DAGs: solve() / satisfy() twice, translated, and solve() under renumbered variables / reordered constraints
(random renumberings; every permutation x forward / reversed constraint order for 3-5 variables): positions must agree, base run certified by kkt_ok."""
import os, json, math, collections
from fractions import Fraction as F
from vlib import common as C
from checks import rectlib as L
from vlib import c01lib as L01

PID = 'C20'
PRIMINGS = [(0, 0), (7, 1), (7, 2), (3, 1), (5, 2)]
SAMPLES = []


# ------------------------------------------------------------------------------------------ (a) scan line / removeoverlaps
def tie_instance(rng):
    fam = rng.choice(['identical', 'identical', 'grid', 'arena', 'samecentre'])
    if fam == 'samecentre':
        n = rng.range(2, 6)
        cx, cy = rng.range(4, 8), rng.range(4, 8)
        rects = []
        for _ in range(n):
            a, b = rng.range(1, 3), rng.range(1, 3)
            rects.append((cx - a, cx + a, cy - b, cy + b) if rng.chance(2, 3) else
                         (cx - a + rng.below(2), cx + a + rng.below(2), cy - b, cy + b))
        return L.Inst(1, rects, 0, 0, 'samecentre')
    while True:
        i = L.gen_instance(rng)
        if i.family == fam or (fam == 'identical' and i.family == 'nested'):
            return i


def fd_classifier(inst):
    """F-d fingerprint: the failing call has two rectangles with equal centres in one dimension"""
    return inst.has_tie(0) or inst.has_tie(1)


def part_a(res, rng, exe, drv, n_inst, stats):
    cmds, keys, insts = [], [], []
    # corpus first
    cp = os.path.join(C.VERIF, 'corpus', 'c20_fd.json')
    if os.path.exists(cp):
        d = json.load(open(cp))
        insts.append(L.Inst(d['scale'], d['rects_minX_maxX_minY_maxY_over_scale'], 0, 0, 'corpus:c20_fd.json'))
    for _ in range(n_inst):
        insts.append(tie_instance(rng))
    for k, inst in enumerate(insts):
        fixed = [rng.below(inst.n())] if rng.chance(1, 3) else []
        third = rng.chance(1, 2)
        for what in ('G0', 'G1', 'G2', 'R'):
            for (pk, pd) in PRIMINGS:
                if what == 'R':
                    cmds.append(L.cmd_R_impl(inst, fixed, third, pk, pd))
                else:
                    cmds.append(L.cmd_G_impl(inst, int(what[1]), pk, pd))
                keys.append((k, what, pk, pd, fixed, third))
    # the same generator calls in a translated frame (integer offsets over the instance's scale: exact)
    tcmds, tkeys = [], []
    for k, inst in enumerate(insts):
        tx, ty = rng.range(-50, 50) * inst.scale, rng.range(-50, 50) * inst.scale
        tin = L.Inst(inst.scale, [(r[0] + tx, r[1] + tx, r[2] + ty, r[3] + ty) for r in inst.rects], inst.xb, inst.yb, inst.family)
        for mode in (0, 1, 2):
            tcmds += [L.cmd_G_impl(inst, mode), L.cmd_G_impl(tin, mode)]
            tkeys.append((k, mode, tx // inst.scale, ty // inst.scale))
    rc, tout, err, dtt = L.run_lines([exe], tcmds)
    for i, (k, mode, tx, ty) in enumerate(tkeys):
        if 2 * i + 1 >= len(tout):
            break
        a, b = L.parse_impl_C(tout[2 * i]), L.parse_impl_C(tout[2 * i + 1])
        stats['a_translated'] += 1
        if a['cs'] != b['cs'] and len(res.violations) < 3:
            res.violation({'what': 'translating every rectangle by an exactly representable offset changes the generated constraints',
                           'call': L.MODES[mode], 'input': insts[k].to_json(), 'offset': [tx, ty],
                           'constraints': [[x, y, float(g)] for x, y, g in a['cs']],
                           'constraints_translated_frame': [[x, y, float(g)] for x, y, g in b['cs']],
                           'replay': 'printf "%s\\n%s\\n" | build/bin/c09_rect-exc-*' % (tcmds[2 * i], tcmds[2 * i + 1])})
    rc, out, err, dt = L.run_lines([exe], cmds)
    if rc != 0 or len(out) != len(cmds):
        res.violation({'what': 'harness c09_rect crashed during the replay run', 'rc': rc, 'stderr': err[-1500:],
                       'command': cmds[len(out)] if len(out) < len(cmds) else None})
        return dt
    # public API with Variables that share one id (ids are "useful in log files" only, variable.h:51): valid input
    dcmds, dkeys = [], []
    for k, inst in enumerate(insts[:max(60, len(insts) // 4)]):
        for mode in (0, 1, 2):
            for (pk, pd) in PRIMINGS[:3]:
                c = L.cmd_G_impl(inst, mode, pk, pd)
                dcmds.append('G %d %s' % (mode + 10, c.split(' ', 2)[2]))
                dkeys.append((k, mode, pk, pd))
    rc, dout, err, _ = L.run_lines([exe], dcmds)
    # a crash or a failed assertion on this (valid) input is a failure of its own, never part of the known finding
    # scanline_addr_tiebreak_dup_ids, which is about the ORDER of a complete constraint set only (DESIGN 9.18)
    if rc != 0 or len(dout) != len(dcmds):
        res.violation({'what': 'harness c09_rect crashed in generateX/YConstraints called with Variables that all have id 0', 'rc': rc,
                       'stderr': err[-800:], 'replay': 'echo "%s" | build/bin/c09_rect-exc-*' % dcmds[min(len(dout), len(dcmds) - 1)]})
    else:
        for key, cmd, line in zip(dkeys, dcmds, dout):
            if int(line.split()[1]) % 10 != 0:
                res.violation({'what': 'generateX/YConstraints called with Variables that all have id 0 failed an assertion / threw',
                               'where': line.split(' # ')[1] if ' # ' in line else None, 'input': insts[key[0]].to_json(),
                               'replay': 'echo "%s" | build/bin/c09_rect-exc-*' % cmd})
                break
    dgroups = {}
    for key, cmd, line in zip(dkeys, dcmds, dout):
        dgroups.setdefault(key[:2], []).append((key, cmd, line))
    dup_reported = False
    for (k, mode), runs in dgroups.items():
        stats['a_dupid_groups'] += 1
        pay = [' '.join(r[2].split(' # ')[0].split()[2:]) for r in runs]
        if len(set(pay)) > 1:
            stats['a_dupid_differ'] += 1
            if not dup_reported:
                dup_reported = True
                a = next(i for i in range(len(pay)) if pay[i] != pay[0])
                res.violation({'what': 'generateX/YConstraints called through the public API with Variables that all have id 0: same call, same input, '
                                       'one process, result depends on the heap state (CmpNodePos still falls back to the Node address when the ids are equal)',
                               'call': L.MODES[mode] + ', every Variable::id == 0', 'input': insts[k].to_json(),
                               'priming_a': 'malloc(56) x %d freed %s' % (runs[0][0][2], ['-', 'ascending', 'descending'][runs[0][0][3]]),
                               'priming_b': 'malloc(56) x %d freed %s' % (runs[a][0][2], ['-', 'ascending', 'descending'][runs[a][0][3]]),
                               'result_a': describe(runs[0][2]), 'result_b': describe(runs[a][2]),
                               'equal_centres_present': fd_classifier(insts[k]),
                               'replay': 'printf "%s\\n%s\\n" | build/bin/c09_rect-exc-*' % (runs[0][1], runs[a][1])},
                              fingerprint='scanline_addr_tiebreak_dup_ids' if fd_classifier(insts[k]) else None)
    groups = {}
    for key, cmd, line in zip(keys, cmds, out):
        groups.setdefault((key[0], key[1]), []).append((key, cmd, line))
    reported = 0
    for (k, what), runs in groups.items():
        inst = insts[k]
        stats['a_groups'] += 1
        stats['a_runs'] += len(runs)
        payload = []
        for key, cmd, line in runs:
            f = line.split(' # ')[0].split()
            flag = int(f[1])
            if flag >= 10:
                stats['a_prime_not_verified'] += 1
            payload.append(' '.join([f[0], str(flag % 10)] + f[2:]))
        if len(SAMPLES) < 2 and what == 'R' and inst.has_tie(0):
            SAMPLES.append({'call': 'removeoverlaps under 5 allocator primings', 'input': inst.to_json(), 'identical_results': len(set(payload)) == 1,
                            'result': describe(runs[0][2])})
        if len(set(payload)) > 1:
            stats['a_differ'] += 1
            if reported < 3:
                reported += 1
                a = next(i for i in range(len(payload)) if payload[i] != payload[0])
                which = None
                if what != 'R':
                    # which comparator does the implementation follow? (model with the id tie-break vs reversed address oracle)
                    mode = int(what[1])
                    n = inst.n()
                    rc2, mo, _, _ = L.run_lines([drv, exe], [L.cmd_G_model(inst, mode, 1), L.cmd_G_model(inst, mode, 0, list(range(n))),
                                                             L.cmd_G_model(inst, mode, 0, list(range(n - 1, -1, -1)))])
                    got = [sorted(L.parse_impl_C(r[2])['cs']) for r in runs]
                    ms = [sorted(L.parse_model_C(x)['cs']) for x in mo]
                    which = {'matches_cmp_node_pos_id_model': [g == ms[0] for g in got],
                             'matches_cmp_node_pos_addr_model_ascending': [g == ms[1] for g in got],
                             'matches_cmp_node_pos_addr_model_descending': [g == ms[2] for g in got]}
                res.violation({'what': 'same call, same input, one process: result depends on the heap state (allocator priming between the calls)',
                               'call': 'removeoverlaps' if what == 'R' else L.MODES[int(what[1])],
                               'input': inst.to_json(), 'fixed': runs[0][0][4], 'thirdPass': runs[0][0][5],
                               'priming_a': 'malloc(56) x %d freed %s' % (runs[0][0][2], ['-', 'ascending', 'descending'][runs[0][0][3]]),
                               'priming_b': 'malloc(56) x %d freed %s' % (runs[a][0][2], ['-', 'ascending', 'descending'][runs[a][0][3]]),
                               'result_a': describe(runs[0][2]), 'result_b': describe(runs[a][2]),
                               'equal_centres_present': fd_classifier(inst), 'model_variants': which,
                               'replay': 'printf "%s\\n%s\\n" | build/bin/c09_rect-exc-*' % (runs[0][1], runs[a][1])},
                              fingerprint='scanline_addr_tiebreak' if fd_classifier(inst) else None)
    return dt


def describe(line):
    f = line.split()
    if f[0] == 'R':
        r = L.parse_impl_R(line)
        return {'centres': [[float((q[0] + q[1]) / 2), float((q[2] + q[3]) / 2)] for q in r['rects']]}
    c = L.parse_impl_C(line)
    return {'constraints_l_r_gap': [[a, b, float(g)] for a, b, g in c['cs']]}


# ------------------------------------------------------------------------------------------ (b) IncSolver
def vpsc_instance(rng):
    n = rng.range(2, 8)
    des = [F(rng.range(-20, 20) * rng.choice([1, 1, 2]), rng.choice([1, 2, 4])) for _ in range(n)]
    if rng.chance(1, 3):
        des = [des[0]] * n
    ws = [F(rng.choice([1, 1, 1, 2, 4, 3, 10])) for _ in range(n)]
    order = rng.shuffle(range(n))
    cs = []
    m = rng.range(1, 2 * n)
    cyc = rng.chance(1, 6)
    for _ in range(m):
        a, b = rng.below(n), rng.below(n)
        if a == b:
            continue
        if not cyc and order.index(a) > order.index(b):
            a, b = b, a
        cs.append((a, b, F(rng.range(0, 6), rng.choice([1, 1, 2])), 1 if rng.chance(1, 8) else 0))
    return des, ws, cs, cyc


def fs(x):
    x = F(x)
    v = float(x)
    assert F(v) == x
    return repr(v)


def cmd_V(des, ws, cs):
    return 'V %d %d %s %s' % (len(des), len(cs), ' '.join('%s %s' % (fs(d), fs(w)) for d, w in zip(des, ws)),
                             ' '.join('%d %d %s %d' % (l, r, fs(g), e) for l, r, g, e in cs))


def parse_V(line):
    if line.startswith('VX'):
        return None
    parts = line[2:].split('|')
    a, b = parts[0], parts[1]
    act = [int(x) for x in parts[2].split()] if len(parts) > 2 else None
    return [L.hexq(x) for x in a.split()], [int(x) for x in b.split()], act


def certify_runs(runs):
    """runs: list of (des, ws, cs, parsed V result).  For every run the extracted, proved checker kkt_ok (Vpsc/KKT.v, driver
    extract/c01_driver.ml) is evaluated on the optimum supported on the REAL solver's final active forest (multipliers by leaf
    elimination; the model's forest as fall-back).  Returns a list of exact certified optima (list of Fraction) or None."""
    ex = L01.tools()
    os.makedirs(L01.TMP, exist_ok=True)
    path = os.path.join(L01.TMP, 'c20-cert-%d.drv.txt' % os.getpid())
    with open(path, 'w') as f:
        for k, (des, ws, cs, r) in enumerate(runs):
            ins = {'id': k, 'kind': 'I', 'vs': [(d, w, F(1)) for d, w in zip(des, ws)], 'cs': [(l, rr, g, bool(e)) for l, rr, g, e in cs],
                   'ops': [('S',)]}
            reals = []
            if r is not None and r[2] is not None:
                reals = [{'op': 0, 'status': 'ok', 'finite': True, 'x': r[0], 'A': ''.join(str(a) for a in r[2]) or '-',
                          'U': ''.join(str(u) for u in r[1]) or '-'}]
            f.write(L01.inst_drv_text(ins, reals))
    rc, out, err, dt = C.sh([ex['drv'], path], timeout=600)
    try:
        os.remove(path)
    except OSError:
        pass
    drv = L01.parse_drv(out)
    certs = []
    for k in range(len(runs)):
        c = (drv.get(k) or {}).get('k', {}).get(0)
        certs.append(c['x'] if c and '!' not in c['src'] else None)
    return certs, (rc, err[-800:] if rc else ''), dt


def part_b(res, rng, exe, n_inst, stats):
    cmds, meta = [], []
    corpus = []
    cp = os.path.join(C.VERIF, 'corpus', 'c20_vpsc_permute.json')
    if os.path.exists(cp):
        d = json.load(open(cp))
        corpus.append(([F(x) for x in d['desired']], [F(x) for x in d['weights']],
                       [(l, r, F(g), e) for l, r, g, e in d['constraints_l_r_gap_eq']], d['variable_permutation'], d['constraint_order']))
    for k in range(n_inst + len(corpus)):
        if k < len(corpus):
            des, ws, cs, perm0, corder0 = corpus[k]
            cyc = False
        else:
            des, ws, cs, cyc = vpsc_instance(rng)
            perm0 = corder0 = None
        n = len(des)
        t = F(rng.range(-2 ** 16, 2 ** 16), 1024)
        perm = perm0 if perm0 else rng.shuffle(range(n))           # new index of variable i is perm[i]
        inv = [0] * n
        for i, p in enumerate(perm):
            inv[p] = i
        pdes, pws = [des[inv[j]] for j in range(n)], [ws[inv[j]] for j in range(n)]
        corder = corder0 if corder0 else rng.shuffle(range(len(cs)))
        pcs = [(perm[cs[c][0]], perm[cs[c][1]], cs[c][2], cs[c][3]) for c in corder]
        base = cmd_V(des, ws, cs)
        cmds += [base, 'J %d %d' % (rng.range(10, 400), rng.next() % 10 ** 9), base,
                 cmd_V([d + t for d in des], ws, cs), cmd_V(pdes, pws, pcs)]
        meta.append((des, ws, cs, cyc, t, perm, corder))
    rc, out, err, dt = L.run_lines([exe], cmds)
    if rc != 0 or len(out) != len(cmds):
        res.violation({'what': 'harness c20_replay crashed in the IncSolver run', 'rc': rc, 'stderr': err[-1500:],
                       'command': cmds[len(out)] if len(out) < len(cmds) else None})
        return dt
    tol = F(1, 10 ** 9)
    # per-run certificates (extracted kkt_ok): base run, translated run, permuted run of every instance
    runs = []
    for k, (des, ws, cs, cyc, t, perm, corder) in enumerate(meta):
        o = out[5 * k:5 * k + 5]
        n = len(des)
        inv = [0] * n
        for i, pp in enumerate(perm):
            inv[pp] = i
        pdes, pws = [des[inv[j]] for j in range(n)], [ws[inv[j]] for j in range(n)]
        pcs = [(perm[cs[c][0]], perm[cs[c][1]], cs[c][2], cs[c][3]) for c in corder]
        runs += [(des, ws, cs, parse_V(o[0])), ([d + t for d in des], ws, cs, parse_V(o[3])), (pdes, pws, pcs, parse_V(o[4]))]
    certs, cerr, dtc = certify_runs(runs)
    if cerr[0] != 0:
        res.violation({'what': 'the certificate driver (extracted kkt_ok) failed on the IncSolver replay runs', 'rc': cerr[0], 'stderr': cerr[1]}, no_input=True)
    stats['b_cert_time_s'] = round(dtc, 2)
    ctol = F(1, 10 ** 5)
    for k, (des, ws, cs, cyc, t, perm, corder) in enumerate(meta):
        o = out[5 * k:5 * k + 5]
        first, again, trans, permd = parse_V(o[0]), parse_V(o[2]), parse_V(o[3]), parse_V(o[4])
        c_first, c_trans, c_perm = certs[3 * k], certs[3 * k + 1], certs[3 * k + 2]
        stats['b_instances'] += 1
        inp = {'desired': [str(d) for d in des], 'weights': [str(w) for w in ws], 'constraints_l_r_gap_eq': [[l, r, str(g), e] for l, r, g, e in cs]}
        if o[0] != o[2]:
            res.violation({'what': 'IncSolver: same problem solved twice in one process (unrelated allocation and library calls in between) gives different results',
                           'input': inp, 'first': o[0], 'second': o[2], 'replay': 'printf "%s\\n%s\\n%s\\n" | build/bin/c20_replay-plain-*' % (cmds[5 * k], cmds[5 * k + 1], cmds[5 * k + 2])})
            continue
        if first is None:
            stats['b_threw'] += 1
            continue
        unsat = any(first[1])
        stats['b_unsat'] += unsat
        if not unsat:
            # each real result against the kkt_ok-certified (hence unique, C02_kkt_ok_sound) optimum of its own instance
            sc = max([F(1)] + [abs(d) for d in des] + [abs(g) for _, _, g, _ in cs])
            for name, cert, real, shift in (('base', c_first, first, F(0)), ('translated', c_trans, trans, t), ('permuted', c_perm, permd, F(0))):
                if cert is None or real is None or any(real[1]):
                    stats['b_cert_missing'] += 1
                    continue
                stats['b_cert_runs'] += 1
                if max([abs(a - b) for a, b in zip(cert, real[0])] or [F(0)]) > ctol * sc:
                    stats['b_cert_real_deviates'] += 1
                    if stats['b_cert_real_deviates'] <= 3:
                        res.violation({'what': 'IncSolver (%s run): the result differs from the kkt_ok-certified unique optimum of its instance, so the '
                                               'runs of the renumbered / translated problem cannot all agree with it' % name,
                                       'input': inp, 't': str(t), 'variable_permutation': perm, 'constraint_order': corder,
                                       'result': [float(x - shift) for x in real[0]], 'certified_optimum': [float(x - shift) for x in cert],
                                       'replay': 'printf "%s\\n" | build/bin/c20_replay-plain-*' % cmds[5 * k + {'base': 0, 'translated': 3, 'permuted': 4}[name]]})
            # the theorems' conclusions on the exact certified optima (cannot fail unless the machinery is wrong)
            if c_first is not None and c_perm is not None:
                stats['b_permute_certified_pairs'] += 1
                if any(c_perm[perm[i]] != c_first[i] for i in range(len(des))):
                    res.violation({'what': 'MACHINERY: two kkt_ok-certified optima of a problem and its renumbering disagree, contradicting the Coq theorem '
                                           'C20_vpsc_permute_checked', 'input': inp, 'variable_permutation': perm, 'constraint_order': corder,
                                   'certified': [str(x) for x in c_first], 'certified_permuted': [str(x) for x in c_perm]}, no_input=True)
            if c_first is not None and c_trans is not None:
                stats['b_translate_certified_pairs'] += 1
                if any(c_trans[i] != c_first[i] + t for i in range(len(des))):
                    res.violation({'what': 'MACHINERY: the kkt_ok-certified optimum of the translated problem is not the translated certified optimum, '
                                           'contradicting the Coq theorem C20_vpsc_translate_checked', 'input': inp, 't': str(t),
                                   'certified': [str(x) for x in c_first], 'certified_translated': [str(x) for x in c_trans]}, no_input=True)
        if trans is None or trans[1] != first[1] or any(abs((b - t) - a) > tol for a, b in zip(first[0], trans[0])):
            if not unsat:
                res.violation({'what': 'IncSolver: adding t to every desired position does not add t to every result (1e-9) / changes the flags',
                               'input': inp, 't': str(t), 'result': [float(x) for x in first[0]], 'result_translated_minus_t': [float(x - t) for x in trans[0]] if trans else None,
                               'flags': first[1], 'flags_translated': trans[1] if trans else None,
                               'replay': 'printf "%s\\n%s\\n" | build/bin/c20_replay-plain-*' % (cmds[5 * k], cmds[5 * k + 3])})
            else:
                stats['b_unsat_translate_differs'] += 1
        else:
            stats['b_translate_ok'] += 1
            if len(SAMPLES) < 4:
                SAMPLES.append({'call': 'IncSolver twice / translated / permuted', 'input': inp, 't': str(t), 'result': [float(x) for x in first[0]]})
            stats['b_translate_bit_exact'] += all((b - t) == a for a, b in zip(first[0], trans[0]))
        if not unsat and permd is not None and not any(permd[1]):
            back = [permd[0][perm[i]] for i in range(len(des))]
            if any(abs(a - b) > tol for a, b in zip(first[0], back)):
                # classifier: both answers feasible and of different cost => one run stopped at a non-optimal point
                def feas(x):
                    return all((x[r] - x[l] - g >= -F(1, 10 ** 7)) and (not e or abs(x[r] - x[l] - g) <= F(1, 10 ** 7)) for l, r, g, e in cs)
                c1 = sum(w * (x - dd) ** 2 for w, x, dd in zip(ws, first[0], des))
                c2 = sum(w * (x - dd) ** 2 for w, x, dd in zip(ws, back, des))
                subopt = feas(first[0]) and feas(back) and abs(c1 - c2) > F(1, 10 ** 9) * max(1, c1)
                stats['b_permute_differs'] += 1
                res.violation({'what': 'IncSolver: result depends on the numbering / order of variables and constraints (1e-9)'
                                       + ('; both results are feasible but their costs differ, so one of them is not the optimum' if subopt else ''),
                               'input': inp, 'variable_permutation': perm, 'constraint_order': corder, 'result': [float(x) for x in first[0]],
                               'result_permuted_mapped_back': [float(x) for x in back], 'cost': float(c1), 'cost_permuted': float(c2),
                               'both_feasible': feas(first[0]) and feas(back), 'fingerprint_classifier': 'both feasible, no unsat flag, costs differ',
                               'replay': 'printf "%s\\n%s\\n" | build/bin/c20_replay-plain-*' % (cmds[5 * k], cmds[5 * k + 4])},
                              fingerprint='vpsc_order_dependent_suboptimal' if subopt else None)
            else:
                stats['b_permute_ok'] += 1
    return dt


# ------------------------------------------------------------------------------------------ (b2) static Solver
def static_instance(rng, small=False):
    """a DAG problem for the static vpsc::Solver (its domain): scale 1, inequalities only, dyadic data"""
    n = rng.range(3, 5) if small else rng.range(2, 8)
    if small or rng.chance(1, 2):
        des = [F(rng.range(0, 20)) for _ in range(n)]
        ws = [F(rng.choice([1, 1, 2, 3])) for _ in range(n)]
    else:
        des = [F(rng.range(-20, 20) * rng.choice([1, 1, 2]), rng.choice([1, 2, 4])) for _ in range(n)]
        if rng.chance(1, 3):
            des = [des[0]] * n
        ws = [F(rng.choice([1, 1, 1, 2, 4, 3, 10])) for _ in range(n)]
    order = rng.shuffle(range(n))
    pos = {v: i for i, v in enumerate(order)}
    cs = []
    for _ in range(rng.range(1, n + 1) if small else rng.range(1, 2 * n)):
        a, b = rng.below(n), rng.below(n)
        if a == b:
            continue
        if pos[a] > pos[b]:
            a, b = b, a
        cs.append((a, b, F(rng.range(0, 6), rng.choice([1, 1, 2])), 0))
    if not cs:
        cs = [(order[0], order[1], F(1), 0)]
    return des, ws, cs


def cmd_S(mode, des, ws, cs):
    return 'S %d %d %d %s %s' % (mode, len(des), len(cs), ' '.join('%s %s' % (fs(d), fs(w)) for d, w in zip(des, ws)),
                                ' '.join('%d %d %s' % (l, r, fs(g)) for l, r, g, e in cs))


def parse_S(line):
    if line is None or line.startswith('SX') or not line.startswith('S'):
        return None
    a, b = line[2:].split('|')
    act = [int(x) for x in b.split()]
    return [L.hexq(x) for x in a.split()], [0] * len(act), act


def permuted(des, ws, cs, perm, corder):
    """the same problem with variable i renumbered perm[i] and the constraints supplied in the order corder"""
    n = len(des)
    inv = [0] * n
    for i, p in enumerate(perm):
        inv[p] = i
    return [des[inv[j]] for j in range(n)], [ws[inv[j]] for j in range(n)], [(perm[cs[c][0]], perm[cs[c][1]], cs[c][2], cs[c][3]) for c in corder]


def all_perms(n):
    import itertools
    return [list(p) for p in itertools.permutations(range(n))]


def part_bs(res, rng, exe, n_inst, n_small, stats):
    """the static vpsc::Solver (DAG inputs, scale 1): solve() and satisfy() twice in one process with unrelated work in between
    (bit-identical), in a translated frame (1e-9), and solve() under renumbered variables / reordered constraints - the optimum is
    unique (C02_optimum_unique, C02_order_independent, C20_vpsc_permute_checked), so every ordering must return the same positions;
    the base solve() of every instance is also decided by the extracted kkt_ok certificate, which names the run that is wrong.
    satisfy() alone promises feasibility only, not a unique result: under renumbering it is judged on feasibility.
    Families: random DAGs with 3 random renumberings + the reversed constraint order; small DAGs (3-5 variables) under EVERY variable
    permutation x constraint order forward / reversed; the corpus (corpus/c20_static_permute.json) first."""
    groups = []      # (des, ws, cs, [(perm, corder)], tag)
    cp = os.path.join(C.VERIF, 'corpus', 'c20_static_permute.json')
    if os.path.exists(cp):
        for d in json.load(open(cp))['problems']:
            des, ws = [F(x) for x in d['desired']], [F(x) for x in d['weights']]
            cs = [(l, r, F(g), 0) for l, r, g in d['constraints_l_r_gap']]
            m = len(cs)
            perms = all_perms(len(des)) if len(des) <= 5 else [rng.shuffle(range(len(des))) for _ in range(60)]
            pl = [(p, co) for p in perms for co in (list(range(m)), list(range(m - 1, -1, -1)))]
            for p, co in d.get('orderings', []):
                pl.insert(0, (p, co))
            groups.append((des, ws, cs, pl, 'corpus'))
    for k in range(n_small):
        des, ws, cs = static_instance(rng, small=True)
        m = len(cs)
        groups.append((des, ws, cs, [(p, co) for p in all_perms(len(des)) for co in (list(range(m)), list(range(m - 1, -1, -1)))], 'small-all-perms'))
    for k in range(n_inst):
        des, ws, cs = static_instance(rng)
        n, m = len(des), len(cs)
        pl = [(list(range(n)), list(range(m - 1, -1, -1)))] + [(rng.shuffle(range(n)), rng.shuffle(range(m))) for _ in range(3)]
        groups.append((des, ws, cs, pl, 'random'))
    cmds, index = [], []
    for des, ws, cs, pl, tag in groups:
        t = F(rng.range(-2 ** 16, 2 ** 16), 1024)
        start = len(cmds)
        b0, b1 = cmd_S(0, des, ws, cs), cmd_S(1, des, ws, cs)
        cmds += [b0, 'J %d %d' % (rng.range(10, 400), rng.next() % 10 ** 9), b0, cmd_S(0, [d + t for d in des], ws, cs),
                 b1, 'J %d %d' % (rng.range(10, 200), rng.next() % 10 ** 9), b1, cmd_S(1, [d + t for d in des], ws, cs)]
        for perm, co in pl:
            cmds.append(cmd_S(0, *permuted(des, ws, cs, perm, co)))
        p1, c1 = pl[len(pl) // 2]
        cmds.append(cmd_S(1, *permuted(des, ws, cs, p1, c1)))
        index.append((start, t))
    rc, out, err, dt = L.run_lines([exe], cmds)
    if rc != 0 or len(out) != len(cmds):
        res.violation({'what': 'harness c20_replay crashed in the static Solver run', 'rc': rc, 'stderr': err[-1500:],
                       'command': cmds[len(out)] if len(out) < len(cmds) else None})
        return dt
    certs, cerr, dtc = certify_runs([(des, ws, cs, parse_S(out[index[g][0]])) for g, (des, ws, cs, pl, tag) in enumerate(groups)])
    if cerr[0] != 0:
        res.violation({'what': 'the certificate driver (extracted kkt_ok) failed on the static Solver replay runs', 'rc': cerr[0], 'stderr': cerr[1]}, no_input=True)
    stats['bs_cert_time_s'] = round(dtc, 2)
    tol, ctol = F(1, 10 ** 9), F(1, 10 ** 5)
    rep = 'printf "%s\\n" | build/bin/c20_replay-plain-*'
    rep_by_tag = {}
    for g, (des, ws, cs, pl, tag) in enumerate(groups):
        start, t = index[g]
        n = len(des)
        o = out[start:start + 8 + len(pl) + 1]
        stats['bs_instances'] += 1
        stats['bs_runs'] += len(o) - 2
        stats['bs_' + tag] += 1
        inp = {'solver': 'vpsc::Solver (static)', 'desired': [str(d) for d in des], 'weights': [str(w) for w in ws],
               'constraints_l_r_gap': [[l, r, str(gp)] for l, r, gp, e in cs], 'family': tag}
        sc = max([F(1)] + [abs(d) for d in des] + [abs(gp) for _, _, gp, _ in cs])

        def feas(x, eps=F(1, 10 ** 7)):
            return all(x[r] - x[l] - gp >= -eps for l, r, gp, e in cs)

        def cost(x):
            return sum(w * (a - dd) ** 2 for w, a, dd in zip(ws, x, des))
        bad = None
        for mode, i0, name in ((0, 0, 'solve()'), (1, 4, 'satisfy()')):
            if o[i0] != o[i0 + 2]:
                bad = {'what': 'static Solver::%s: same problem solved twice in one process (unrelated allocation and library calls in between) gives different results' % name,
                       'first': o[i0], 'second': o[i0 + 2], 'replay': rep % '\\n'.join(cmds[start + i0:start + i0 + 3])}
                break
            first, trans = parse_S(o[i0]), parse_S(o[i0 + 3])
            if first is None:
                bad = {'what': 'static Solver::%s threw on a feasible acyclic problem' % name, 'replay': rep % cmds[start + i0]}
                break
            if not feas(first[0]):
                bad = {'what': 'static Solver::%s returned with a violated constraint (1e-7) on a feasible acyclic problem' % name,
                       'result': [float(x) for x in first[0]], 'replay': rep % cmds[start + i0]}
                break
            if trans is None or any(abs((b - t) - a) > tol for a, b in zip(first[0], trans[0])):
                bad = {'what': 'static Solver::%s: adding t to every desired position does not add t to every result (1e-9)' % name, 't': str(t),
                       'result': [float(x) for x in first[0]], 'result_translated_minus_t': [float(x - t) for x in trans[0]] if trans else None,
                       'replay': rep % (cmds[start + i0] + '\\n' + cmds[start + i0 + 3])}
                break
            stats['bs_translate_ok'] += 1
            stats['bs_translate_bit_exact'] += all((b - t) == a for a, b in zip(first[0], trans[0]))
            stats['bs_translate_active_flags_differ'] += first[2] != trans[2]
        if bad is None:
            first = parse_S(o[0])
            cert = certs[g]
            base_ok = None
            if cert is not None:
                stats['bs_cert_runs'] += 1
                base_ok = max([abs(a - b) for a, b in zip(cert, first[0])] or [F(0)]) <= ctol * sc
            else:
                stats['bs_cert_missing'] += 1
            if base_ok is False:
                bad = {'what': 'static Solver::solve() (original numbering): the result differs from the kkt_ok-certified unique optimum of its instance, '
                               'so the runs of the renumbered problem cannot all agree with it', 'result': [float(x) for x in first[0]],
                       'certified_optimum': [float(x) for x in cert], 'cost': float(cost(first[0])), 'cost_optimum': float(cost(cert)), 'replay': rep % cmds[start]}
            differ = 0
            for j, (perm, co) in enumerate(pl):
                pr = parse_S(o[8 + j])
                if pr is None:
                    if bad is None:
                        bad = {'what': 'static Solver::solve() threw for a renumbering of a feasible acyclic problem', 'variable_permutation': perm, 'constraint_order': co,
                               'replay': rep % cmds[start + 8 + j]}
                    continue
                back = [pr[0][perm[i]] for i in range(n)]
                stats['bs_permute_pairs'] += 1
                if any(abs(a - b) > tol * sc for a, b in zip(first[0], back)):
                    differ += 1
                    if bad is None or 'variable_permutation' not in bad:
                        c1, c2 = cost(first[0]), cost(back)
                        both = feas(first[0]) and feas(back)
                        which = None
                        if cert is not None:
                            which = 'the original numbering' if base_ok is False else 'the renumbered run'
                        bad = {'what': 'static Solver::solve(): result depends on the numbering / order of variables and constraints (1e-9)'
                                       + ('; both results are feasible but their costs differ, so one of them is not the optimum' if both and abs(c1 - c2) > F(1, 10 ** 9) * max(1, c1) else '')
                                       + ('; by the kkt_ok certificate the wrong one is %s' % which if which else ''),
                               'variable_permutation': perm, 'constraint_order': co, 'result': [float(x) for x in first[0]],
                               'result_permuted_mapped_back': [float(x) for x in back], 'cost': float(c1), 'cost_permuted': float(c2), 'both_feasible': both,
                               'certified_optimum': [float(x) for x in cert] if cert is not None else None,
                               'replay': rep % (cmds[start] + '\\n' + cmds[start + 8 + j])}
                else:
                    stats['bs_permute_ok'] += 1
            if differ:
                stats['bs_permute_differs'] += differ
                bad['orderings_that_differ'] = '%d of %d' % (differ, len(pl))
            ps = parse_S(o[8 + len(pl)])
            if bad is None and (ps is None or not feas([ps[0][pl[len(pl) // 2][0][i]] for i in range(n)])):
                bad = {'what': 'static Solver::satisfy() on a renumbered feasible acyclic problem threw or returned with a violated constraint (1e-7)',
                       'variable_permutation': pl[len(pl) // 2][0], 'constraint_order': pl[len(pl) // 2][1], 'replay': rep % cmds[start + 8 + len(pl)]}
        if bad is not None:
            stats['bs_failing_instances'] += 1
            if rep_by_tag.get(tag, 0) < (2 if tag == 'corpus' else 1):      # corpus first, but a generator find of each family is reported too
                rep_by_tag[tag] = rep_by_tag.get(tag, 0) + 1
                bad['input'] = inp
                res.violation(bad)
        elif len(SAMPLES) < 6 and tag != 'corpus' and any(parse_S(o[0])[2]):
            SAMPLES.append({'call': 'static Solver solve()/satisfy() twice / translated / %d renumberings' % len(pl), 'input': inp, 't': str(t),
                            'result': [float(x) for x in parse_S(o[0])[0]]})
    return dt


# ------------------------------------------------------------------------------------------ (c) libavoid
SYMS = [lambda x, y: (x, y), lambda x, y: (-x, y), lambda x, y: (x, -y), lambda x, y: (-x, -y),
        lambda x, y: (y, x), lambda x, y: (-y, x), lambda x, y: (y, -x), lambda x, y: (-y, -x)]


def scene(rng):
    ns = rng.range(1, 5)
    shapes = []
    tries = 0
    while len(shapes) < ns and tries < 200:
        tries += 1
        x, y, w, h = rng.range(0, 60), rng.range(0, 60), rng.range(4, 20), rng.range(4, 20)
        r = (x, y, x + w, y + h)
        if all(r[2] + 3 <= s[0] or s[2] + 3 <= r[0] or r[3] + 3 <= s[1] or s[3] + 3 <= r[1] for s in shapes):
            shapes.append(r)
    def free_pt():
        while True:
            p = (rng.range(-10, 90), rng.range(-10, 90))
            if all(p[0] < s[0] - 1 or p[0] > s[2] + 1 or p[1] < s[1] - 1 or p[1] > s[3] + 1 for s in shapes):
                return p
    conns = []
    for _ in range(rng.range(1, 3)):
        a, b = free_pt(), free_pt()
        if a != b:
            conns.append((a[0], a[1], b[0], b[1]))
    if not conns:
        conns = [(-10, -10, 90, 90)]
    return shapes, conns


def cmd_A(mode, pen, shapes, conns, f=lambda x, y: (x, y), tx=F(0), ty=F(0)):
    def P(x, y):
        a, b = f(F(x), F(y))
        return '%s %s' % (fs(a + tx), fs(b + ty))
    return 'A %d %s %d %s %d %s' % (mode, fs(pen), len(shapes), ' '.join('%s %s' % (P(s[0], s[1]), P(s[2], s[3])) for s in shapes),
                                   len(conns), ' '.join('%s %s' % (P(c[0], c[1]), P(c[2], c[3])) for c in conns))


def parse_A(line):
    if line.startswith('AX'):
        return None
    f = line.split()[1:]
    routes, i = [], 0
    while i < len(f):
        k = int(f[i])
        pts = [(L.hexq(f[i + 1 + 2 * j]), L.hexq(f[i + 2 + 2 * j])) for j in range(k)]
        routes.append(pts)
        i += 1 + 2 * k
    return routes


def cost(pts, pen):
    """length + pen * number of bends of the simplified polyline (float arithmetic; compared to 1e-9 relative)"""
    simp = []
    for p in pts:
        if simp and p == simp[-1]:
            continue
        if len(simp) >= 2:
            a, b = simp[-2], simp[-1]
            if (b[0] - a[0]) * (p[1] - a[1]) == (p[0] - a[0]) * (b[1] - a[1]) and \
               (b[0] - a[0]) * (p[0] - b[0]) + (b[1] - a[1]) * (p[1] - b[1]) >= 0:
                simp[-1] = p
                continue
        simp.append(p)
    ln = sum(math.hypot(float(b[0] - a[0]), float(b[1] - a[1])) for a, b in zip(simp, simp[1:]))
    return ln + float(pen) * max(0, len(simp) - 2), ln, max(0, len(simp) - 2)


def part_c(res, rng, exe, n_inst, stats):
    cmds, meta = [], []
    for k in range(n_inst):
        shapes, conns = scene(rng)
        mode = rng.below(2)
        pen = 0 if mode == 0 else rng.choice([10, 50])
        tx, ty = F(rng.range(-2 ** 15, 2 ** 15), 1024), F(rng.range(-2 ** 15, 2 ** 15), 1024)
        sperm = rng.shuffle(range(len(shapes)))
        base = cmd_A(mode, pen, shapes, conns)
        block = [base, 'J %d %d' % (rng.range(10, 400), rng.next() % 10 ** 9), base, cmd_A(mode, pen, shapes, conns, tx=tx, ty=ty),
                 cmd_A(mode, pen, [shapes[i] for i in sperm], conns)]
        block += [cmd_A(mode, pen, shapes, conns, f=SYMS[s]) for s in range(1, 8)]
        cmds += block
        meta.append((shapes, conns, mode, pen, tx, ty, sperm, len(block)))
    rc, out, err, dt = L.run_lines([exe], cmds, timeout=1500)
    if rc != 0 or len(out) != len(cmds):
        res.violation({'what': 'harness c20_replay crashed in the routing run', 'rc': rc, 'stderr': err[-1500:],
                       'command': cmds[len(out)] if len(out) < len(cmds) else None})
        return dt
    pos = 0
    for (shapes, conns, mode, pen, tx, ty, sperm, blen) in meta:
        o = out[pos:pos + blen]
        c = cmds[pos:pos + blen]
        pos += blen
        stats['c_scenes'] += 1
        stats['c_orthogonal'] += mode
        inp = {'routing': 'orthogonal' if mode else 'polyline', 'segmentPenalty': pen, 'shapes_x0_y0_x1_y1': shapes, 'connectors_sx_sy_dx_dy': conns}
        if o[0] != o[2]:
            res.violation({'what': 'libavoid: the same scene routed twice in one process (unrelated work in between) gives different routes',
                           'input': inp, 'first': o[0], 'second': o[2], 'replay': 'printf "%s\\n%s\\n%s\\n" | build/bin/c20_replay-plain-*' % (c[0], c[1], c[2])})
            continue
        base = parse_A(o[0])
        if base is None:
            stats['c_threw'] += 1
            continue
        tr = parse_A(o[3])
        if tr is None or [[(x - tx, y - ty) for x, y in r] for r in tr] != base:
            res.violation({'what': 'libavoid: translating the scene by an exactly representable offset does not translate the routes exactly',
                           'input': inp, 'offset': [str(tx), str(ty)], 'routes': [[[float(x), float(y)] for x, y in r] for r in base],
                           'routes_translated_minus_offset': [[[float(x - tx), float(y - ty)] for x, y in r] for r in tr] if tr else None,
                           'replay': 'printf "%s\\n%s\\n" | build/bin/c20_replay-plain-*' % (c[0], c[3])})
        else:
            stats['c_translate_ok'] += 1
            if len(SAMPLES) < 6:
                SAMPLES.append({'call': 'libavoid twice / translated / 8 symmetries / permuted', 'input': inp, 'offset': [str(tx), str(ty)],
                                'cost_len_bends': [cost(r, pen) for r in base]})
        bc = [cost(r, pen) for r in base]
        for idx, name in [(4, 'shapes inserted in permuted order %s' % sperm)] + [(4 + s, 'symmetry %d of the square' % s) for s in range(1, 8)]:
            other = parse_A(o[idx])
            oc = [cost(r, pen) for r in other] if other else None
            if oc is None or any(abs(a[0] - b[0]) > 1e-9 * max(1.0, a[0]) for a, b in zip(bc, oc)):
                res.violation({'what': 'libavoid: route cost (length + segmentPenalty * bends) changes under: ' + name,
                               'input': inp, 'cost_len_bends': bc, 'cost_len_bends_transformed': oc,
                               'routes': [[[float(x), float(y)] for x, y in r] for r in base],
                               'routes_transformed': [[[float(x), float(y)] for x, y in r] for r in other] if other else None,
                               'replay': 'printf "%s\\n%s\\n" | build/bin/c20_replay-plain-*' % (c[0], c[idx])})
                break
            stats['c_cost_comparisons'] += 1
        if len(res.violations) > 6:
            break
    return dt


# ------------------------------------------------------------------------------------------ (c2) libavoid, non-default configurations
PARAMS = ['segmentPenalty', 'anglePenalty', 'crossingPenalty', 'clusterCrossingPenalty', 'fixedSharedPathPenalty', 'portDirectionPenalty',
          'shapeBufferDistance', 'idealNudgingDistance', 'reverseDirectionPenalty']
OPTIONS = ['nudgeOrthogonalSegmentsConnectedToShapes', 'improveHyperedgeRoutesMovingJunctions', 'penaliseOrthogonalSharedPathsAtConnEnds',
           'nudgeOrthogonalTouchingColinearSegments', 'performUnifyingNudgingPreprocessingStep',
           'improveHyperedgeRoutesMovingAddingAndDeletingJunctions', 'nudgeSharedPathsWithCommonEndPoint']
# 0 and one or two positive values per parameter (dyadic, so that every frame passes exactly the same numbers)
PARAM_VALUES = {'segmentPenalty': [0, 10, 37, 50.5], 'anglePenalty': [0, 0, 20, 5.5], 'crossingPenalty': [0, 0, 200, 30.25],
                'clusterCrossingPenalty': [0, 4000, 55], 'fixedSharedPathPenalty': [0, 0, 110, 9.125], 'portDirectionPenalty': [0, 100, 13.5],
                'shapeBufferDistance': [0, 0, 2, 0.75], 'idealNudgingDistance': [0, 0, 4, 1.5], 'reverseDirectionPenalty': [0, 230, 17.25]}
DIRV = {1: (0, -1), 2: (0, 1), 4: (-1, 0), 8: (1, 0)}          # ConnDirUp = towards smaller y (orthogonal.cpp:1649)


def map_dirs(dirs, f):
    out = 0
    for bit, v in DIRV.items():
        if dirs & bit:
            w = f(v[0], v[1])
            out |= next(b for b, u in DIRV.items() if u == (w[0], w[1]))
    return out


def sample_config(rng):
    mode = rng.below(2)
    par = [PARAM_VALUES[n][rng.below(len(PARAM_VALUES[n]))] for n in PARAMS]
    if rng.chance(1, 8):
        par = [0, 0, 0, 4000, 0, 0, 0, 4, 0]
        par[8] = rng.choice([230, 17.25, 64])                    # reverseDirectionPenalty alone
        par[0] = rng.choice([0, 10, 37])
    if mode == 1 and par[0] == 0:
        # documented + asserted precondition (router.h segmentPenalty @note; COLA_ASSERT makepath.cpp:796): orthogonal routing needs a
        # positive segmentPenalty; 0 stays in the polyline half of the distribution
        par[0] = rng.choice([10, 37, 50.5])
    opt = 0
    for i in range(7):
        if rng.chance(1, 2):
            opt |= 1 << i
    return mode, par, opt


FEATURE_OVERRIDE = None          # calibration only


def scene2(rng, buf):
    """separated integer rectangles (gap > 2 * shapeBufferDistance), free ends outside the buffered boxes, optionally direction flags on free
    ends and ends attached to the four side-centre pins of a shape"""
    gap = 3 + 2 * int(math.ceil(buf))
    m = 1 + int(math.ceil(buf))
    ns = rng.range(1, 5)
    shapes, tries = [], 0
    while len(shapes) < ns and tries < 200:
        tries += 1
        x, y, w, h = rng.range(0, 60), rng.range(0, 60), rng.range(4, 20), rng.range(4, 20)
        r = (x, y, x + w, y + h)
        if all(r[2] + gap <= s[0] or s[2] + gap <= r[0] or r[3] + gap <= s[1] or s[3] + gap <= r[1] for s in shapes):
            shapes.append(r)
    feat = FEATURE_OVERRIDE or rng.choice(['plain'] * 6 + ['pins', 'pins', 'dirs', 'both'])
    with_pins = feat in ('pins', 'both')
    with_dirs = feat in ('dirs', 'both')
    pins = [(1 + rng.below(24)) if with_pins and rng.chance(2, 3) else 0 for _ in shapes]

    def free_pt():
        while True:
            q = (rng.range(-10, 90), rng.range(-10, 90))
            if all(q[0] < s[0] - m or q[0] > s[2] + m or q[1] < s[1] - m or q[1] > s[3] + m for s in shapes):
                return q

    def end(avoid=None):
        cands = [i for i, k in enumerate(pins) if k and i != avoid]
        if cands and rng.chance(1, 2):
            return ('S', rng.choice(cands))
        q = free_pt()
        d = 15
        if with_dirs and rng.chance(1, 2):
            d = rng.choice([1, 2, 4, 8, 3, 12, 5, 10, 7, 14])
        return ('P', q[0], q[1], d)
    conns = []
    for _ in range(rng.range(1, 3)):
        a = end()
        b = end(a[1] if a[0] == 'S' else None)
        if a[0] == 'P' and b[0] == 'P' and a[1:3] == b[1:3]:
            continue
        conns.append((a, b))
    if not conns:
        conns = [(('P', -10, -10, 15), ('P', 90, 90, 15))]
    return shapes, pins, conns


def cmd_C(mode, par, opt, shapes, pins, conns, f=lambda x, y: (x, y), tx=F(0), ty=F(0), sperm=None, pinperm=None):
    def P(x, y):
        a, b = f(F(x), F(y))
        return '%s %s' % (fs(a + tx), fs(b + ty))

    def E(e):
        if e[0] == 'S':
            return 'S %d' % (sperm.index(e[1]) if sperm else e[1])
        return 'P %s %d' % (P(e[1], e[2]), map_dirs(e[3], f))
    order = sperm if sperm else list(range(len(shapes)))
    pk = pinperm if pinperm else pins
    return 'C %d %s %d %d %s %d %s 0' % (mode, ' '.join(fs(F(v)) for v in par), opt, len(shapes),
                                       ' '.join('%s %s %d' % (P(shapes[i][0], shapes[i][1]), P(shapes[i][2], shapes[i][3]), pk[i]) for i in order),
                                       len(conns), ' '.join('%s %s' % (E(a), E(b)) for a, b in conns))


def parse_C(line):
    """-> list of (raw route, display route) per connector, or ('X', what)"""
    if line.startswith('CX'):
        return ('X', line[3:].strip())
    f = line.split()[1:]
    out, i = [], 0
    while i < len(f):
        pair = []
        for tag in ('R', 'D'):
            assert f[i] == tag
            k = int(f[i + 1])
            pair.append([(L.hexq(f[i + 2 + 2 * j]), L.hexq(f[i + 3 + 2 * j])) for j in range(k)])
            i += 2 + 2 * k
        out.append(tuple(pair))
    return out


def route_cost(raw, mode, par, src_dst=None):
    """the cost the router's cost() (makepath.cpp) accumulates along the raw route (every visibility-graph vertex is on it):
    sum of edge lengths + per interior vertex the bend terms (segmentPenalty per bend, twice for a doubling back, the angle
    term for polylines) + reverseDirectionPenalty per edge heading away from the destination in x or y.
    Returns (cost, length, bends, reversing_edges)."""
    seg, ang, rev = float(par[0]), float(par[1]), float(par[8])
    pts = [(float(x), float(y)) for x, y in raw]
    ln, nb, nrev, c = 0.0, 0, 0, 0.0
    sx = (pts[-1][0] > pts[0][0]) - (pts[-1][0] < pts[0][0])
    sy = (pts[-1][1] > pts[0][1]) - (pts[-1][1] < pts[0][1])
    for i in range(1, len(pts)):
        a, b = pts[i - 1], pts[i]
        d = (abs(b[0] - a[0]) + abs(b[1] - a[1])) if mode == 1 else math.hypot(b[0] - a[0], b[1] - a[1])
        ln += d
        c += d
        if rev:
            ex = (b[0] > a[0]) - (b[0] < a[0])
            ey = (b[1] > a[1]) - (b[1] < a[1])
            if (sx != 0 and ex == -sx) or (sy != 0 and ey == -sy):
                nrev += 1
                c += rev
        if i >= 2 and (ang > 0 or seg > 0):
            p1, p2, p3 = pts[i - 2], a, b
            if p1 == p2 or p2 == p3:
                rad = 0.0
            else:
                v1 = (p1[0] - p2[0], p1[1] - p2[1])
                v2 = (p3[0] - p2[0], p3[1] - p2[1])
                rad = math.pi - abs(math.atan2(v1[0] * v2[1] - v1[1] * v2[0], v1[0] * v2[0] + v1[1] * v2[1]))
            if rad > 0 and mode == 0:
                xv = rad * 10 / math.pi
                c += ang * (xv * math.log10(xv + 1) / 10.5)
            if rad == math.pi:
                c += 2 * seg
                nb += 2
            elif rad > 0:
                c += seg
                nb += 1
        elif i >= 2:
            p1, p2, p3 = pts[i - 2], a, b
            if p1 != p2 and p2 != p3 and (p2[0] - p1[0]) * (p3[1] - p2[1]) != (p2[1] - p1[1]) * (p3[0] - p2[0]):
                nb += 1
    return c, ln, nb, nrev


def rotational_angle(x, y):
    """Avoid::rotationalAngle (geometry.cpp:613)"""
    if y == 0:
        return 180.0 if x < 0 else 0.0
    if x == 0:
        return 270.0 if y < 0 else 90.0
    a = math.atan(y / x) * 180 / math.pi
    if x < 0:
        a += 180
    elif y < 0:
        a += 360
    return a


def full_cost(raw, mode, par, conn, frame_shapes):
    """route_cost of the path the A* search really costs: an end attached to a shape's pin class is a dummy vertex at the shape's centre
    joined to each pin by an edge of length dist(centre, pin) + max(0.001, pin cost [+ portDirectionPenalty when the other end is outside
    the pin's 90-degree cone]) (connend.cpp:273-352); the dummy vertices are clipped from route() (connector.cpp generatePath)."""
    def centre(i):
        s = frame_shapes[i]
        return ((s[0] + s[2]) / 2, (s[1] + s[3]) / 2)
    ends = [centre(e[1]) if e[0] == 'S' else None for e in conn]
    path = ([ends[0]] if ends[0] else []) + list(raw) + ([ends[1]] if ends[1] else [])
    c, ln, nb, nrev = route_cost(path, mode, par)
    extra = 0.0
    for k in (0, 1):
        if ends[k] is None:
            continue
        pin = raw[0] if k == 0 else raw[-1]
        tgt = ends[1 - k] if ends[1 - k] else (raw[-1] if k == 0 else raw[0])
        cx, cy = ends[k]
        d = (float(pin[0] - cx), float(pin[1] - cy))             # outward direction of a side-centre pin
        ang = rotational_angle(float(tgt[0] - pin[0]), float(tgt[1] - pin[1]))
        inr = False
        if (ang <= 45 or ang >= 315) and d[0] > 0:
            inr = True
        if 45 <= ang <= 135 and d[1] > 0:
            inr = True
        if 135 <= ang <= 225 and d[0] < 0:
            inr = True
        if 225 <= ang <= 315 and d[1] < 0:
            inr = True
        extra += max(0.001, 0.0 if inr else float(par[5]))
    return c + extra, ln, nb, nrev


def seglens(route):
    """multiset of the segment lengths of the simplified polyline"""
    simp = []
    for q in route:
        if simp and q == simp[-1]:
            continue
        if len(simp) >= 2:
            a, b = simp[-2], simp[-1]
            if (b[0] - a[0]) * (q[1] - a[1]) == (q[0] - a[0]) * (b[1] - a[1]) and (b[0] - a[0]) * (q[0] - b[0]) + (b[1] - a[1]) * (q[1] - b[1]) >= 0:
                simp[-1] = q
                continue
        simp.append(q)
    return sorted(round(math.hypot(float(b[0] - a[0]), float(b[1] - a[1])), 9) for a, b in zip(simp, simp[1:]))


def cfg_json(mode, par, opt):
    return {'routing': 'orthogonal' if mode else 'polyline', 'parameters': {n: float(v) for n, v in zip(PARAMS, par)},
            'options': {n: bool((opt >> i) & 1) for i, n in enumerate(OPTIONS)}}


SYM_INV = [0, 1, 2, 3, 4, 6, 5, 7]


def restricted_points(shapes, pins, conns, skip):
    """connection points with restricted visibility in the identity frame: (x, y, ConnDirFlags)"""
    pts = []
    for k, (a, b) in enumerate(conns):
        for e in (a, b):
            if e[0] == 'P' and e[3] != 15 and k != skip:
                pts.append((F(e[1]), F(e[2]), e[3]))
    for s_, k in zip(shapes, pins):
        if k:
            cx, cy = F(s_[0] + s_[2], 2), F(s_[1] + s_[3], 2)
            pts += [(cx, F(s_[1]), 1), (cx, F(s_[3]), 2), (F(s_[0]), cy, 4), (F(s_[2]), cy, 8)]
    return pts


def classify_cost_mismatch(mode, par, shapes, pins, conns, j, ra, rb, ca, cb, axis_swap):
    """classifier predicates of the known findings, evaluated on the failing case (both routes in the identity frame; ca / cb =
    (cost, length, bends, reversing edges) in the two frames)"""
    same_geom = abs(ca[1] - cb[1]) <= 1e-9 * max(1.0, ca[1]) and ca[2:] == cb[2:]
    if par[5] > 0 and any(e[0] == 'S' for e in conns[j]) and same_geom and \
            any(abs(abs(ca[0] - cb[0]) - k * (par[5] - 0.001)) <= 1e-9 * max(1.0, ca[0]) for k in (1, 2)):
        # same length / bends / reversing edges, the costs differ by exactly the portDirectionPenalty of one (or both) pin ends
        return 'port_direction_penalty_suboptimal_pin'
    if mode == 0 and par[8] > 0:
        b = F(par[6])
        corners = [(F(x), F(y)) for q in shapes for x in (q[0] - b, q[2] + b) for y in (q[1] - b, q[3] + b)]
        for r in (ra, rb):
            for (x0, y0), (x1, y1) in zip(r, r[1:]):
                for (cx, cy) in corners:
                    if (cx, cy) not in ((x0, y0), (x1, y1)) and (x1 - x0) * (cy - y0) == (y1 - y0) * (cx - x0) and \
                            min(x0, x1) <= cx <= max(x0, x1) and min(y0, y1) <= cy <= max(y0, y1):
                        return 'reverse_penalty_per_visibility_edge'
            for (x0, y0), (x1, y1), (x2, y2) in zip(r, r[1:], r[2:]):
                if (x1 - x0) * (y2 - y1) == (y1 - y0) * (x2 - x1):
                    return 'reverse_penalty_per_visibility_edge'
    if mode != 1:
        return None
    if par[8] > 0:
        cheap = ra if ca[0] < cb[0] else rb
        sx = (cheap[-1][0] > cheap[0][0]) - (cheap[-1][0] < cheap[0][0])
        sy = (cheap[-1][1] > cheap[0][1]) - (cheap[-1][1] < cheap[0][1])
        ex = (cheap[1][0] > cheap[0][0]) - (cheap[1][0] < cheap[0][0])
        ey = (cheap[1][1] > cheap[0][1]) - (cheap[1][1] < cheap[0][1])
        if (sx != 0 and ex == -sx) or (sy != 0 and ey == -sy):
            # the cheaper of the two routes leaves its source heading away from the destination: the other frame's search did not find it
            return 'reverse_penalty_optimum_starts_reversing'

    def fallback(r):
        # the router's `path not found' fall-back: the bare segment source -> destination, not axis-parallel or through a shape's interior
        if len(r) != 2:
            return False
        (x0, y0), (x1, y1) = r
        if x0 != x1 and y0 != y1:
            return True
        return any(min(x0, x1) < q[2] and max(x0, x1) > q[0] and min(y0, y1) < q[3] and max(y0, y1) > q[1] for q in shapes)
    if any(pins) and fallback(ra) != fallback(rb):
        return 'orthogonal_no_path_with_boundary_pins'
    for r in (ra, rb):
        for (x0, y0), (x1, y1) in zip(r, r[1:]):
            for (px, py, d) in restricted_points(shapes, pins, conns, j):
                if min(x0, x1) <= px <= max(x0, x1) and min(y0, y1) <= py <= max(y0, y1):
                    horizontal = y0 == y1 and x0 != x1
                    vertical = x0 == x1 and y0 != y1
                    if (horizontal and not d & 12) or (vertical and not d & 3):
                        return 'route_through_restricted_connection_point'
    if any(e[0] == 'P' and e[3] != 15 for cn in conns for e in cn):
        # coarse: orthogonal routing, a free end with restricted ConnDirFlags somewhere in the scene, none of the specific predicates applies
        return 'orthogonal_direction_flags_frame_asymmetry'
    return None


FRAME_NAMES = ['identity', 'mirror x -> -x', 'mirror y -> -y', 'rotate 180', 'transpose (x<->y)', 'rotate 90 (x,y)->(-y,x)', 'rotate 270 (x,y)->(y,-x)',
               'anti-transpose (x,y)->(-y,-x)']


# directed scenes (quiet on the unchanged tree): source and destination in a mixed quadrant with reverseDirectionPenalty > 0, all four quadrants
FIXED_C2 = [{'mode': m, 'par': [37, 0, 0, 0, 0, 0, 0, 0, 230], 'opt': 82, 'shapes': [[279, 40, 352, 130]], 'pins': [0],
             'conns': [[['P', 441, 157, 15], ['P', 113, 418, 15]], [['P', 113, 157, 15], ['P', 441, 418, 15]]]} for m in (1, 0)]


def new_hist():
    return {'parameter': {}, 'option': {}, 'routing': {'orthogonal': 0, 'polyline': 0}, 'connectors': {}, 'features': collections.defaultdict(int), 'threw': {},
            'parameter_combinations_positive': {}}


def part_c2(res, rng, exe, n_inst, stats, hist):
    cmds, meta, deferred = [], [], []
    prev = None
    corpus = []
    cp = os.path.join(C.VERIF, 'corpus', 'c20_routing_config.json')
    if os.path.exists(cp):
        corpus = json.load(open(cp))['cases']
    corpus = corpus + FIXED_C2
    for k in range(n_inst + len(corpus)):
        mode, par, opt = sample_config(rng)
        shapes, pins, conns = scene2(rng, par[6])
        tx, ty = F(rng.range(-2 ** 15, 2 ** 15), 1024), F(rng.range(-2 ** 15, 2 ** 15), 1024)
        if k < len(corpus):
            d = corpus[k]
            mode, par, opt = d['mode'], [F(v) for v in d['par']], d['opt']
            shapes, pins = [tuple(q) for q in d['shapes']], list(d['pins'])
            conns = [(tuple(a), tuple(b)) for a, b in d['conns']]
            if 'offset' in d:
                tx, ty = F(d['offset'][0]), F(d['offset'][1])
        sperm = rng.shuffle(range(len(shapes)))
        pinperm = [(1 + rng.below(24)) if q else 0 for q in pins]
        base = cmd_C(mode, par, opt, shapes, pins, conns)
        # unrelated call of the SAME API with other arguments between two of the identical runs: the previous scene under another configuration
        other = prev if prev else 'C 0 10 0 0 4000 0 0 0 4 0 82 1 0 0 5 5 0 1 P -3 -3 15 P 9 9 15 0'
        block = [base, 'J %d %d' % (rng.range(10, 400), rng.next() % 10 ** 9), base, other, base,
                 cmd_C(mode, par, opt, shapes, pins, conns, tx=tx, ty=ty),
                 cmd_C(mode, par, opt, shapes, pins, conns, sperm=sperm, pinperm=pinperm)]
        block += [cmd_C(mode, par, opt, shapes, pins, conns, f=SYMS[s]) for s in range(1, 8)]
        cmds += block
        meta.append((shapes, pins, conns, mode, par, opt, tx, ty, sperm, len(block)))
        m2, p2, o2 = sample_config(rng)
        prev = cmd_C(m2, p2, o2, shapes, pins, conns)
    rc, out, err, dt = L.run_lines([exe], cmds, timeout=1500)
    if rc != 0 or len(out) != len(cmds):
        res.violation({'what': 'harness c20_replay crashed in the configured routing run', 'rc': rc, 'stderr': err[-1500:],
                       'command': cmds[len(out)] if len(out) < len(cmds) else None})
        return dt
    pos = 0
    rp = 'build/bin/c20_replay-exc-*'
    for (shapes, pins, conns, mode, par, opt, tx, ty, sperm, blen) in meta:
        o = out[pos:pos + blen]
        c = cmds[pos:pos + blen]
        pos += blen
        stats['c2_scenes'] += 1
        for n, v in zip(PARAMS, par):
            hist['parameter'].setdefault(n, {}).setdefault(repr(float(v)), 0)
            hist['parameter'][n][repr(float(v))] += 1
        for i, n in enumerate(OPTIONS):
            hist['option'].setdefault(n, {'on': 0, 'off': 0})['on' if (opt >> i) & 1 else 'off'] += 1
        hist['routing']['orthogonal' if mode else 'polyline'] += 1
        combo = ('orthogonal:' if mode else 'polyline:') + '+'.join(n for n, v in zip(PARAMS, par) if v) or '-'
        hist['parameter_combinations_positive'][combo] = hist['parameter_combinations_positive'].get(combo, 0) + 1
        hist['connectors'][str(len(conns))] = hist['connectors'].get(str(len(conns)), 0) + 1
        hist['features']['pins'] += any(pins)
        hist['features']['pin_ends'] += any(e[0] == 'S' for cn in conns for e in cn)
        hist['features']['direction_flags'] += any(e[0] == 'P' and e[3] != 15 for cn in conns for e in cn)
        hist['features']['reverse_penalty_mixed_quadrant'] += bool(par[8]) and any(
            a[0] == 'P' and b[0] == 'P' and (a[1] - b[1]) * (a[2] - b[2]) < 0 for a, b in conns)
        inp = dict(cfg_json(mode, par, opt))
        inp.update({'shapes_x0_y0_x1_y1': shapes, 'shape_pins_order_index (0 = none)': pins,
                    'connectors (P x y ConnDirFlags | S shape)': [[list(a), list(b)] for a, b in conns]})
        if o[0] != o[2] or o[0] != o[4]:
            w = 2 if o[0] != o[2] else 4
            res.violation({'what': 'libavoid: the same configured scene routed again in one process (%s in between) gives a different result'
                                   % ('unrelated allocation and library work' if w == 2 else 'a routing call with other arguments'),
                           'input': inp, 'first': o[0], 'again': o[w], 'replay': 'printf "%s\\n" | %s' % ('\\n'.join(c[:w + 1]), rp)})
            continue
        base = parse_C(o[0])
        if base[0] == 'X':
            stats['c2_threw'] += 1
            hist['threw'][base[1]] = hist['threw'].get(base[1], 0) + 1
            continue
        bc = [full_cost(r[0], mode, par, cn, shapes) for r, cn in zip(base, conns)]
        tr = parse_C(o[5])
        back = None if tr[0] == 'X' else [[[(x - tx, y - ty) for x, y in rt] for rt in r] for r in tr]
        raw_exact = back is not None and [r[0] for r in back] == [list(r[0]) for r in base]
        # displayRoute() of an orthogonal connector has been through the nudging solver (VPSC block positions are weighted means): 1e-9, as in (b)
        disp_ok = back is not None and all(len(a[1]) == len(b[1]) and all(abs(p[0] - q[0]) <= 1e-9 and abs(p[1] - q[1]) <= 1e-9 for p, q in zip(a[1], b[1]))
                                           for a, b in zip(back, base))
        fp = None
        if raw_exact and not disp_ok and mode == 1 and par[7] > 0 and all(
                len(a[1]) == len(b[1]) and all(abs(p[0] - q[0]) <= 2 * par[7] + 1e-9 and abs(p[1] - q[1]) <= 2 * par[7] + 1e-9 for p, q in zip(a[1], b[1]))
                for a, b in zip(back, base)):
            # classifier: route() translates exactly, the nudged displayRoute() has the same shape and every coordinate is within two nudging
            # distances: overlapping segments were nudged apart in the other order
            fp = 'nudging_order_not_translation_invariant'
            stats['c2_known_' + fp] += 1
        if not raw_exact and (par[2] > 0 or par[4] > 0) and len(conns) >= 2:
            # candidate for the crossing-stage finding (ties of the re-routing stage decided by rounding): re-run both frames with the two penalties at 0
            p0 = list(par)
            p0[2] = p0[4] = 0
            deferred.append(({'what': 'libavoid (configured): translating the scene by an exactly representable offset does not translate route() exactly',
                              'input': inp, 'offset': [str(tx), str(ty)], 'routes_raw_display': [[[[float(x), float(y)] for x, y in rt] for rt in r] for r in base],
                              'translated_minus_offset': tr[1] if tr[0] == 'X' else [[[[float(x), float(y)] for x, y in rt] for rt in r] for r in back],
                              'replay': 'printf "%s\\n%s\\n" | %s' % (c[0], c[5], rp)},
                             mode, p0, opt, shapes, pins, conns, ('T', tx, ty), SYMS[0],
                             cmd_C(mode, p0, opt, shapes, pins, conns), cmd_C(mode, p0, opt, shapes, pins, conns, tx=tx, ty=ty)))
        elif not raw_exact or not disp_ok:
            res.violation({'what': 'libavoid (configured): translating the scene by an exactly representable offset does not translate '
                                   + ('route() exactly' if not raw_exact else 'displayRoute() (1e-9)'),
                           'input': inp, 'offset': [str(tx), str(ty)], 'routes_raw_display': [[[[float(x), float(y)] for x, y in rt] for rt in r] for r in base],
                           'translated_minus_offset': tr[1] if tr[0] == 'X' else [[[[float(x), float(y)] for x, y in rt] for rt in r] for r in back],
                           'replay': 'printf "%s\\n%s\\n" | %s' % (c[0], c[5], rp)}, fingerprint=fp)
        else:
            stats['c2_translate_ok'] += 1
            stats['c2_translate_display_bit_exact'] += [r[1] for r in back] == [list(r[1]) for r in base]
        for idx, name in [(6, 'shapes (and pins) inserted in permuted order %s' % sperm)] + [(6 + s, FRAME_NAMES[s]) for s in range(1, 8)]:
            other = parse_C(o[idx])
            if other[0] == 'X':
                # an assertion site (file:line:expression) -> fingerprint without the line number, as C15 does
                t = other[1].split(':', 3)
                fp = 'assert:%s:%s' % (t[1], t[3]) if len(t) == 4 and t[0] == 'assert' else None
                stats['c2_throws_in_one_frame_only'] += 1
                res.violation({'what': 'libavoid (configured): the scene routes in the identity frame but the library throws in frame: ' + name,
                               'input': inp, 'thrown': other[1], 'replay': 'printf "%s\\n%s\\n" | %s' % (c[0], c[idx], rp)}, fingerprint=fp)
                break
            fsh = shapes
            if idx > 6:
                g = SYMS[idx - 6]
                fsh = [g(F(q[0]), F(q[1])) + g(F(q[2]), F(q[3])) for q in shapes]
            oc = [full_cost(r[0], mode, par, cn, fsh) for r, cn in zip(other, conns)]
            bad = [j for j, (a, b) in enumerate(zip(bc, oc)) if abs(a[0] - b[0]) > 1e-9 * max(1.0, a[0])]
            if bad:
                j = bad[0]
                ginv = SYMS[SYM_INV[idx - 6]] if idx > 6 else SYMS[0]
                rb = [ginv(x, y) for x, y in other[j][0]]              # frame-b route mapped back into the identity frame
                obj = {'what': 'libavoid (configured): route cost as the router defines it (length + segmentPenalty * bends + angle terms + '
                               'reverseDirectionPenalty * reversing edges + pin edges) differs between frame "identity" and frame "%s"' % name,
                       'input': inp, 'connector': j, 'frame_a': 'identity', 'frame_b': name,
                       'cost_length_bends_reversing_edges_a': bc[j], 'cost_length_bends_reversing_edges_b': oc[j],
                       'segment_lengths_a': seglens(base[j][0]), 'segment_lengths_b': seglens(other[j][0]),
                       'route_a': [[float(x), float(y)] for x, y in base[j][0]], 'route_b': [[float(x), float(y)] for x, y in other[j][0]],
                       'route_b_mapped_back': [[float(x), float(y)] for x, y in rb],
                       'replay': 'printf "%s\\n%s\\n" | %s' % (c[0], c[idx], rp)}
                fp = classify_cost_mismatch(mode, par, shapes, pins, conns, j, list(base[j][0]), rb, bc[j], oc[j], idx >= 10)
                if fp is None and (par[2] > 0 or par[4] > 0) and len(conns) >= 2:
                    # candidate for the crossing-stage finding: decided after the batch by re-running both frames with the two penalties at 0
                    p0 = list(par)
                    p0[2] = p0[4] = 0
                    g = SYMS[idx - 6] if idx > 6 else SYMS[0]
                    deferred.append((obj, mode, p0, opt, shapes, pins, conns, idx, g,
                                     cmd_C(mode, p0, opt, shapes, pins, conns),
                                     cmd_C(mode, p0, opt, shapes, pins, conns, f=g) if idx > 6 else
                                     cmd_C(mode, p0, opt, shapes, pins, conns, sperm=sperm, pinperm=None)))
                else:
                    stats['c2_known_' + fp if fp else 'c2_cost_violations'] += 1
                    res.violation(obj, fingerprint=fp)
                break
            stats['c2_cost_comparisons'] += len(bc)
            stats['c2_same_geometry'] += all(seglens(a[0]) == seglens(b[0]) for a, b in zip(base, other))
        if len(SAMPLES) < 8 and par[8] and mode:
            SAMPLES.append({'call': 'libavoid configured: thrice / translated / 8 symmetries / permuted', 'input': inp, 'cost_length_bends_reversing_edges': bc})
        if len(res.violations) > 6:
            break
    if deferred:
        rc, out2, err, dt2 = L.run_lines([exe], [x for d in deferred for x in d[9:11]], timeout=600)
        dt += dt2
        for k, (obj, mode, p0, opt, shapes, pins, conns, idx, g, ca, cb) in enumerate(deferred):
            fp = None
            if len(out2) == 2 * len(deferred):
                ra, rb_ = parse_C(out2[2 * k]), parse_C(out2[2 * k + 1])
                if ra[0] != 'X' and rb_[0] != 'X' and isinstance(idx, tuple):
                    obj['replay_zeroed'] = 'printf "%s\\n%s\\n" | %s' % (ca, cb, rp)
                    if [[(x - idx[1], y - idx[2]) for x, y in r[0]] for r in rb_] == [list(r[0]) for r in ra]:
                        fp = 'crossing_stage_frame_dependent'
                elif ra[0] != 'X' and rb_[0] != 'X':
                    fsh = [g(F(q[0]), F(q[1])) + g(F(q[2]), F(q[3])) for q in shapes]
                    ka = [full_cost(r[0], mode, p0, cn, shapes) for r, cn in zip(ra, conns)]
                    kb = [full_cost(r[0], mode, p0, cn, fsh) for r, cn in zip(rb_, conns)]
                    obj['costs_with_crossingPenalty_and_fixedSharedPathPenalty_zeroed'] = [ka, kb]
                    obj['replay_zeroed'] = 'printf "%s\\n%s\\n" | %s' % (ca, cb, rp)
                    bad0 = [q for q, (x, y) in enumerate(zip(ka, kb)) if abs(x[0] - y[0]) > 1e-9 * max(1.0, x[0])]
                    if not bad0:
                        fp = 'crossing_stage_frame_dependent'
                    else:
                        # the frames still disagree without the crossing stage: classify THAT mismatch (e.g. another connector runs through a
                        # restricted connection point and the crossing stage only propagated it)
                        q = bad0[0]
                        gi = SYMS[SYM_INV[idx - 6]] if idx > 6 else SYMS[0]
                        fp = classify_cost_mismatch(mode, p0, shapes, pins, conns, q, list(ra[q][0]), [gi(x, y) for x, y in rb_[q][0]], ka[q], kb[q], idx >= 10)
                        obj['mismatch_without_crossing_stage'] = {'connector': q, 'classified_as': fp}
            stats['c2_known_' + fp if fp else 'c2_cost_violations'] += 1
            res.violation(obj, fingerprint=fp)
    return dt


# ------------------------------------------------------------------------------------------ (c3) libavoid, DEFAULT configuration
EXTREME_PAR = [500, 100, 10000, 100000, 1000, 1000, 8, 16, 1000]
SIDE_PINS = [(0.5, 0, 1), (0.25, 0, 1), (0.75, 0, 1), (0.5, 1, 2), (0.25, 1, 2), (0.75, 1, 2), (0, 0.5, 4), (0, 0.25, 4), (0, 0.75, 4),
             (1, 0.5, 8), (1, 0.25, 8), (1, 0.75, 8)]           # (xOffset, yOffset, ConnDirFlags): y = 0 is the top side (ConnDirUp = smaller y)


def scene3(rng, mode=1):
    """scenes for the default-configuration runs: every routing parameter has something to act on - pin-class ends with 2..4 candidate pins of
    different directions AND connection costs (portDirectionPenalty decides between them), 2..3 connectors that cross / share paths
    (crossingPenalty, fixedSharedPathPenalty, nudging distance), routes round shape corners (shapeBufferDistance, segmentPenalty, anglePenalty),
    ends in mixed quadrants (reverseDirectionPenalty), a cluster round a shape (clusterCrossingPenalty)"""
    ns = rng.range(1, 5)
    shapes, tries = [], 0
    while len(shapes) < ns and tries < 200:
        tries += 1
        x, y, w, h = rng.range(0, 60), rng.range(0, 60), rng.range(4, 20), rng.range(4, 20)
        q = (x, y, x + w, y + h)
        if all(q[2] + 5 <= t[0] or t[2] + 5 <= q[0] or q[3] + 5 <= t[1] or t[3] + 5 <= q[1] for t in shapes):
            shapes.append(q)
    pins = []
    for i in range(len(shapes)):
        if rng.chance(2, 3) or i == 0:
            k = rng.range(2, 4)
            ps = rng.shuffle(SIDE_PINS)[:k]
            pins.append([(F(a), F(b), d, F(rng.choice([0, 0, 5, 12.5, 30, 1]))) for a, b, d in ps])
        else:
            pins.append([])

    def free_pt():
        while True:
            q = (rng.range(-10, 90), rng.range(-10, 90))
            if all(q[0] < t[0] - 1 or q[0] > t[2] + 1 or q[1] < t[1] - 1 or q[1] > t[3] + 1 for t in shapes):
                return q

    def end(avoid=None, want_pin=False):
        cands = [i for i, k in enumerate(pins) if k and i != avoid]
        if cands and (want_pin or rng.chance(1, 2)):
            return ('S', rng.choice(cands))
        q = free_pt()
        return ('P', q[0], q[1], 15 if rng.chance(3, 4) else rng.choice([1, 2, 4, 8, 3, 12, 5, 10]))
    conns = []
    for j in range(rng.range(1, 3)):
        a = end(want_pin=(j == 0))
        b = end(a[1] if a[0] == 'S' else None)
        if a[0] == 'P' and b[0] == 'P' and a[1:3] == b[1:3]:
            continue
        conns.append((a, b) if rng.chance(1, 2) else (b, a))
    clusters = []
    if mode == 1 and rng.chance(1, 3):     # (polyline cluster corners must be shape vertices: asserted precondition, makepath.cpp:385)
        t = shapes[rng.below(len(shapes))]
        clusters.append([(t[0] - 2, t[1] - 2), (t[2] + 2, t[1] - 2), (t[2] + 2, t[3] + 2), (t[0] - 2, t[3] + 2)])
    return shapes, pins, conns, clusters


def cmd_D(mode, shapes, pins, conns, clusters):
    def E(e):
        return 'S %d' % e[1] if e[0] == 'S' else 'P %s %s %d' % (fs(F(e[1])), fs(F(e[2])), e[3])
    return 'D %d %d %s %d %s %d %s' % (
        mode, len(shapes), ' '.join('%s %s %s %s %d %s' % (fs(F(q[0])), fs(F(q[1])), fs(F(q[2])), fs(F(q[3])), len(pp),
                                                          ' '.join('%s %s %d %s' % (fs(a), fs(b), d, fs(cst)) for a, b, d, cst in pp))
                                    for q, pp in zip(shapes, pins)),
        len(conns), ' '.join('%s %s' % (E(a), E(b)) for a, b in conns),
        len(clusters), ' '.join('%d %s' % (len(cl), ' '.join('%s %s' % (fs(F(x)), fs(F(y))) for x, y in cl)) for cl in clusters))


def strip_nz(line):
    f = line.split()
    return ' '.join(x for x in f if not x.startswith('nz='))


FIXED_C3 = [  # the shape of the seeded demo: right pin cost 5, bottom pin cost 0, free end below right
    (1, [(0, 0, 40, 40)], [[(F(1), F(1, 2), 8, F(5)), (F(1, 2), F(1), 2, F(0))]], [(('S', 0), ('P', 140, 100, 15))], []),
    (0, [(0, 0, 40, 40)], [[(F(1), F(1, 2), 8, F(5)), (F(1, 2), F(1), 2, F(0))]], [(('S', 0), ('P', 140, 100, 15))], [])]


FILLS = ['F 1', 'F 5', 'F 6 %d', 'F 2']


def fill_invariance(exe, cmds, seed, fills=None, timeout=900):
    """the same command stream in one FRESH process per fill mode of the harness' operator new (F 1: zero, F 5: the double 100.0, F 6: plausible
    pseudo-random doubles, F 2: 0xA5): the processes perform the identical sequence of allocations, so the relative order of heap addresses
    (pointer-valued tie-breaks) is the same in all of them and the ONLY difference is what every fresh heap block held before the library
    wrote to it.  Returns (list of output-line lists, seconds)."""
    outs, tt = [], 0.0
    for f in (fills or FILLS):
        rc, out, err, dt = L.run_lines([exe], [f % seed if '%d' in f else f] + list(cmds), timeout=timeout)
        outs.append([strip_nz(x) for x in out[1:]] if rc == 0 else None)
        tt += dt
    return outs, tt


def multi_pin_end(pins, conns, j):
    return any(e[0] == 'S' and len(pins[e[1]]) >= 2 for e in conns[j])


def part_c3(res, rng, exe, n_inst, stats):
    """libavoid with the DEFAULT configuration (the scene makes no setRoutingParameter / setRoutingOption call, so nothing hides a value the
    constructor left uninitialised), routed six times in one process: first; after an unrelated Router with EXTREME parameter values and every
    option switched on was configured, used and deleted; after malloc / fill / free of blocks of sizeof(Router) and nearby sizes; and with every
    block handed out by operator new pre-filled with plausible doubles / 100.0 / a byte pattern (deterministic stand-in for recycled heap memory).
    Bit-identical route() and displayRoute() required."""
    cp = os.path.join(C.VERIF, 'corpus', 'c20_pin_addr.txt')
    if os.path.exists(cp):
        # reproducer of the known finding pin_edge_addr_tiebreak (address-dependent: recorded as evidence, judged by the classifier below)
        block = [l for l in open(cp).read().split('\n') if l]
        rc, out, err, _ = L.run_lines([exe], block, timeout=120)
        ds = [strip_nz(x) for x, c_ in zip(out, block) if c_.startswith('D')]
        stats['c3_corpus_pin_addr_distinct_results'] = len(set(ds))
    cmds, meta = [], []
    for k in range(n_inst + len(FIXED_C3)):
        if k < len(FIXED_C3):
            mode, shapes, pins, conns, clusters = FIXED_C3[k]
        else:
            mode = rng.below(2)
            shapes, pins, conns, clusters = scene3(rng, mode)
        base = cmd_D(mode, shapes, pins, conns, clusters)
        osh, opins, oconns = scene2(rng, 8)
        extreme = cmd_C(rng.below(2), [F(v) for v in EXTREME_PAR], 127, osh, opins, oconns)
        block = [base, extreme, base, 'M %d %d' % (rng.choice([0, 1, 2, 3, 3, 4, 5]), 1 + rng.next() % 10 ** 9), base,
                 'F 6 %d' % (1 + rng.next() % 10 ** 9), base, 'F 5', base, 'F %d' % rng.choice([2, 3, 4]), base, 'F 0']
        meta.append((mode, shapes, pins, conns, clusters, len(cmds), len(block)))
        cmds += block
    rc, out, err, dt = L.run_lines([exe], cmds, timeout=1500)
    if rc != 0 or len(out) != len(cmds):
        res.violation({'what': 'harness c20_replay crashed in the default-configuration routing run', 'rc': rc, 'stderr': err[-1500:],
                       'command': cmds[len(out)] if len(out) < len(cmds) else None})
        return dt
    REP = (0, 2, 4, 6, 8, 10)
    HOW = ['', 'an unrelated Router configured with extreme parameter values (all options on) was used and deleted',
           'unrelated malloc / fill / free of blocks of sizeof(Router) and nearby sizes',
           'every fresh heap block pre-filled with plausible doubles (harness command F 6: stand-in for recycled heap memory)',
           'every fresh heap block pre-filled with the double 100.0 (harness command F 5)', 'every fresh heap block pre-filled with a byte pattern']
    rp = 'build/bin/c20_replay-exc-*'
    differing = []
    for (mode, shapes, pins, conns, clusters, pos, blen) in meta:
        o, c = out[pos:pos + blen], cmds[pos:pos + blen]
        stats['c3_scenes'] += 1
        stats['c3_orthogonal'] += mode
        stats['c3_pin_class_ends'] += sum(1 for cn in conns for e in cn if e[0] == 'S')
        stats['c3_pin_class_ends_with_distinct_costs'] += sum(1 for cn in conns for e in cn if e[0] == 'S' and len(set(q[3] for q in pins[e[1]])) > 1)
        stats['c3_with_cluster'] += bool(clusters)
        stats['c3_multi_connector'] += len(conns) >= 2
        runs = [strip_nz(o[i]) for i in REP]
        # priming verified at run time: how much of the Router's storage was non-zero before construction in the natural-heap runs
        for i in (2, 4):
            tok = [x for x in o[i].split() if x.startswith('nz=')]
            if tok and int(tok[0][3:].split('/')[0]) > 0:
                stats['c3_router_storage_recycled_nonzero'] += 1
        if runs[0].startswith('DX'):
            stats['c3_threw'] += 1
        w = next((i for i in range(1, len(runs)) if runs[i] != runs[0]), None)
        if w is None:
            stats['c3_identical'] += 1
            if len(SAMPLES) < 12 and stats['c3_scenes'] <= 3:
                SAMPLES.append({'call': 'libavoid default configuration six times (extreme Router / malloc fill / operator-new fill in between)',
                                'scene': cmd_D(mode, shapes, pins, conns, clusters), 'result': runs[0][:300]})
            continue
        stats['c3_differ_in_process'] += 1
        differing.append((mode, shapes, pins, conns, clusters, o, c, runs, w))

    def describe_D(mode, shapes, pins, conns, clusters):
        return {'routing': 'orthogonal' if mode else 'polyline', 'configuration': 'default (no setRoutingParameter / setRoutingOption call)',
                'shapes_x0_y0_x1_y1': shapes,
                'pins_per_shape (xOffset, yOffset, ConnDirFlags, cost), class 1': [[[float(a_), float(b_), d, float(cst)] for a_, b_, d, cst in pp] for pp in pins],
                'connectors (P x y ConnDirFlags | S shape)': [[list(x), list(y)] for x, y in conns], 'clusters': clusters}

    def routes_json(line):
        r = parse_C('C' + line[1:]) if not line.startswith('DX') else ('X', line)
        return r[1] if r[0] == 'X' else [[[[float(x), float(y)] for x, y in rt] for rt in pair] for pair in r]

    # (ii) every scene alone, in one fresh process per fill mode: identical allocation sequence, different prior contents of every heap block
    scenes = [cmd_D(m[0], m[1], m[2], m[3], m[4]) for m in meta]
    fseed = 1 + rng.next() % 10 ** 9
    fouts, dt2 = fill_invariance(exe, scenes, fseed)
    dt += dt2
    content_dependent = set()
    reported = 0
    if any(x is None or len(x) != len(scenes) for x in fouts):
        res.violation({'what': 'harness c20_replay crashed in the fill-invariance run of the default-configuration scenes',
                       'fills': [f for f, x in zip(FILLS, fouts) if x is None or len(x) != len(scenes)]})
    else:
        for k, sc in enumerate(scenes):
            stats['c3_fill_invariance_scenes'] += 1
            w = next((i for i in range(1, len(fouts)) if fouts[i][k] != fouts[0][k]), None)
            if w is None:
                continue
            content_dependent.add(sc)
            stats['c3_fill_dependent'] += 1
            if reported < 3:
                reported += 1
                fa, fb = FILLS[0], (FILLS[w] % fseed if '%d' in FILLS[w] else FILLS[w])
                res.violation({'what': 'libavoid, default configuration: the routes depend on what the heap blocks handed out by operator new held BEFORE the '
                                       'library wrote to them (two fresh processes, identical calls and identical allocation sequence; one with every fresh '
                                       'block zeroed, one with it pre-filled: %s) - an uninitialised value is read, so in one process the result depends on '
                                       'what was allocated and freed before' % fb,
                               'input': describe_D(*meta[k][:5]), 'routes_raw_display_zero_filled': routes_json(fouts[0][k]),
                               'routes_raw_display_pre_filled': routes_json(fouts[w][k]),
                               'replay': 'printf "%s\\n%s\\n" | %s ; printf "%s\\n%s\\n" | %s' % (fa, sc, rp, fb, sc, rp)})
    # (i) in-process differences: content-dependent ones are violations; the rest (identical under every fill in fresh processes) depend on the
    # heap ADDRESSES only - classifier of the known finding pin_edge_addr_tiebreak evaluated on the failing case
    for (mode, shapes, pins, conns, clusters, o, c, runs, w) in differing:
        sc = cmd_D(mode, shapes, pins, conns, clusters)
        a, b = routes_json(runs[0]), routes_json(runs[w])
        dj = [j for j in range(len(conns)) if isinstance(a, list) and isinstance(b, list) and j < len(a) and j < len(b) and a[j] != b[j]]
        fp = None
        if sc not in content_dependent and mode == 1 and dj and any(multi_pin_end(pins, conns, j) for j in dj) and \
                all(x is not None and len(x) == len(scenes) for x in fouts):
            fp = 'pin_edge_addr_tiebreak'
        stats['c3_known_' + fp if fp else 'c3_differ_unclassified'] += 1
        if fp is None and reported >= 4:
            continue
        reported += fp is None
        res.violation({'what': 'libavoid, default configuration (no setRoutingParameter / setRoutingOption call): the same scene routed again in one '
                               'process gives a different result after: ' + HOW[w],
                       'input': describe_D(mode, shapes, pins, conns, clusters), 'differing_connectors': dj,
                       'depends_on_prior_heap_contents (fresh-process fill experiment)': sc in content_dependent,
                       'routes_raw_display_first': a, 'routes_raw_display_again': b, 'first': o[0], 'again': o[REP[w]],
                       'replay': 'printf "%s\\n" | %s' % ('\\n'.join(c[:REP[w] + 1]), rp)}, fingerprint=fp)
    return dt


# ------------------------------------------------------------------------------------------ (a2) removeoverlaps, same API interleaved
def cmd_R2(inst, fixed, third, setb=0, xb=0, yb=0):
    s_ = inst.scale
    return 'R %d %d %s %s %d %s %d %s' % (1 if third else 0, setb, fs(F(xb, s_)), fs(F(yb, s_)), len(fixed), ' '.join(str(x) for x in fixed), inst.n(),
                                         ' '.join('%s %s %s %s' % tuple(fs(F(v, s_)) for v in r) for r in inst.rects))


def part_a2(res, rng, exe, n_inst, stats):
    """the same removeoverlaps call before and after UNRELATED calls of the same API with other arguments / flags (other rectangles, thirdPass
    false, fixed sets, Rectangle::setXBorder / setYBorder set by the caller and put back by the caller afterwards); nothing is reset in between,
    so whatever a call leaves behind in the library's statics shows in the repeated call.  Bit-for-bit equality, including the borders."""
    cmds, meta = [], []
    for k in range(n_inst):
        a = L.gen_instance(rng)
        third = rng.chance(3, 4)
        fixed = [rng.below(a.n())] if rng.chance(1, 4) else []
        setb = rng.chance(1, 3)
        xb, yb = (rng.range(0, 3), rng.range(0, 3)) if setb else (0, 0)
        base = cmd_R2(a, fixed, third, 1 if setb else 0, xb, yb)
        mid = []
        for _ in range(rng.range(1, 3)):
            b = L.gen_instance(rng)
            kind = rng.below(4)
            if kind == 0:
                mid.append(cmd_R2(b, [], False))                                        # thirdPass = false, borders untouched
            elif kind == 1:
                mid.append(cmd_R2(b, [rng.below(b.n())], rng.chance(1, 2)))
            elif kind == 2:
                mid.append(cmd_R2(b, [], rng.chance(1, 2), 1, rng.range(0, 4), rng.range(0, 4)))   # borders set and restored by the caller
            else:
                mid.append(cmd_R2(a, [], not third))                                      # the same rectangles with the other flag
        if rng.chance(1, 3):
            mid.append('J %d %d' % (rng.range(10, 200), rng.next() % 10 ** 9))
        block = [base] + mid + [base]
        meta.append((a, fixed, third, setb, xb, yb, len(cmds), len(block)))
        cmds += block
    rc, out, err, dt = L.run_lines([exe], cmds, timeout=900)
    if rc != 0 or len(out) != len(cmds):
        res.violation({'what': 'harness c20_replay crashed in the removeoverlaps interleaving run', 'rc': rc, 'stderr': err[-1500:],
                       'command': cmds[len(out)] if len(out) < len(cmds) else None})
        return dt
    reported = 0
    for (a, fixed, third, setb, xb, yb, pos, blen) in meta:
        stats['a2_pairs'] += 1
        stats['a2_interleaved_calls'] += blen - 2
        first, again = out[pos], out[pos + blen - 1]
        if first != again:
            stats['a2_differ'] += 1
            if reported < 3:
                reported += 1
                fa, fb = first.split(), again.split()
                res.violation({'what': 'removeoverlaps: the same call on equal input gives a different result after unrelated calls of the same API with other '
                                       'arguments / flags in between (one process, nothing else touched)',
                               'input': a.to_json(), 'fixed': fixed, 'thirdPass': third,
                               'borders_set_and_restored_by_caller': [xb, yb] if setb else None,
                               'calls_in_between': cmds[pos + 1:pos + blen - 1],
                               'Rectangle_xBorder_yBorder_after_first_and_after_repeated_call': [[float.fromhex(fa[2]), float.fromhex(fa[3])],
                                                                                                 [float.fromhex(fb[2]), float.fromhex(fb[3])]],
                               'first': first, 'again': again,
                               'replay': 'printf "%s\\n" | build/bin/c20_replay-exc-*' % '\\n'.join(cmds[pos:pos + blen])})
    return dt


# ------------------------------------------------------------------------------------------ (d) libcola layouts repeated in one process
LAYOUT_ALGOS = ['ConstrainedFDLayout.run()', 'ConstrainedFDLayout.makeFeasible()+run()', 'ConstrainedMajorizationLayout.run()']
# tolerances of part (d), measured on /repo HEAD (DESIGN 9.9): repetition is bit-identical (the property asks 1e-9)
D_REPEAT_TOL = 1e-9
D_MAJ_TOL = 1e-8               # measured <= 1.9e-11 over 2200 plain majorization layouts (translated / permuted)
D_FD_STRESS_TOL = 1e-2         # measured <= 8.9e-5 (translated, 5700 plain layouts) and <= 2.3e-4 (permuted, 3800)


def layout_graph(rng, n):
    kind = rng.choice(['cycle', 'path', 'star', 'tree', 'tree+', 'complete'])
    es = []
    if kind == 'cycle' and n >= 3:
        es = [(i, (i + 1) % n) for i in range(n)]
    elif kind == 'star':
        es = [(0, i) for i in range(1, n)]
    elif kind == 'complete' and n <= 5:
        es = [(i, j) for i in range(n) for j in range(i + 1, n)]
    elif kind in ('tree', 'tree+'):
        es = [(rng.below(i), i) for i in range(1, n)]
        if kind == 'tree+':
            for _ in range(rng.range(1, 3)):
                a, b = rng.below(n), rng.below(n)
                if a != b and (a, b) not in es and (b, a) not in es:
                    es.append((min(a, b), max(a, b)))
    else:
        es = [(i, i + 1) for i in range(n - 1)]
    return [(a, b) if rng.chance(1, 2) else (b, a) for a, b in es]


def layout_instance(rng, start=None, algo=None, cc=None):
    """small connected graph, 10x10 (or mixed) boxes, start positions: all coincident / groups of coincident nodes / nearly coincident
    (squared distance <= 1e-3, the threshold of computeForces) / distinct; compound constraints off or on"""
    n = rng.range(2, 8)
    es = layout_graph(rng, n)
    start = start or rng.choice(['all', 'groups', 'near', 'distinct', 'distinct'])
    cx, cy = F(rng.range(-40, 120)), F(rng.range(-40, 120))
    if start == 'all':
        pos = [(cx, cy)] * n
    elif start == 'groups':
        spots = [(cx + 30 * rng.range(-2, 2), cy + 30 * rng.range(-2, 2)) for _ in range(rng.range(1, 3))]
        pos = [rng.choice(spots) for _ in range(n)]
        pos[rng.below(n)] = pos[(rng.below(n))]
    elif start == 'near':
        pos = [(cx + F(rng.range(-1, 1), 64), cy + F(rng.range(-1, 1), 64)) for _ in range(n)]
    else:
        pos = []
        while len(pos) < n:
            q = (cx + F(rng.range(-400, 400), 4), cy + F(rng.range(-400, 400), 4))
            if all(abs(q[0] - r[0]) + abs(q[1] - r[1]) >= 8 for r in pos):
                pos.append(q)
    sizes = [(F(10), F(10))] * n if rng.chance(2, 3) else [(F(rng.range(4, 30)), F(rng.range(4, 30))) for _ in range(n)]
    ideal = F(rng.choice([25, 60, 60, 100, 37.5]))
    ccs = []
    if (rng.chance(1, 3) if cc is None else cc) and n >= 3:
        order = [rng.shuffle(range(n)), rng.shuffle(range(n))]
        for _ in range(rng.range(1, 3)):
            d = rng.below(2)
            if rng.chance(2, 3):
                a, b = rng.below(n), rng.below(n)
                if a == b:
                    continue
                if order[d].index(a) > order[d].index(b):
                    a, b = b, a
                ccs.append(('S', d, a, b, F(rng.choice([0, 15, 30, 42.5])), 1 if rng.chance(1, 5) else 0))
            elif not any(c[0] == 'A' and c[1] == d for c in ccs):
                ids = rng.shuffle(range(n))[:rng.range(2, 3)]
                ccs.append(('A', d, [(i, F(rng.choice([0, 0, 5, -7.5]))) for i in ids], (cx, cy)[d] if rng.chance(1, 2) else F(0)))
    algo = rng.choice([0, 0, 0, 1, 2]) if algo is None else algo
    flags = 1 if rng.chance(1, 5) else 0
    return {'algo': algo, 'flags': flags, 'pos': pos, 'sizes': sizes, 'edges': es, 'ideal': ideal, 'ccs': ccs, 'start': start}


def cmd_L(I, tx=F(0), ty=F(0), perm=None, eorder=None):
    n = len(I['pos'])
    perm = perm or list(range(n))                 # new index of node i is perm[i]
    inv = [0] * n
    for i, q in enumerate(perm):
        inv[q] = i
    es = [I['edges'][k] for k in (eorder or range(len(I['edges'])))]
    ccs = []
    for c in I['ccs']:
        if c[0] == 'S':
            ccs.append('S %d %d %d %s %d' % (c[1], perm[c[2]], perm[c[3]], fs(c[4]), c[5]))
        else:
            # the constraint's own `position' (the weakly weighted desired place of the alignment line) is an absolute coordinate: it moves with the frame
            ccs.append('A %d %s %d %s' % (c[1], fs(c[3] + (tx, ty)[c[1]]), len(c[2]), ' '.join('%d %s' % (perm[i], fs(o)) for i, o in c[2])))
    return 'L %d %d %d %s %d %s %s %d %s' % (
        I['algo'], I['flags'], n, ' '.join('%s %s %s %s' % (fs(I['pos'][inv[j]][0] + tx), fs(I['pos'][inv[j]][1] + ty), fs(I['sizes'][inv[j]][0]),
                                                          fs(I['sizes'][inv[j]][1])) for j in range(n)),
        len(es), ' '.join('%d %d' % (perm[a], perm[b]) for a, b in es), fs(I['ideal']), len(ccs), ' '.join(ccs))


def parse_L(line):
    if line.startswith('LX'):
        return ('X', line[3:].strip())
    a, b = line[2:].split('|')
    v = [float.fromhex(x) for x in a.split()]
    return [(v[i], v[i + 1]) for i in range(0, len(v), 2)], float.fromhex(b.strip())


def has_coincident(I):
    p = I['pos']
    return any(float((p[i][0] - p[j][0]) ** 2 + (p[i][1] - p[j][1]) ** 2) <= 1e-3 for i in range(len(p)) for j in range(i))


def layout_json(I):
    return {'algorithm': LAYOUT_ALGOS[I['algo']], 'avoid_overlaps': bool(I['flags'] & 1), 'start_family': I['start'],
            'centres': [[float(x), float(y)] for x, y in I['pos']], 'sizes': [[float(w), float(h)] for w, h in I['sizes']],
            'edges': I['edges'], 'idealLength': float(I['ideal']),
            'compound_constraints': [list(c[:2]) + ([float(c[3]), [[i, float(o)] for i, o in c[2]]] if c[0] == 'A' else [c[2], c[3], float(c[4]), c[5]]) for c in I['ccs']]}


def maxdev(a, b, tx=0.0, ty=0.0):
    return max([max(abs(q[0] - tx - p[0]), abs(q[1] - ty - p[1])) for p, q in zip(a, b)] or [0.0])


def part_d(res, rng, exe, n_inst, stats):
    """cola::ConstrainedFDLayout / ConstrainedMajorizationLayout: the same layout (fresh objects, equal inputs) three times in one process, with
    unrelated allocation AND unrelated layouts of other graphs in between - crucially graphs that have coincident nodes themselves (they draw from
    whatever pseudo-random source separates coincident nodes) and a layout with extreme settings (object of the same type, configured differently);
    then in a translated frame and with permuted node / edge order."""
    cmds, meta = [], []
    fixed = [{'algo': 0, 'flags': 0, 'pos': [(F(100), F(100))] * 5, 'sizes': [(F(10), F(10))] * 5, 'edges': [(i, (i + 1) % 5) for i in range(5)],
              'ideal': F(60), 'ccs': [], 'start': 'all'}]
    for k in range(n_inst + len(fixed)):
        I = fixed[k] if k < len(fixed) else layout_instance(rng)
        other = layout_instance(rng, start=rng.choice(['all', 'groups', 'near']), algo=rng.choice([0, 0, 1]))
        extreme = layout_instance(rng, start='all', algo=rng.choice([0, 2]), cc=True)
        extreme['ideal'] = F(rng.choice([4096, 1, 0.125]))
        extreme['flags'] = 1
        n = len(I['pos'])
        tx, ty = F(rng.range(-2 ** 15, 2 ** 15), 1024), F(rng.range(-2 ** 15, 2 ** 15), 1024)
        perm = rng.shuffle(range(n))
        eorder = rng.shuffle(range(len(I['edges'])))
        base = cmd_L(I)
        block = [base, 'J %d %d' % (rng.range(10, 400), rng.next() % 10 ** 9), cmd_L(other), base, cmd_L(extreme), base,
                 'F 6 %d' % (1 + rng.next() % 10 ** 9), base, 'F %d' % rng.choice([2, 3, 4, 5]), base, 'F 0',
                 cmd_L(I, tx=tx, ty=ty), cmd_L(I, perm=perm, eorder=eorder)]
        meta.append((I, other, extreme, tx, ty, perm, eorder, len(cmds), len(block)))
        cmds += block
    rc, out, err, dt = L.run_lines([exe], cmds, timeout=1500)
    if rc != 0 or len(out) != len(cmds):
        res.violation({'what': 'harness c20_layout crashed / timed out in the layout replay run', 'rc': rc, 'stderr': err[-1500:],
                       'command': cmds[len(out)] if len(out) < len(cmds) else None})
        return dt
    rp = 'build/bin/c20_layout-exc-*'
    reported = 0
    for (I, other, extreme, tx, ty, perm, eorder, pos, blen) in meta:
        o, c = out[pos:pos + blen], cmds[pos:pos + blen]
        stats['d_layouts'] += 1
        co = has_coincident(I)
        stats['d_coincident_start'] += co
        stats['d_algo_%d' % I['algo']] += 1
        stats['d_with_compound_constraints'] += bool(I['ccs'])
        REP = (0, 3, 5, 7, 9)
        r = [parse_L(o[i]) for i in REP]
        if r[0][0] == 'X':
            stats['d_threw'] += 1
            if any(o[i] != o[0] for i in REP):
                res.violation({'what': 'libcola layout: the call throws in one repetition and not (or differently) in another', 'input': layout_json(I),
                               'outputs': [o[i] for i in REP], 'replay': 'printf "%s\\n" | %s' % ('\\n'.join(c[:11]), rp)})
            continue
        devs = [float('inf') if x[0] == 'X' else maxdev(r[0][0], x[0]) for x in r[1:]]
        stats['d_repeat_bit_identical'] += all(o[i] == o[0] for i in REP)
        if not (max(devs) <= D_REPEAT_TOL):                  # (written so that a NaN deviation fails)
            w = next(i for i, d in enumerate(devs) if not d <= D_REPEAT_TOL) + 1
            stats['d_repeat_differs'] += 1
            if reported < 3:
                reported += 1
                res.violation({'what': 'libcola layout: the same layout (fresh objects, equal inputs) repeated in one process gives different positions '
                                       '(> 1e-9) after %s' % ['unrelated allocation and an unrelated layout of another graph with coincident nodes',
                                                              'an unrelated layout with extreme settings',
                                                              'every fresh heap block pre-filled with plausible doubles (harness command F 6: stand-in for recycled heap memory)',
                                                              'every fresh heap block pre-filled with a byte pattern (harness command %s)' % c[8]][w - 1],
                               'input': layout_json(I), 'coincident_start_positions': co,
                               'layout_in_between': layout_json(other if w == 1 else extreme) if w <= 2 else None,
                               'positions_first': r[0][0], 'positions_again': r[w][0] if r[w][0] != 'X' else r[w][1], 'max_abs_difference': devs[w - 1],
                               'replay': 'printf "%s\\n" | %s' % ('\\n'.join(c[:REP[w] + 1]), rp)})
            continue
        if len(SAMPLES) < 10 and co:
            SAMPLES.append({'call': 'libcola layout thrice with other layouts in between / translated / permuted', 'input': layout_json(I),
                            'positions': r[0][0], 'stress': r[0][1]})
        # translated frame / permuted node and edge order.  Judged where HEAD is measurably stable (calibration, DESIGN 9.9): no coincident start
        # positions, no compound constraints, no overlap avoidance ("plain"): majorization positions to D_MAJ_TOL, force-directed descent by the
        # stress of the result (relative D_FD_STRESS_TOL; the descent stops on a relative stress change of 1e-4, so end positions of two frames
        # can differ by up to 0.27 while their stress agrees to 9e-5).  Every other class is measured and recorded only.
        plain = not co and not I['ccs'] and not I['flags']
        cls = ('coincident' if co else 'plain' if plain else 'constrained') + ('_majorization' if I['algo'] == 2 else '_fd')
        for idx, name in ((11, 'translate'), (12, 'permute')):
            t = parse_L(o[idx])
            if t[0] == 'X':
                stats['d_%s_threw' % name] += 1
                continue
            got = [(x - float(tx), y - float(ty)) for x, y in t[0]] if idx == 11 else [t[0][perm[i]] for i in range(len(perm))]
            dv = maxdev(r[0][0], got)
            rel = abs(t[1] - r[0][1]) / max(1e-12, abs(r[0][1]))
            stats['d_%s_exact' % name] += dv == 0.0
            for key, v in (('d_%s_max_position_deviation_%s' % (name, cls), dv), ('d_%s_max_relative_stress_difference_%s' % (name, cls), rel)):
                if I['algo'] != 2 or 'stress' not in key:
                    stats[key] = max(stats.get(key, 0.0), v) if v == v else float('nan')
            if not plain:
                continue
            stats['d_%s_judged' % name] += 1
            bad = (not dv <= D_MAJ_TOL) if I['algo'] == 2 else (not rel <= D_FD_STRESS_TOL)
            if bad and reported < 3:
                reported += 1
                how = ('translating every start position by the exactly representable offset (%s, %s)' % (tx, ty)) if idx == 11 else \
                    ('renumbering the nodes (new index of node i = %s[i]) and reordering the edge list' % perm)
                res.violation({'what': 'libcola layout: %s changes the result beyond the tolerance measured on the unchanged tree (%s)'
                                       % (how, 'majorization: positions 1e-8' if I['algo'] == 2 else 'force-directed: stress of the result, relative 1e-2'),
                               'input': layout_json(I), 'positions': r[0][0], 'positions_other_frame_mapped_back': got, 'max_position_deviation': dv,
                               'stress': r[0][1], 'stress_other_frame': t[1], 'replay': 'printf "%s\\n%s\\n" | %s' % (c[0], c[idx], rp)})
    # every layout alone, one fresh process per heap fill mode (identical allocation sequence, different prior contents of every block)
    singles = [cmds[m[7]] for m in meta]
    fseed = 1 + rng.next() % 10 ** 9
    fouts, dt2 = fill_invariance(exe, singles, fseed, timeout=1500)
    dt += dt2
    if any(x is None or len(x) != len(singles) for x in fouts):
        res.violation({'what': 'harness c20_layout crashed in the fill-invariance run'})
    else:
        for k, sc in enumerate(singles):
            stats['d_fill_invariance_layouts'] += 1
            w = next((i for i in range(1, len(fouts)) if fouts[i][k] != fouts[0][k]), None)
            if w is not None:
                stats['d_fill_dependent'] += 1
                if reported < 5:
                    reported += 1
                    fb = FILLS[w] % fseed if '%d' in FILLS[w] else FILLS[w]
                    res.violation({'what': 'libcola layout: the result depends on what the heap blocks handed out by operator new held before the library wrote to '
                                           'them (fresh processes, identical calls and allocation sequence, every fresh block zeroed against pre-filled: %s)' % fb,
                                   'input': layout_json(meta[k][0]), 'zero_filled': fouts[0][k], 'pre_filled': fouts[w][k],
                                   'replay': 'printf "%s\\n%s\\n" | %s ; printf "%s\\n%s\\n" | %s' % (FILLS[0], sc, rp, fb, sc, rp)})
    return dt


# ------------------------------------------------------------------------------------------ (e) IncSolver / removeoverlaps: same type in between, heap fill
def part_e(res, rng, exe, n_inst, stats):
    """every other object type the replay harness constructs: vpsc::IncSolver (with its Variables / Constraints) and the Rectangle sets of
    removeoverlaps - the same call repeated in one process after an object of the SAME type with extreme settings (weights 1e-6 .. 1e6, gaps
    1e4, many equalities; rectangles with huge borders set and restored) was built, used and destroyed, and with every fresh heap block
    pre-filled (F); then each call alone in one fresh process per fill mode.  Bit-identical results required."""
    cmds, meta, singles = [], [], []
    for k in range(n_inst):
        if k % 3 < 2:
            des, ws, cs, cyc = vpsc_instance(rng)
            base = cmd_V(des, ws, cs)
            n2 = rng.range(3, 9)
            xdes = [F(rng.range(-20, 20) * 10 ** rng.choice([0, 3, 5])) for _ in range(n2)]
            xws = [F(rng.choice([1, 10 ** 6, F(1, 2 ** 20), 4096])) for _ in range(n2)]
            xcs = [(i, i + 1, F(rng.choice([0, 1, 10 ** 4, 12345.5])), 1 if rng.chance(1, 2) else 0) for i in range(n2 - 1)]
            extreme = cmd_V(xdes, xws, xcs)
            inp = {'call': 'vpsc::IncSolver(vs, cs).solve()', 'desired': [str(d) for d in des], 'weights': [str(w) for w in ws],
                   'constraints_l_r_gap_eq': [[l, r, str(g), e] for l, r, g, e in cs]}
        else:
            a, b = L.gen_instance(rng), L.gen_instance(rng)
            base = cmd_R2(a, [rng.below(a.n())] if rng.chance(1, 4) else [], rng.chance(3, 4))
            extreme = cmd_R2(b, [], True, 1, 1000 * b.scale, 4096 * b.scale)
            inp = {'call': 'vpsc::removeoverlaps', 'input': a.to_json()}
        block = [base, extreme, base, 'F 6 %d' % (1 + rng.next() % 10 ** 9), base, 'F %d' % rng.choice([2, 3, 4, 5]), base, 'F 0']
        meta.append((inp, len(cmds), len(block)))
        singles.append(base)
        cmds += block
    rc, out, err, dt = L.run_lines([exe], cmds, timeout=900)
    if rc != 0 or len(out) != len(cmds):
        res.violation({'what': 'harness c20_replay crashed in the IncSolver / removeoverlaps fill run', 'rc': rc, 'stderr': err[-1500:],
                       'command': cmds[len(out)] if len(out) < len(cmds) else None})
        return dt
    rp = 'build/bin/c20_replay-exc-*'
    HOW = ['', 'an object of the same type with extreme settings was built, used and destroyed', 'every fresh heap block pre-filled with plausible doubles (F 6)',
           'every fresh heap block pre-filled with a byte pattern']
    reported = 0
    for inp, pos, blen in meta:
        o, c = out[pos:pos + blen], cmds[pos:pos + blen]
        stats['e_calls'] += 1
        runs = [o[i] for i in (0, 2, 4, 6)]
        w = next((i for i in range(1, 4) if runs[i] != runs[0]), None)
        if w is None:
            stats['e_identical'] += 1
        elif reported < 3:
            reported += 1
            res.violation({'what': '%s: the same call on equal input repeated in one process gives a different result after: %s' % (inp['call'], HOW[w]),
                           'input': inp, 'first': runs[0], 'again': runs[w], 'replay': 'printf "%s\\n" | %s' % ('\\n'.join(c[:2 * w + 1]), rp)})
    fseed = 1 + rng.next() % 10 ** 9
    fouts, dt2 = fill_invariance(exe, singles, fseed)
    if any(x is None or len(x) != len(singles) for x in fouts):
        res.violation({'what': 'harness c20_replay crashed in the fill-invariance run of the IncSolver / removeoverlaps calls'})
    else:
        for k, sc in enumerate(singles):
            stats['e_fill_invariance_calls'] += 1
            w = next((i for i in range(1, len(fouts)) if fouts[i][k] != fouts[0][k]), None)
            if w is not None and reported < 6:
                reported += 1
                fb = FILLS[w] % fseed if '%d' in FILLS[w] else FILLS[w]
                res.violation({'what': '%s: the result depends on what the heap blocks handed out by operator new held before the library wrote to them '
                                       '(fresh processes, identical calls and allocation sequence, every fresh block zeroed against pre-filled: %s)' % (meta[k][0]['call'], fb),
                               'input': meta[k][0], 'zero_filled': fouts[0][k], 'pre_filled': fouts[w][k],
                               'replay': 'printf "%s\\n%s\\n" | %s ; printf "%s\\n%s\\n" | %s' % (FILLS[0], sc, rp, fb, sc, rp)})
    return dt + dt2


def part_p(res, rng, exe, drv, n, stats):
    """PseudoRandom: compiled cola::PseudoRandom against the extracted LCG model, exactly (float(model value) == implementation value)"""
    cmds = ['P %d %d' % (s, 40) for s in [0, 1, 2, 3, 2 ** 31 - 1, 2 ** 31, 2 ** 32 - 1] + [rng.below(2 ** 32) for _ in range(n)]]
    rc, a, err, _ = L.run_lines([exe], cmds)
    rc2, b, err2, _ = L.run_lines([drv, exe], cmds)
    bad = []
    for c, x, y in zip(cmds, a, b):
        va = [float.fromhex(v) for v in x.split()[1:]]
        vb = [float(L.modq(v)) for v in y.split()[1:]]
        stats['p_streams'] += 1
        if va != vb:
            bad.append({'what': 'PseudoRandom model differs from the implementation', 'command': c, 'implementation': va[:6], 'model': vb[:6]})
    if len(a) != len(cmds) or len(b) != len(cmds):
        bad.append({'what': 'PseudoRandom run incomplete', 'stderr': (err + err2)[-800:]})
    return bad


def run(tier):
    res = C.Result(PID, tier, 'proof')
    info = C.prove(res, PID, gen_modules=['Geometry'])
    res.assumptions = ['glibc malloc: the tcache priming used to perturb the address order of the scan-line nodes is verified at run time (prime_ok)',
                       'frame independence is claimed for scale-1 VPSC problems and integer/dyadic routing scenes with separated rectangles']
    thorough = tier == 'thorough'
    rng = C.SplitMix64(C.get_seed() ^ 0xC20)
    exe_r, drv = L.build('exc')
    exe = C.build_harness('c20_replay', ['libvpsc', 'libavoid'], 'plain', extra_srcs=[os.path.join(C.COLA, 'libcola', 'pseudorandom.cpp')])
    stats = {k: 0 for k in ('a_groups', 'a_runs', 'a_differ', 'a_prime_not_verified', 'b_instances', 'b_threw', 'b_unsat', 'b_translate_ok',
                            'b_translate_bit_exact', 'b_unsat_translate_differs', 'b_permute_ok', 'c_scenes', 'c_orthogonal', 'c_threw',
                            'c_translate_ok', 'c_cost_comparisons', 'p_streams', 'a_translated', 'a_dupid_groups', 'a_dupid_differ', 'b_permute_differs', 'b_cert_runs', 'b_cert_missing', 'b_cert_real_deviates',
                            'b_permute_certified_pairs', 'b_translate_certified_pairs', 'b_cert_time_s')}
    ta = part_a(res, rng.fork(), exe_r, drv, 1500 if thorough else 400, stats)
    tb = part_b(res, rng.fork(), exe, 6000 if thorough else 1500, stats)
    tc = part_c(res, rng.fork(), exe, 1200 if thorough else 250, stats)
    bs_stats = collections.defaultdict(int)
    tbs = part_bs(res, C.SplitMix64(C.get_seed() ^ 0xC20B5), exe, 2500 if thorough else 350, 150 if thorough else 40, bs_stats)
    stats.update(bs_stats)
    exe_x = C.build_harness('c20_replay', ['libvpsc', 'libavoid'], 'exc', extra_srcs=[os.path.join(C.COLA, 'libcola', 'pseudorandom.cpp')])
    hist = new_hist()
    c2stats = collections.defaultdict(int)
    tc2 = part_c2(res, rng.fork(), exe_x, 4000 if thorough else 900, c2stats, hist)
    ta2 = part_a2(res, rng.fork(), exe_x, 1200 if thorough else 300, c2stats)
    tc3 = part_c3(res, rng.fork(), exe_x, 3000 if thorough else 600, c2stats)
    te = part_e(res, rng.fork(), exe_x, 4500 if thorough else 900, c2stats)
    exe_l = C.build_harness('c20_layout', ['libvpsc', 'libcola'], 'exc')
    td = part_d(res, rng.fork(), exe_l, 1500 if thorough else 400, c2stats)
    stats.update(c2stats)
    corr_fail = part_p(res, rng.fork(), exe, drv, 400 if thorough else 60, stats)
    hist['features'] = dict(hist['features'])
    top = sorted(hist['parameter_combinations_positive'].items(), key=lambda kv: -kv[1])
    hist['parameter_combinations_positive'] = {'distinct': len(top), 'most_frequent': dict(top[:25])}
    nruns = stats['a_runs'] + 5 * stats['b_instances'] + stats['bs_runs'] + 12 * stats['c_scenes'] + 14 * stats['c2_scenes'] + 2 * stats['a2_pairs'] + stats['a2_interleaved_calls'] \
        + 10 * stats['c3_scenes'] + 8 * stats['e_calls'] + 11 * stats['d_layouts']
    res.cov.update({'evaluations': nruns,
                    'distinct_nontrivial': stats['a_groups'] + stats['b_translate_ok'] + stats['c_cost_comparisons'] + stats['c2_cost_comparisons'] + stats['a2_pairs']
                    + stats['c3_scenes'] + stats['e_calls'] + stats['d_layouts'],
                    'rule': 'non-trivial = groups of identical scan-line / removeoverlaps calls on rectangle sets with equal centres run under 5 allocator '
                            'primings + VPSC instances whose translated run was compared + route-cost comparisons under symmetries / permutations '
                            '(default and sampled non-default routing configurations) + removeoverlaps calls repeated after unrelated calls of the same API '
                            '+ default-configuration routing scenes / IncSolver and removeoverlaps calls / libcola layouts repeated after a same-type object with '
                            'extreme settings and under the heap fill modes',
                    'exhaustive': False, 'counts': stats, 'samples': SAMPLES[:8],
                    'routing_configuration_histogram': hist,
                    'traces_validated_against_impl': nruns,
                    'timings_s': {'scanline_replay': round(ta, 2), 'incsolver_replay': round(tb, 2), 'static_solver_replay': round(tbs, 2), 'routing_replay': round(tc, 2),
                                  'routing_replay_configured': round(tc2, 2), 'removeoverlaps_interleaved': round(ta2, 2),
                                  'routing_default_configuration': round(tc3, 2), 'incsolver_removeoverlaps_fill': round(te, 2), 'libcola_layout_replay': round(td, 2)}})
    res.cov['correspondence_disagreements'] = corr_fail[:3]
    if not res.violations and (not info['ok'] or corr_fail):
        res.violation({'what': 'proof obligation no longer checks (or cpp2v could not translate a predicate); the replay search found no failing input',
                       'broken_files': info.get('broken'), 'broken_lemmas': info.get('broken_lemmas'), 'unsupported': info.get('unsupported'),
                       'forbidden': info.get('forbidden'), 'correspondence': corr_fail[:3], 'coq_log_tail': info['log'][-3000:]}, no_input=True)
    return res.finish()


def replay(path):
    print(open(path).read())
    return 0


def warm():
    L.build('exc')
    C.build_harness('c20_replay', ['libvpsc', 'libavoid'], 'plain', extra_srcs=[os.path.join(C.COLA, 'libcola', 'pseudorandom.cpp')])
    C.build_harness('c20_replay', ['libvpsc', 'libavoid'], 'exc', extra_srcs=[os.path.join(C.COLA, 'libcola', 'pseudorandom.cpp')])
    C.build_harness('c20_layout', ['libvpsc', 'libcola'], 'exc')


META = {
    'property_id': PID,
    'level_claimed': {
        'category': 'proof',
        'text': 'Coq theorems that make the hidden inputs explicit. Scan line of libvpsc (hand-written model of rectangle.cpp:110-389, compared '
                'exactly with the compiled generators on every run): with the original CmpNodePos (centre, address) the generated constraints are '
                'independent of the address oracle iff no two centres are equal (scanline_addr_independent; scanline_addr_refuted is the defect F-d, '
                'replayed on the real code by allocator priming); with the repaired CmpNodePos (centre, Variable::id, address) and pairwise distinct '
                'ids they are independent of it outright (scanline_deterministic); translating all rectangles changes nothing (scanline_translate). '
                'libavoid predicates vecDir / segmentIntersect as regenerated by cpp2v: invariant under translation and under the 8 symmetries of '
                'the square with the orientation sign tracked. PseudoRandom: explicit LCG recurrence. VPSC: vpsc_permute (Vpsc/VpscSymmetry.v, from KKT '
                'uniqueness, every n, m, weights > 0, any scales: certified optima of a problem and of any renumbering of its variables / reordering of '
                'its constraints agree up to the renumbering; executable form C20_vpsc_permute_checked for the extracted certificate checker kkt_ok, which '
                'part (b) evaluates on every base / translated / permuted real run); vpsc_translate declaratively (scale-1: optimum, multipliers and '
                'feasibility translate) and over the executable IncSolver model (Vpsc/VpscTranslate.v, C20_vpsc_translate_model: solve() on the translated '
                'instance ends the same way and in a state with identical blocks, active set, flags, multipliers and every position translated by t; also '
                'for satisfy() and whole op histories). PARTIAL: that IncSolver::solve always reaches a certified optimum is decided per run by the '
                'certificate (as in C02), not proved; route-cost invariance of the router is covered by replay runs only, and so is the reproducibility of '
                'libavoid under its default configuration and of the libcola layouts (parts c3, d, e: replay runs under heap perturbation, no model).',
        'design_ref': 'DESIGN.md 5.20'},
    'level_note': 'Trusted: Coq kernel; cpp2v.py + clang JSON AST for Gen/Geometry.v; the hand-written models Rect/ScanlineModel.v, Rect/RectBase.v, '
                  'Cola/PseudoRandomModel.v (validated by exact correspondence on every run, not derived from the source); extraction (ExtrOcamlBasic) and '
                  'the OCaml/C++ drivers (the optimum-proposing helper of extract/c01_driver.ml is unverified; every proposal passes the proved kkt_ok); the '
                  'hand-written IncSolver model Vpsc/VpscModel.v (tied by the C01 correspondence); glibc malloc behaviour used for the priming (verified at '
                  'run time). IncSolver replay: same problem twice (bit-identical), translated (1e-9; bit-exact is not claimed because block positions are '
                  'weighted means), permuted - each real result is compared with the kkt_ok-certified optimum of its own instance (1e-5 * scale) and the '
                  'certified optima are compared exactly with each other, so agreement of the permuted / translated runs is a consequence of '
                  'C20_vpsc_permute_checked / C20_vpsc_translate_checked plus the per-run certificates. The STATIC vpsc::Solver gets the same replays (part b2, '
                  'harness command S, DAG inputs = its domain, scale 1): solve() and satisfy() twice in one process (bit-identical), translated (1e-9), and solve() '
                  'under renumbered variables / reordered constraints - random DAGs with the reversed constraint order and 3 random renumberings, small DAGs (3-5 '
                  'variables) under EVERY variable permutation x constraint order forward / reversed, corpus/c20_static_permute.json first; all orderings must return '
                  'the same positions (1e-9 * scale; the optimum is unique, vpsc_permute covers any solver whose result passes the certificate) and the base run is '
                  'decided by kkt_ok, which names the wrong run. satisfy() alone promises feasibility, not a unique point, so under renumbering it is judged on '
                  'feasibility only; its translation replay is validation without a theorem (C20_vpsc_translate_model is about the IncSolver model). '
                  'Replay-only (validation, not proof): libavoid routes twice, '
                  'translated exactly, cost under the 8 symmetries and under permuted insertion order, on separated integer rectangles, with the default '
                  'penalties and (part c2) under sampled non-default configurations: all nine RoutingParameters at 0 / one or two positive dyadic values, all '
                  'seven RoutingOptions on/off (histogram in the evidence); there the compared cost is recomputed from the raw route() as cost() in makepath.cpp '
                  'defines it (edge lengths, segmentPenalty per bend and twice per doubling back, the anglePenalty term, reverseDirectionPenalty per reversing '
                  'visibility edge, the dummy pin edges with portDirectionPenalty); the crossing / shared-path / cluster terms of the re-routing stage are not '
                  'recomputed: a mismatch under crossingPenalty / fixedSharedPathPenalty with >= 2 connectors is re-run with the two penalties at 0 and only '
                  'then classified as the known finding crossing_stage_frame_dependent. Orthogonal routing with segmentPenalty 0 is outside the domain '
                  '(asserted precondition, makepath.cpp:796); clusters are not generated (clusterCrossingPenalty is sampled but inert); the nudged displayRoute() '
                  'is compared for repetition and translation (1e-9) only, not under the symmetries. Eight frame dependences of the unchanged tree found by '
                  'the calibration are registered as known findings with reproducers in corpus/c20_routing_config.json (run first on every run). '
                  'removeoverlaps is additionally repeated after unrelated calls of the same API (thirdPass false, borders set / restored by the caller) '
                  'without any reset in between (part a2). Residual of F-d, '
                  'exhibited on every run and registered as known finding scanline_addr_tiebreak_dup_ids: CmpNodePos still falls back to the address when two Variables share an id (legal input; callers in /repo use distinct ids). Dependence on '
                  'uninitialised memory can only be observed, not proved absent: it is observed by (c3, d, e) - the harnesses replace the global operator new so '
                  'that every block the library allocates can be pre-filled (zero, 0xA5, 0xFF, pseudo-random bytes, the double 100.0, pseudo-random plausible doubles): '
                  'a call is repeated in one process under different fills, after an object of the SAME type configured with extreme settings was used and '
                  'destroyed (Router with every RoutingParameter large and every option on, IncSolver with weights 1e-6..1e6, removeoverlaps with huge borders, '
                  'a layout with idealLength 4096 / overlap avoidance on coincident nodes) and after malloc / fill / free of blocks of sizeof(Router) +- 64, and '
                  'every call is also run alone in one fresh process per fill mode (identical allocation sequence, hence identical address order: the only '
                  'difference is what fresh heap blocks held before). libavoid scenes of (c3) use the DEFAULT configuration (no setRoutingParameter / '
                  'setRoutingOption call; the configured runs of c2 set all nine parameters and would hide an uninitialised default), pin classes with 2-4 '
                  'candidate pins of different directions and costs, 1-3 connectors, a cluster round a shape (orthogonal only: polyline cluster corners must '
                  'be shape vertices, asserted). An in-process difference whose scene is fill-invariant in fresh processes depends on heap ADDRESSES only: '
                  'known finding pin_edge_addr_tiebreak (CmpVisEdgeRotation orders dummy pin edges by address), classifier: orthogonal + a differing connector '
                  'has an end on a pin class with >= 2 pins + fill-invariant. libcola layouts (d): repetition (fresh objects, equal inputs, other layouts WITH '
                  'coincident nodes in between, which consume whatever generator separates coincident nodes) is judged at 1e-9 and measured bit-identical on '
                  'HEAD; translated start (AlignmentConstraint positions translated with the frame) and permuted node / edge order are judged only where HEAD '
                  'is measurably stable - no coincident start positions, no compound constraints, no overlap avoidance: majorization positions to 1e-8 '
                  '(measured <= 1.9e-11 over 2200 layouts), force-directed descent by the stress of the result, relative 1e-2 (measured <= 8.9e-5 translated / '
                  '2.3e-4 permuted over 9500 layouts; end positions themselves differ by up to 0.27 translated, 25 permuted (mirror-image minima), because the '
                  'descent stops on a relative stress change of 1e-4); with compound constraints or overlap avoidance HEAD itself jumps between active sets '
                  '(position deviations up to 478, stress up to 4% translated and 100% permuted - infeasible alignment/separation mixes are resolved in list '
                  'order), those classes are measured and recorded in the evidence only.',
    'technique': 'Coq proof over hand-written + cpp2v-generated Gallina, correspondence, and in-process replay runs with allocator priming',
}
