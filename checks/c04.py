"""C04 - libavoid polyline: routes are true Euclidean shortest paths (DESIGN 5.4).
proof: Properties/C04.v (certifying Dijkstra: a returned route is a real path of exactly the reported cost and no path of
the graph is cheaper; reference router over the exact visibility graph; the floor-sqrt lengths obey the triangle inequality
up to 1e-12 per segment, so the straight-line heuristic is admissible; inValidRegion (cpp2v) = its spec decider).
tie: T for inValidRegion + exhaustive grid comparison of the compiled validateBendPoint with spec_validateBendPoint +
C: on generic-position scenes the cost of the implementation's displayRoute equals the extracted model optimum to 1e-6:
segment penalty 0 against the unrestricted visibility graph, penalties 1 and 10 against the taut class.
A second stream ("shared") routes several connectors whose endpoints coincide exactly and then moves / adds / resizes shapes in later
transactions (history generator of checks/c06.py): after every processTransaction every route must still cost the model optimum of
the scene of that moment (Lee's rotational sweep keeps the swept vertices in a std::set ordered by angle, distance and VertID).
Large penalties (100, 400, 1000; scenes at scales 1, 4 and 12, so that bend count dominates or trades off against length) are compared against the
taut class as well, and a directed family "corner reachable both ways round its obstacle" (avoid_lib.gen_corner_scene) keeps exactly the scenes on which
the extracted (previous vertex, vertex) search and the extracted vertex-only search (Avoid/RefRouterVertexOnlyModel.v, taut_select) have different optima:
there the cheapest arrival at a corner is not the one the optimal route uses, so ANode's previous-vertex component carries information (seeded change C04-4:
PENDING lookup by vertex alone).  corpus/c04_pending_lookup.json (the seeded demonstration scene + selected scenes) is run first.
Router options (seeded change C04-6, DESIGN 9.16; checks/avoid_opts.py): the public Router members InvisibilityGrph and UseLeesAlgorithm in all four combinations
(harness script line "F <name> <0|1>") on one-shot generic scenes and on histories - directed family "unblock" (the obstacle blocking a connector's own src-dst
line is deleted / moved away / shrunk, blocked again, freed again, with bystander obstacles offering a detour) and move-heavy generic histories - cost = proved-optimal
model cost after every processTransaction.  RubberBandRouting only on a first routing (by its own comments it keeps non-optimal routes over a history)."""
import os, json, hashlib, math
from vlib import common as C
from checks import avoid_lib as A
from checks import c06 as H          # history generator / sequential semantics shared with C06
from checks import avoid_opts as AO   # public Router flags (InvisibilityGrph, UseLeesAlgorithm, RubberBandRouting) + family "unblock"

PID = 'C04'
TOL = 1e-6

# (name, segmentPenalty, buffer, rect_only)
CONFIGS = [('pen0', 0, 0, False), ('pen1', 1, 0, False), ('pen10', 10, 0, False), ('pen0-buf2-rect', 0, 2, True), ('pen10-buf3-rect', 10, 3, True)]
# large penalties (name, segmentPenalty): the generic scenes multiplied by a random scale of LARGE_SCALES - at scale 1 (arena 40) the bend count alone
# decides, at scale 12 (arena 480) length and bends trade off
LARGE_CONFIGS = [('pen100', 100), ('pen400', 400), ('pen1000', 1000)]
LARGE_SCALES = [1, 1, 4, 12]
# directed family "corner reachable both ways round its obstacle": penalties offered to the selector
CORNER_PENS = [30, 100, 400, 1000]


def vbp_grid(res, drv, G, stats):
    exe = A.build_harness_retry('c04_vbp', ['libavoid'], 'exc')
    rc, out, err, dt = C.sh([exe, str(G)], timeout=600)
    cpp = ''.join(out.split())
    spec = A.run_driver(drv, ['VBPGRID %d' % G])[0]
    stats['vbp_tuples'] = len(cpp)
    stats['vbp_in_domain'] = len(cpp) - cpp.count('.')
    if rc != 0 or len(cpp) != len(spec):
        res.violation({'what': 'validateBendPoint grid harness failed', 'rc': rc, 'stderr': err[-1500:], 'cpp_len': len(cpp), 'spec_len': len(spec)},
                      no_input=True)
        return False
    if cpp != spec:
        i = next(k for k in range(len(cpp)) if cpp[k] != spec[k])
        n = G * G
        idx = [(i // n ** (4 - k)) % n for k in range(5)]
        pts = [[j // G, j % G] for j in idx]
        stats['vbp_first_diff'] = {'a': pts[0], 'b': pts[1], 'c': pts[2], 'd(shPrev of b)': pts[3], 'e(shNext of b)': pts[4],
                                   'compiled validateBendPoint': cpp[i], 'spec_validateBendPoint': spec[i]}
        return False
    return True


def run_cases(res, exe, drv, cases, stats, samples, mism):
    lines = []
    for c in cases:
        lines += c['script']
    runs, rc, err = A.run_harness(exe, lines)
    if rc != 0 or len(runs) != len(cases):
        res.violation({'what': 'harness crashed', 'rc': rc, 'stderr': err[-1500:]}, no_input=True)
        return
    q, meta = [], []
    for c, run in zip(cases, runs):
        if run['exc'] is not None or len(run['dumps']) != 1:
            res.violation({'what': 'assertion / exception inside libavoid while routing a valid scene', 'exception': run['exc'],
                           'script': c['script'], 'config': c['cfg']})
            continue
        d = run['dumps'][0]
        ids = sorted(d['shapes'].keys())
        # the model routes around the routing polygons (shape grown by the buffer; exact for rectangles)
        rpolys = [[(int(x), int(y)) for x, y in d['bshapes'][i]] for i in ids] if c['buf'] else c['polys']
        for i, (s, t) in enumerate(c['conns']):
            route = d['disp'].get(100 + i, [])
            q.append(A.q_chk(c['polys'], s, t, route))
            q.append(A.q_plain(rpolys, s, t) if c['pen'] == 0 else A.q_taut(c['pen'], rpolys, s, t))
            meta.append((c, s, t, route, rpolys))
    ans = A.run_driver_parallel(drv, q)
    for k, (c, s, t, route, rpolys) in enumerate(meta):
        chk, mod = ans[2 * k], A.parse_route_answer(ans[2 * k + 1])
        stats['routes'] += 1
        stats['by_config'][c['cfg']] = stats['by_config'].get(c['cfg'], 0) + 1
        base = {'config': c['cfg'], 'segmentPenalty': c['pen'], 'shapeBufferDistance': c['buf'], 'shapes': c['polys'], 'src': s, 'dst': t,
                'displayRoute': route, 'script': c['script'], 'router_flags': AO.opts_json(c.get('opts')),
                'replay': './check C04 --replay <this file>'}
        if mod == 'fail':
            res.violation(dict(base, what='the reference search failed its own certificate (model outcome SearchFail, excluded by the theorems)'),
                          no_input=True)
            continue
        off = A.parse_chk(chk)
        if off:
            # an invalid route is C03's business; here it only means the cost comparison is meaningless
            if off != [(-1, -1, 0)] and all(o[2] == 1 for o in off):
                stats['skipped_invalid_known'] += 1
            else:
                stats['skipped_invalid_other'] += 1
                res.violation(dict(base, what='displayRoute is not a valid obstacle-avoiding route (route_ok fails), so it is not a shortest path',
                                   offenders=off))
            continue
        if mod is None:
            stats['no_path'] += 1
            continue
        cost, bends = A.poly_cost(route, c['pen'])
        mcost = mod[0] / A.PICO
        stats['bends_hist'][bends] = stats['bends_hist'].get(bends, 0) + 1
        if bends > 0:
            stats['nontrivial'].add(hashlib.sha256(repr((c['cfg'], c['polys'], s, t)).encode()).hexdigest())
        if 'sel' in c:
            # selected scene: taut_select's (previous vertex, vertex) search must be route_taut's search (same functions over shared tables)
            if c['sel'][0] != mod[0]:
                res.violation(dict(base, what='selector inconsistent: taut_select reports a different optimum than route_taut on the same scene',
                                   taut_select_pico=c['sel'][0], route_taut_pico=mod[0]), no_input=True)
                continue
            base['vertex_only_search_cost'] = None if c['sel'][1] is None else c['sel'][1] / A.PICO
            base['family'] = ('the optimum needs an arrival at a corner that is NOT the cheapest arrival at that corner: the extracted search with one label per '
                              'vertex (route_taut_vertex_only) gives %s, the (previous vertex, vertex) search gives %.6f' %
                              ('no route' if c['sel'][1] is None else '%.6f' % (c['sel'][1] / A.PICO), mcost))
            if c['sel'][1] is not None and abs(cost - c['sel'][1] / A.PICO) <= TOL and abs(cost - mcost) > TOL:
                stats['corner_impl_equals_vertex_only'] = stats.get('corner_impl_equals_vertex_only', 0) + 1
                base['diagnosis'] = ('the implementation returned exactly the optimum of the vertex-only search: its A* lost the dearer arrival at a corner '
                                     '(ANode is keyed by (vertex, previous vertex); look at the PENDING / DONE lookups in AStarPathPrivate::search)')
        if len(samples) < 4 and bends >= 2 and c['cfg'] not in [x['config'] for x in samples]:
            samples.append(dict(config=c['cfg'], shapes=c['polys'], src=s, dst=t, displayRoute=route, implementation_cost=cost,
                                model_optimum=mcost, model_route=[[float(x), float(y)] for x, y in mod[1]]))
        if abs(cost - mcost) > TOL:
            stats['mismatch'] += 1
            mism.append(dict(base, what='cost of the implementation route differs from the model optimum by more than 1e-6 (%s)' %
                             ('implementation route is LONGER than the optimum' if cost > mcost else
                              'implementation route is cheaper than the optimum of the admissible class'),
                             implementation_cost=cost, bends=bends, model_optimum=mcost,
                             model_route=[[float(x), float(y)] for x, y in mod[1]]))


# "shared" stream: (name, segmentPenalty, transactions)
SHARED_CONFIGS = [('shared-pen0-trans', 0, 1), ('shared-pen0-notrans', 0, 0), ('shared-pen10-trans', 10, 1)]


def run_histories(res, exe, drv, hists, stats, mism):
    """hists: dict(cfg, pen, trans, ops).  After every processTransaction of the history (one router) the cost of every displayRoute is
    compared with the extracted model optimum of the scene of that moment."""
    lines = []
    for h in hists:
        lines += H.hist_script(h['ops'], 0, h['pen'], h['trans'], h.get('opts'))
    runs, rc, err = A.run_harness(exe, lines)
    if rc != 0 or len(runs) != len(hists):
        res.violation({'what': 'harness crashed on the shared-endpoint / router-option histories', 'rc': rc, 'stderr': err[-1500:]}, no_input=True)
        return
    q, meta = [], []
    for h, run in zip(hists, runs):
        snaps = H.simulate(h['ops'], h['trans'], generic=False, family=h.get('family', 'shared')) or []
        script = H.hist_script(h['ops'], 0, h['pen'], h['trans'], h.get('opts'))
        if run['exc'] is not None or len(run['dumps']) != len(snaps):
            res.violation({'what': 'assertion / exception inside libavoid on a legal history (%s)' %
                                   ('router-option stream' if 'opts' in h else 'shared-endpoint stream'), 'exception': run['exc'],
                           'script': script, 'config': h['cfg'], 'router_flags': AO.opts_json(h.get('opts'))})
            continue
        stats['option_histories' if 'opts' in h else 'shared_histories'] += 1
        ppos = [i for i, o in enumerate(h['ops']) if o[0] == 'P']
        for k, (shapes, conns) in enumerate(snaps):
            d = run['dumps'][k]
            polys = [shapes[i] for i in sorted(shapes)]
            pts = [e for c in conns.values() for e in c]
            for c in sorted(conns):
                s, t = conns[c]
                route = d['disp'].get(c, [])
                q.append(A.q_chk(polys, s, t, route))
                q.append(A.q_plain(polys, s, t) if h['pen'] == 0 else A.q_taut(h['pen'], polys, s, t))
                # classifier input of the known finding selective_reroute_not_flagged (see checks/c06.py): the route and the connector's ends are
                # those of the previous dump and the selective-reroute test as coded flags none of the shapes that left their place in between
                silent = False
                if k >= 1 and len(route) >= 2 and snaps[k - 1][1].get(c) == (s, t) and \
                        d.get('disp_raw', {}).get(c) == run['dumps'][k - 1].get('disp_raw', {}).get(c):
                    # True: every shape that left its place is passed over by the test; None: no shape left its place (the route can only
                    # still be stale from the step before); False: the test as coded flags the connector
                    silent = A.reroute_test_silent(h['ops'][ppos[k - 1] + 1:ppos[k]], h['trans'], snaps[k - 1][0], route)
                meta.append((h, k, ppos[k], c, s, t, polys, route, pts.count(s) > 1 or pts.count(t) > 1, silent))
    ans = A.run_driver(drv, q)
    stale_known = {}
    for n, (h, k, upto, c, s, t, polys, route, coincident, silent) in enumerate(meta):
        if silent is None:
            silent = stale_known.get((id(h), c)) == k - 1        # unchanged route, nothing moved: stale iff it was stale (and classified) one step earlier
        chk, mod = ans[2 * n], A.parse_route_answer(ans[2 * n + 1])
        stats['routes'] += 1
        stats['option_routes' if 'opts' in h else 'shared_routes'] += 1
        if 'opts' in h and k > 0 and AO.direct_line_free({i: P for i, P in enumerate(polys)}, s, t):
            stats['option_routes_with_free_direct_line_after_a_later_transaction'] += 1
        stats['by_config'][h['cfg']] = stats['by_config'].get(h['cfg'], 0) + 1
        if coincident:
            stats['shared_routes_with_coincident_endpoint'] += 1
            if k > 0:
                stats['shared_routes_with_coincident_endpoint_after_later_transaction'] += 1
        base = {'config': h['cfg'], 'segmentPenalty': h['pen'], 'shapeBufferDistance': 0, 'transactions': h['trans'],
                'history': [H.op_str(o) for o in h['ops'][:upto + 1]], 'step': k, 'connector': c, 'shapes': polys, 'src': s, 'dst': t,
                'displayRoute': route, 'script': H.hist_script(h['ops'][:upto + 1], 0, h['pen'], h['trans'], h.get('opts')),
                'router_flags': AO.opts_json(h.get('opts')),
                'replay': './check C04 --replay <this file>  (runs "script" on one router and compares every connector of the last dump)'}
        if mod == 'fail':
            res.violation(dict(base, what='the reference search failed its own certificate (model outcome SearchFail, excluded by the theorems)'),
                          no_input=True)
            continue
        off = A.parse_chk(chk)
        if off:
            if off != [(-1, -1, 0)] and all(o[2] == 1 for o in off):
                stats['skipped_invalid_known'] += 1
            else:
                stats['skipped_invalid_other'] += 1
                mism.append(dict(base, what='displayRoute after a later transaction is not a valid obstacle-avoiding route (route_ok fails on the current '
                                             'scene), so it is not a shortest path', offenders=off))
            continue
        if mod is None:
            stats['no_path'] += 1
            continue
        cost, bends = A.poly_cost(route, h['pen'])
        mcost = mod[0] / A.PICO
        if bends > 0:
            stats['nontrivial'].add(hashlib.sha256(repr((h['cfg'], polys, s, t)).encode()).hexdigest())
        if cost > mcost + TOL and silent:
            stale_known[(id(h), c)] = k
            stats['known_reroute_silent'] = stats.get('known_reroute_silent', 0) + 1
            res.violation(dict(base, what='stale route: the connector kept its previous (valid) route although the current scene allows a cheaper one, and the '
                                          'selective-reroute test as coded flags none of the shapes that left their place in this transaction',
                               implementation_cost=cost, model_optimum=mcost, euclidean_length_kept=A.polyline_length(route),
                               euclidean_length_of_model_route=A.polyline_length([(float(x), float(y)) for x, y in mod[1]])),
                          fingerprint='selective_reroute_not_flagged')
            continue
        if abs(cost - mcost) > TOL:
            stats['mismatch'] += 1
            mism.append(dict(base, what='cost of the implementation route after transaction %d differs from the model optimum of the current scene by '
                                        'more than 1e-6 (%s)' % (k, 'implementation route is LONGER than the optimum' if cost > mcost else
                                                                 'implementation route is cheaper than the optimum of the admissible class'),
                             implementation_cost=cost, bends=bends, model_optimum=mcost, model_route=[[float(x), float(y)] for x, y in mod[1]]))


def corpus_cases(drv):
    p = os.path.join(C.VERIF, 'corpus', 'c04_pending_lookup.json')
    out = []
    if os.path.exists(p):
        for k, e in enumerate(json.load(open(p))['scenes']):
            polys = [[tuple(q) for q in P] for P in e['shapes']]
            conns = [(tuple(e['src']), tuple(e['dst']))]
            out.append({'cfg': 'corpus:c04_pending_lookup#%d' % k, 'pen': e['segmentPenalty'], 'buf': 0, 'polys': polys, 'conns': conns,
                        'script': A.scene_script(polys, conns, 0, e['segmentPenalty'], 0, 0, 1)})
        # the selector's two optima, for the diagnosis text of a failing entry
        pos = [c for c in out if c['pen'] > 0]
        for c, a in zip(pos, A.run_driver(drv, [A.q_sel([c['pen']], c['polys'], c['conns'][0][0], c['conns'][0][1]) for c in pos])):
            cp, cv = A.parse_sel(a)[0]
            if cp is not None and cp != cv:
                c['sel'] = (cp, cv)
    return out


def corner_cases(rng, drv, ncand, cases, stats):
    """directed family "corner reachable both ways round its obstacle": ncand scenes built by avoid_lib.gen_corner_scene; one case per (scene, penalty)
    for which the extracted taut_select reports different optima for the (previous vertex, vertex) search and the vertex-only search"""
    scenes = []
    tries = 0
    while len(scenes) < ncand and tries < 40 * ncand:
        tries += 1
        sc = A.gen_corner_scene(rng)
        if sc is not None:
            scenes.append(sc)
    ans = A.run_driver_parallel(drv, [A.q_sel(CORNER_PENS, polys, conns[0][0], conns[0][1]) for polys, conns in scenes])
    fam = stats.setdefault('corner_family', {'candidates_built': 0, 'scenes_selected': 0, 'cases_by_penalty': {}, 'selected_by_vertices_of_T': {},
                                              'vertex_only_search_finds_no_route': 0})
    fam['candidates_built'] += len(scenes)
    for (polys, conns), a in zip(scenes, ans):
        hit = False
        for pen, (cp, cv) in zip(CORNER_PENS, A.parse_sel(a)):
            if cp is not None and cp != cv:
                hit = True
                fam['cases_by_penalty'][str(pen)] = fam['cases_by_penalty'].get(str(pen), 0) + 1
                fam['vertex_only_search_finds_no_route'] += 1 if cv is None else 0
                cases.append({'cfg': 'corner-pen%d' % pen, 'pen': pen, 'buf': 0, 'polys': polys, 'conns': conns, 'sel': (cp, cv),
                              'script': A.scene_script(polys, conns, 0, pen, 0, 0, 1)})
        if hit:
            fam['scenes_selected'] += 1
            k = str(len(polys[0]))
            fam['selected_by_vertices_of_T'][k] = fam['selected_by_vertices_of_T'].get(k, 0) + 1


def run(tier):
    res = C.Result(PID, tier, 'proof')
    info = C.prove(res, PID, gen_modules=['Geometry'])
    res.assumptions = [
        'lengths are floored to 1e-12 per segment in the model; costs are compared with the binary64 implementation to 1e-6',
        'segment penalty > 0: optimality is claimed within the taut class only (edges passing inValidRegion, bends passing '
        'validateBendPoint) - DESIGN 5.4; over all polylines the penalised cost has no minimum on the visibility graph',
        'classical fact not proved: a shortest obstacle-avoiding path bends only at obstacle corners; A* with a consistent heuristic is proved optimal '
        'for an abstract best-first search (Graph/AStar.v) - libavoid\'s own A* is tied by cost equality only',
        'with a shape buffer the model routes around the routing polygons printed by the harness (rectangles only, exact)']
    exe = A.harness()
    drv = A.driver()
    rng = C.SplitMix64(C.get_seed() ^ 0xC04)
    stats = {'routes': 0, 'by_config': {}, 'nontrivial': set(), 'bends_hist': {}, 'mismatch': 0, 'no_path': 0,
             'skipped_invalid_known': 0, 'skipped_invalid_other': 0, 'shared_histories': 0, 'shared_routes': 0,
             'shared_routes_with_coincident_endpoint': 0, 'shared_routes_with_coincident_endpoint_after_later_transaction': 0,
             'option_histories': 0, 'option_routes': 0, 'option_routes_with_free_direct_line_after_a_later_transaction': 0, 'option_variants': {}}
    vbp_ok = vbp_grid(res, drv, 3 if tier == 'quick' else 4, stats)
    n_per = 45 if tier == 'quick' else 300
    samples, mism, cases = [], [], []
    # corpus first
    cc = corpus_cases(drv)
    stats['corpus'] = len(cc)
    run_cases(res, exe, drv, cc, stats, samples, mism)
    # directed family: candidates by construction, selected with the extracted model
    rng2 = C.SplitMix64(C.get_seed() ^ 0xC04C04)       # own stream: the older families keep their scenes per seed
    corner_cases(rng2.fork(), drv, 1000 if tier == 'quick' else 8000, cases, stats)
    n_large = 30 if tier == 'quick' else 300
    for (name, pen) in LARGE_CONFIGS:
        for _ in range(n_large):
            polys, conns = A.gen_scene(rng2, nmax=8, R=40, gap=1)
            k = rng2.choice(LARGE_SCALES)
            polys = [[(x * k, y * k) for x, y in P] for P in polys]
            conns = [((s[0] * k, s[1] * k), (d[0] * k, d[1] * k)) for s, d in conns]
            if conns:
                cases.append({'cfg': '%s-x%d' % (name, k), 'pen': pen, 'buf': 0, 'polys': polys, 'conns': conns,
                              'script': A.scene_script(polys, conns, 0, pen, 0, 0, 1)})
    for (name, pen, buf, ro) in CONFIGS:
        for _ in range(n_per):
            polys, conns = A.gen_scene(rng, nmax=8, R=40, gap=1, buf=buf, rect_only=ro)
            if conns:
                cases.append({'cfg': name, 'pen': pen, 'buf': buf, 'polys': polys, 'conns': conns,
                              'script': A.scene_script(polys, conns, 0, pen, buf, 0, 1)})
    for i in range(0, len(cases), 300):
        run_cases(res, exe, drv, cases[i:i + 300], stats, samples, mism)
    n_sh = 14 if tier == 'quick' else 120
    hists = []
    # corpus histories under router options (corpus/c04_opt_*.json: segmentPenalty, transactions, history, router_flags) run first
    for f in sorted(os.listdir(os.path.join(C.VERIF, 'corpus'))):
        if f.startswith('c04_opt_') and f.endswith('.json'):
            j = json.load(open(os.path.join(C.VERIF, 'corpus', f)))
            hists.append({'cfg': 'corpus:' + f, 'pen': j['segmentPenalty'], 'trans': j['transactions'], 'ops': H.parse_ops(j['history']),
                          'opts': AO.opts_from_json(j.get('router_flags')), 'family': None})
    for (name, pen, trans) in SHARED_CONFIGS:
        for k in range(n_sh):
            ops = H.gen_history(rng, trans, False, w_add=20, w_move=50, w_resize=10, w_del=8, shared=True) if k % 2 else \
                H.gen_history(rng, trans, False, w_add=5, w_move=65, w_resize=10, w_del=10, shared=True)
            hists.append({'cfg': name, 'pen': pen, 'trans': trans, 'ops': ops})
    # router options (DESIGN 9.16): own rng stream.  (a) one-shot generic scenes under every flag combination (+ RubberBandRouting on a first routing);
    # (b) family "unblock" + move-heavy generic histories under every combination of InvisibilityGrph / UseLeesAlgorithm, cost vs model after every step
    rng3 = C.SplitMix64(C.get_seed() ^ 0xC0406)
    ocases = []
    for (cname, opts) in AO.OPT_COMBOS[:3] + [AO.RUBBER_ONESHOT]:
        for pen in (0, 10):
            for _ in range(6 if tier == 'quick' else 60):
                polys, conns = A.gen_scene(rng3, nmax=8, R=40, gap=1)
                if conns:
                    ocases.append({'cfg': 'opt-%s-pen%d' % (cname, pen), 'pen': pen, 'buf': 0, 'polys': polys, 'conns': conns, 'opts': opts,
                                   'script': AO.with_opts(A.scene_script(polys, conns, 0, pen, 0, 0, 1), opts)})
    for i in range(0, len(ocases), 300):
        run_cases(res, exe, drv, ocases[i:i + 300], stats, samples, mism)
    for (cname, opts) in AO.OPT_COMBOS:
        for (pen, trans) in ((0, 1), (10, 1), (0, 0)):
            n_un, n_gen = ((6, 2) if pen == 0 and trans else (3, 1)) if tier == 'quick' else (50, 20)
            k = 0
            while k < n_un:
                ops, tags = AO.gen_unblock_history(rng3)
                if ops is None or H.simulate(ops, trans, generic=True) is None:
                    continue
                k += 1
                for t in tags:
                    stats['option_variants'][t] = stats['option_variants'].get(t, 0) + 1
                hists.append({'cfg': 'opt-%s-unblock-pen%d-%s' % (cname, pen, 'trans' if trans else 'notrans'), 'pen': pen, 'trans': trans, 'ops': ops,
                              'opts': opts, 'family': None})
            for _ in range(n_gen):
                ops = H.gen_history(rng3, trans, False, w_add=5, w_move=65, w_resize=10, w_del=10)
                hists.append({'cfg': 'opt-%s-moves-pen%d-%s' % (cname, pen, 'trans' if trans else 'notrans'), 'pen': pen, 'trans': trans, 'ops': ops,
                              'opts': opts, 'family': None})
    for i in range(0, len(hists), 100):
        run_histories(res, exe, drv, hists[i:i + 100], stats, mism)
    # report at most 5 mismatches, one per family (config without scale / corpus index) first
    fam_of = lambda m: m['config'].split('#')[0].split('-x')[0]
    first, rest, seen = [], [], set()
    for m in mism:
        (rest if fam_of(m) in seen else first).append(m)
        seen.add(fam_of(m))
    for m in (first + rest)[:5]:
        res.violation(m)
    res.cov.update({
        'evaluations': stats['routes'] + stats.get('vbp_in_domain', 0),
        'distinct_nontrivial': len(stats['nontrivial']),
        'rule': 'one evaluation = one polyline connector routed by Avoid::Router and its displayRoute cost (length + penalty * bends) compared '
                'with the extracted reference router\'s optimum (1e-6), plus every in-domain tuple of the validateBendPoint grid; scenes: 1-8 '
                'convex integer polygons, boxes separated by >= 1 (+ 2*buffer), endpoints in free space (corner family: 2-5 convex polygons at mutual distance >= 1, '
                'selected by the model); penalties 0, 1, 10, 30, 100, 400, 1000; non-trivial = distinct '
                '(config, scene, connector) whose route has at least one bend',
        'samples': samples, 'traces_validated_against_impl': stats['routes'],
        'routes_by_config': stats['by_config'], 'bends_histogram': {str(k): v for k, v in sorted(stats['bends_hist'].items())},
        'cost_mismatches': stats['mismatch'], 'no_path': stats['no_path'], 'corpus_scenes': stats.get('corpus', 0),
        'corner_family': dict(stats.get('corner_family', {}), what='directed family "corner reachable both ways round its obstacle" (avoid_lib.gen_corner_scene): '
                              'kept = (scene, penalty) pairs on which the extracted taut_select gives different optima for the (previous vertex, vertex) search '
                              'and the vertex-only search; every kept case is routed by the implementation and compared with route_taut',
                              implementation_equal_to_vertex_only_optimum=stats.get('corner_impl_equals_vertex_only', 0)),
        'known_selective_reroute_not_flagged_cases': stats.get('known_reroute_silent', 0),
        'shared_endpoint_stream': {'what': '2-4 polyline connectors most of which share an endpoint position exactly (some endpoints exactly on shape vertices), dense scenes, then shape moves / adds / '
                                           'resizes / deletes and endpoint moves (also onto another connector\'s endpoint) over several transactions; cost vs '
                                           'model optimum after every processTransaction',
                                   'histories': stats['shared_histories'], 'routes_compared': stats['shared_routes'],
                                   'routes_with_a_coincident_endpoint': stats['shared_routes_with_coincident_endpoint'],
                                   'of_those_after_a_later_transaction': stats['shared_routes_with_coincident_endpoint_after_later_transaction']},
        'router_option_stream': {'what': 'public Router flags InvisibilityGrph / UseLeesAlgorithm in all four combinations (RubberBandRouting only on the first '
                                         'routing of one-shot scenes): one-shot generic scenes, and histories of the family "unblock" (the obstacle blocking a '
                                         'connector\'s own src-dst line is deleted / moved away / shrunk; blocked again; freed again; 1-3 bystander obstacles) and '
                                         'move-heavy generic histories; cost vs model optimum after every processTransaction',
                                 'histories': stats['option_histories'], 'routes_compared': stats['option_routes'],
                                 'routes_whose_direct_line_is_free_after_a_later_transaction': stats['option_routes_with_free_direct_line_after_a_later_transaction'],
                                 'unblock_variant_histogram': stats['option_variants']},
        'invalid_routes_skipped_(C03 known finding)': stats['skipped_invalid_known'],
        'validateBendPoint_grid': {k: stats.get(k) for k in ('vbp_tuples', 'vbp_in_domain', 'vbp_first_diff')},
        'exhaustive': False})
    if not res.violations and (not info['ok'] or not vbp_ok):
        res.violation({'what': 'a proof obligation of C04 no longer checks, or the compiled validateBendPoint differs from its spec decider '
                               'on the grid; the search (cost comparison of every generated route with the model optimum) found no '
                               'non-optimal route',
                       'validateBendPoint_first_difference': stats.get('vbp_first_diff'),
                       'broken_files': info.get('broken'), 'broken_lemmas': info.get('broken_lemmas'),
                       'unsupported': info.get('unsupported'), 'forbidden': info.get('forbidden'),
                       'coq_log_tail': info['log'][-3000:]}, no_input=True)
    return res.finish()


def replay(path):
    j = json.load(open(path))
    exe = A.harness(); drv = A.driver()
    runs, rc, err = A.run_harness(exe, j['script'])
    d = runs[0]['dumps'][-1]
    pen = j.get('segmentPenalty', 0)
    polys = [tuple(map(tuple, P)) for P in j['shapes']]
    ids = sorted(d['shapes'].keys())
    rpolys = [[(int(x), int(y)) for x, y in d['bshapes'][i]] for i in ids]      # current scene of the last dump (histories: after the last P)
    bad = 0
    for cid, route in sorted(d['disp'].items()):
        s, t = d['ends'][cid]
        a = A.run_driver(drv, [A.q_plain(rpolys, s, t) if pen == 0 else A.q_taut(pen, rpolys, s, t)])[0]
        mod = A.parse_route_answer(a)
        cost, bends = A.poly_cost(route, pen)
        print('connector', cid, 'route', route, 'cost', cost, 'model', (mod[0] / A.PICO, [(float(x), float(y)) for x, y in mod[1]]) if isinstance(mod, tuple) else mod)
        if isinstance(mod, tuple) and abs(cost - mod[0] / A.PICO) > TOL:
            bad += 1
    return 1 if bad else 0


def warm():
    A.harness()
    A.driver()
    A.build_harness_retry('c04_vbp', ['libavoid'], 'exc')


META = {
    'property_id': PID,
    'level_claimed': {
        'category': 'proof',
        'text': 'Coq theorems (Properties/C04.v): a certifying Dijkstra (any finite graph, any integer weights) returns only walks of exactly the '
                'reported cost that no walk undercuts, and NoRoute only if no walk exists; the reference router over the exact visibility graph '
                '(lengths floored to 1e-12) therefore returns a shortest path of that graph (penalty 0), and for a segment penalty a cheapest '
                'admissible sequence of the taut class (edges passing inValidRegion, bends passing validateBendPoint; states (previous vertex, '
                'vertex) as ANode; 2*penalty for a reversal); the floor-sqrt lengths obey the triangle inequality up to 1e-12 per segment '
                '(admissible straight-line heuristic); the cpp2v-generated inValidRegion equals the spec decider used for pruning. Tie: on every '
                'run the cost of the implementation\'s displayRoute equals the extracted model optimum to 1e-6 (penalties 0, 1, 10 and - scenes at scales 1, 4, 12 - '
                '100, 400, 1000; buffer 0 and, for rectangles, > 0) and the compiled validateBendPoint equals its spec decider on an exhaustive grid; a second stream '
                'routes several connectors with exactly coincident endpoints and compares again after every later transaction that moves / adds / resizes / deletes '
                'shapes (incremental visibility); a directed family "corner reachable both ways round its obstacle" keeps the scenes on which the extracted '
                '(previous vertex, vertex) search and the extracted vertex-only search differ (C04_vertex_only_search_refuted: the state is necessary), i.e. where '
                'the optimal route needs an arrival at a corner that is not the cheapest one (penalties 30, 100, 400, 1000). Router options: the same cost '
                'comparison under the public flags InvisibilityGrph / UseLeesAlgorithm in all four combinations, one-shot and after every transaction of the '
                'directed "unblock" histories (blocker of the connector\'s own src-dst line deleted / moved / shrunk / back / away again) and move-heavy histories; '
                'RubberBandRouting on a first routing only.',
        'design_ref': 'DESIGN.md 5.4'},
    'level_note': 'partial: proof on the model. The certifying Dijkstra is proved total (cert_dijkstra_total: never Fail for in-range, non-negative, '
                  'non-parallel edges; route_plain_total / route_taut_total; SearchFail is still reported if it occurs); libavoid\'s A* and the rotational '
                  'sweep are not modelled (A* optimality is proved for an abstract best-first search only); classical facts assumed: shortest '
                  'obstacle-avoiding paths bend only at obstacle corners; for penalty > 0 optimality is claimed within the taut class only. '
                  'Router flags: neither InvisibilityGrph nor UseLeesAlgorithm changes the visibility graph that is meant, so the model is the same; the bookkeeping they select '
                  '(invisibility graph + checkAllBlockedEdges vs checkAllMissingEdges; rotational sweep vs pairwise checks) is exercised through cost equality only. '
                  'Trusted: Coq kernel, cpp2v, extraction, drivers, exact-rational model of binary64 on integer scenes.',
    'technique': 'Coq proof (certifying Dijkstra, exact visibility) + cost correspondence implementation vs extracted model',
}
