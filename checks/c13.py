"""C13 - libtopology: layout steps never pull an edge through a node (DESIGN 5.13).
proof: theorems about Gen/Tri.v (TriConstraint::slack / slackAtInitial / slackAtFinal / maxSafeAlpha regenerated from
topology_constraints.cpp by cpp2v on every run) and about the hand model of the min-alpha move of
TopologyConstraints::solve() instantiated with them: slack affine in alpha, maxSafeAlpha safe and tight (both leftOf
orientations, the denominator==0 and the "tiny negative rounded" branches explicit), C13_step / C13_steps.
tie: translator (T): compiled TriConstraint (real constructor, real topology::Node objects) vs extracted Gen vs extracted
hand spec on dyadic random + boundary inputs, and the step-rule decider run on the IMPLEMENTATION's maxSafeAlpha;
validation (V): a seedable variant of libtopology/tests/beautify.cpp (random graphs, libavoid routes turned into topology
routes, ConstrainedFDLayout with ColaTopologyAddon, library assertions enabled as exceptions), result checked by the
extracted verified checker (no segment through a foreign node, no node overlap, endpoints preserved, bends on corners
turning round their node); explicit scene families (checks/c13lib.py): lattice pinch / lattice / resize scenes and the DRAG family
(one TopologyConstraints instance kept alive over solves with changing desired positions: drag a node into an edge and back), and the
COMB family ("many events in one pass": a node dragged in ONE ColaTopologyAddon::moveTo across 20..80 near-parallel edges, more than the 100 solve()
iterations of the addon's budget) with the loop-level oracle of Topology/MoveTo.v: coords == rectangle centres, and the state after the call is the
state after some number of safe steps of a reference loop (harness MI line), DESIGN 9.17."""
import os, json, re
from fractions import Fraction
from vlib import common as C

PID = 'C13'
LIBS = ['libvpsc', 'libcola', 'libavoid', 'libtopology']


def build_harness_retry(name, libs, flavor, tries=4):
    for i in range(tries):
        try:
            return C.build_harness(name, libs, flavor)
        except RuntimeError as e:
            if 'No such file' not in str(e) or i == tries - 1:
                raise


# ------------------------------------------------------------------------------------------ TriConstraint cases
# a case: (dim, left, pn, gn, u1, u2, v1, v2, w1, w2): p = pn/8, g = gn/2^15, positions n/2^15 (u, v multiples of 8 units so
# that p*(v-u) stays on the 2^-15 grid and both slacks can be steered exactly through w1, w2)
UNIT = 32768


def gen_tri_cases(rng, n):
    cases = []
    def rnd_pos():
        return 8 * rng.range(-40000, 40000)
    while len(cases) < n:
        kind = rng.below(11)
        dim, left = rng.below(2), rng.below(2)
        pn = rng.range(0, 8) if rng.chance(4, 5) else rng.range(-16, 24)
        gn = rng.range(-160000, 160000) if rng.chance(1, 2) else 0
        u1, v1, u2, v2 = rnd_pos(), rnd_pos(), rnd_pos(), rnd_pos()
        sgn = 1 if left else -1
        big = 4000 * 64
        if kind <= 3:        # feasible start, infeasible target (the interesting branch)
            ti, tf = rng.range(0, big), -rng.range(1, big)
        elif kind == 4:      # feasible both
            ti, tf = rng.range(0, big), rng.range(0, big)
        elif kind == 5:      # start exactly tight
            ti, tf = 0, -rng.range(1, big)
        elif kind == 6:      # target just below 0 / just feasible
            ti, tf = rng.range(0, big), rng.choice([-1, 0, 1, -8])
        elif kind == 7:      # denominator 0: equal slacks (no relative movement), incl. slightly infeasible starts (> -1e-3)
            ti = rng.choice([-30, -1, 0, 5, 800 * 64]); tf = ti
        elif kind == 8:      # "tiny negative rounded": slightly infeasible start (> -1e-3), worse target
            ti = -rng.range(1, 32); tf = ti - rng.range(1, big)
        elif kind == 9:      # clearly infeasible start but |p| > 1e7 (assertFeasible lets it pass)
            ti, tf = -rng.range(33, 4000), -rng.range(4001, big)
            pn = rng.choice([2 ** 27, -2 ** 27])
            v1, v2 = u1, u2      # keep positions within libtopology's POSITION_LIMIT
        else:                # arbitrary, possibly rejected by the constructor's assertFeasible
            ti, tf = rng.range(-40 * 64, big), rng.range(-big, big)
        # slack = sgn * (u + p (v-u) + g - w)  =>  w = u + p (v-u) + g - sgn * slack      (units of 2^-15; pn*(v-u)/8 is integral)
        w1 = u1 + pn * (v1 - u1) // 8 + gn - sgn * ti
        w2 = u2 + pn * (v2 - u2) // 8 + gn - sgn * tf
        cases.append((dim, left, pn, gn, u1, u2, v1, v2, w1, w2))
    return cases


def hexq(tok):
    return Fraction(float.fromhex(tok))


def me_of(fr):
    """Fraction with power-of-two denominator -> (m, e) with value m * 2^e"""
    n, d = fr.numerator, fr.denominator
    return n, -(d.bit_length() - 1)


def parse_q(tok):
    n, d = tok.split('/')
    return Fraction(int(n), int(d))


def case_dict(c):
    dim, left, pn, gn, u1, u2, v1, v2, w1, w2 = c
    return {'scanDim': 'X' if dim == 0 else 'Y', 'leftOf': bool(left), 'p': pn / 8.0, 'g': gn / 32768.0,
            'u_initial': u1 / 32768.0, 'u_final': u2 / 32768.0, 'v_initial': v1 / 32768.0, 'v_final': v2 / 32768.0,
            'w_initial': w1 / 32768.0, 'w_final': w2 / 32768.0,
            'replay': 'echo "%s" | build/bin/c13_topo-* tri' % ' '.join(str(x) for x in c)}


# ------------------------------------------------------------------------------------------ layout runs
def to_me(tok):
    return me_of(hexq(tok))


def convert_dump(text):
    """harness dump -> (phases: list of (name, driver_input_lines, summary)), exc, skip"""
    phases, cur, exc, skip = [], None, None, False
    for line in text.split('\n'):
        t = line.split()
        if not t:
            continue
        if t[0] == 'PHASE':
            cur = {'name': t[1], 'lines': [], 'nodes': [], 'paths': []}
        elif t[0] in ('N', 'P') and cur is not None and any(w in ('nan', '-nan', 'inf', '-inf') for w in t):
            cur['nonfinite'] = True
        elif t[0] == 'N' and cur is not None:
            vals = [hexq(x) for x in t[2:6]]
            cur['nodes'].append([float(v) for v in vals])
            f = []
            for v in vals:
                f += list(me_of(v))
            cur['lines'].append('N ' + ' '.join(str(x) for x in f))
        elif t[0] == 'P' and cur is not None:
            k = int(t[4])
            f, pts = [], []
            for j in range(k):
                node, kind, x, y = t[5 + 4 * j: 9 + 4 * j]
                xv, yv = hexq(x), hexq(y)
                f += [node, kind] + list(me_of(xv)) + list(me_of(yv))
                pts.append([int(node), int(kind), float(xv), float(yv)])
            cur['paths'].append({'edge': int(t[1]), 'src': int(t[2]), 'dst': int(t[3]), 'points': pts})
            cur['lines'].append('P %s %s %d ' % (t[2], t[3], k) + ' '.join(str(x) for x in f))
        elif t[0] == 'END' and cur is not None:
            cur['lines'].append('END')
            phases.append(cur)
            cur = None
        elif t[0] == 'EXC':
            exc = line
        elif t[0] == 'SKIP':
            skip = True
    return phases, exc, skip


CODES = {1: 'node rectangles overlap', 2: 'path endpoints changed / not at the node centres',
         3: 'a bend is not on a corner of its node or turns the wrong way round it', 4: 'a segment passes through the interior of a foreign node'}


# ------------------------------------------------------------------------------------------ explicit scene families
SCENE_CORPUS = os.path.join(C.VERIF, 'corpus', 'c13_scenes.txt')


def split_scene_output(out):
    """harness `scenes` output -> {tag: (phases, exc, status)}"""
    res, tag, buf = {}, None, []
    for line in out.split('\n'):
        if line.startswith('SCENE '):
            tag, buf = line[6:].strip(), []
        elif line.startswith('ENDSCENE ') and tag is not None:
            phases, exc, _ = convert_dump('\n'.join(buf))
            res[tag] = (phases, exc, ' '.join(line.split()[2:]))
            tag = None
        elif tag is not None:
            buf.append(line)
    return res


def check_phases(spec_exe, groups):
    """groups: list of phase lists; one driver call; returns per group the list of driver rows"""
    din, cnt, idx = ['EPS 1 -20'], 0, []
    for phases in groups:
        prev = None
        for p in phases:
            if prev is not None and p['lines'] == prev:       # identical to the previous state of the scene (`op<i>.it<last>` == `op<i>`): judged once
                idx.append(cnt - 1)
                continue
            din += p['lines']; idx.append(cnt); cnt += 1
            prev = p['lines']
    rc, lout, lerr, dt = C.sh([spec_exe, 'layout'], input='\n'.join(din) + '\n', timeout=900)
    ll = [l.split() for l in lout.split('\n') if l]
    if len(ll) != cnt:
        return None, lerr[-800:]
    out, k = [], 0
    for phases in groups:
        out.append([ll[j] for j in idx[k:k + len(phases)]]); k += len(phases)
    return out, None


def judge_phases(phases, rows):
    """first phase (after `before`) that the verified checker rejects -> (index, problems); `*.atexc` dumps are informational"""
    for k in range(1, len(phases)):
        row, pa = rows[k], phases[k]
        if pa['name'].endswith('.atexc'):
            continue
        bad = []
        if pa.get('nonfinite'):
            bad.append({'kind': 'non-finite coordinate'})
        if row[1] != '0':
            bad.append({'kind': CODES[1], 'code': 1})
        for p, code in zip(pa['paths'], row[2:]):
            if code != '0':
                bad.append({'kind': CODES[int(code)], 'code': int(code), 'edge': p['edge'], 'src': p['src'], 'dst': p['dst'], 'points_node_kind_x_y': p['points']})
        for p0, p1 in zip(phases[0]['paths'], pa['paths']):
            if (p0['src'], p0['dst']) != (p1['src'], p1['dst']) or p1['points'][0][0] != p0['points'][0][0] or p1['points'][-1][0] != p0['points'][-1][0]:
                bad.append({'kind': 'edge no longer joins its original nodes', 'edge': p1['edge']})
        if len(pa['paths']) != len(phases[0]['paths']) or len(pa['nodes']) != len(phases[0]['nodes']):
            bad.append({'kind': 'nodes / edges lost'})
        if bad:
            return k, bad
    return None, []


def drag_return_problems(sc, phases):
    """extra oracle of the DRAG family (one TopologyConstraints instance, motion in ONE axis): whenever, after a step, every node rectangle is
    back where it was before the DRAG op, every path must again be the path it was then (same (node, corner) sequence).  Sound because the
    start state is strict (no path touches a foreign node), a taut path in a homotopy class is unique, and the configuration space of
    non-overlapping rectangles moving along one axis is convex (no loop of node positions can change the class).  -> (phase index, problems, number of states compared)"""
    names = [p['name'] for p in phases]
    nret = 0
    for oi, op in enumerate(sc['ops']):
        if op[0] != 'DRAG':
            continue
        prev = 'before' if oi == 0 else 'op%d' % oi
        if prev not in names:
            continue
        p0 = phases[names.index(prev)]
        for k, pa in enumerate(phases):
            if not (pa['name'] == 'op%d' % (oi + 1) or pa['name'].startswith('op%d.s' % (oi + 1))):
                continue
            if len(pa['nodes']) != len(p0['nodes']) or len(pa['paths']) != len(p0['paths']):
                continue
            if any(abs(a - b) > 1e-6 for r, t in zip(p0['nodes'], pa['nodes']) for a, b in zip(r, t)):
                continue
            bad = []
            nret += 1
            for q0, q1 in zip(p0['paths'], pa['paths']):
                if [(x[0], x[1]) for x in q0['points']] != [(x[0], x[1]) for x in q1['points']]:
                    bad.append({'kind': 'every node is back where it was before the drag session, but the path is not: %d bend(s) before, %d now '
                                        '(a bend made during the session did not straighten again / a bend was lost)' % (len(q0['points']) - 2, len(q1['points']) - 2),
                                'code': 5, 'edge': q1['edge'], 'src': q1['src'], 'dst': q1['dst'], 'points_node_kind_x_y': q1['points'],
                                'path_before_the_session': q0['points']})
            if bad:
                return k, bad, nret
    return None, [], nret


def scene_move_infos(out):
    """harness `scenes` output -> {tag: {op name: dict of the MI line}} (see harness/c13_topo.cpp move_info)"""
    res, tag = {}, None
    for line in out.split('\n'):
        if line.startswith('SCENE '):
            tag = line[6:].strip()
        elif line.startswith('ENDSCENE '):
            tag = None
        elif line.startswith('MI ') and tag is not None:
            t = line.split()
            d = {}
            for kv in t[2:]:
                k, v = kv.split('=', 1)
                try:
                    d[k] = int(v)
                except ValueError:
                    try:
                        d[k] = float(v)
                    except ValueError:
                        d[k] = v
            res.setdefault(tag, {})[t[1]] = d
    return res


def move_info_problems(sc, phases, mi):
    """loop-level oracle of ColaTopologyAddon::moveTo (scene op MOVE), the observable side of Topology/MoveTo.v
    moveTo_positions_are_last_safe_state: after the call (a) coords[] == rectangle centres and (b) the state (node centres AND paths) is the state
    after some number k >= 1 of iterations of the reference loop `TopologyConstraints::solve()` run on a copy of the scene (every iteration = one
    safe step with alpha = min maxSafeAlpha + one topology event) - whether or not the iteration budget was exhausted.
    -> (phase index, problems) of the first MOVE op that breaks it"""
    names = [p['name'] for p in phases]
    for oi, op in enumerate(sc['ops']):
        nm = 'op%d' % (oi + 1)
        if op[0] != 'MOVE' or nm not in names or nm not in mi:
            continue
        m = mi[nm]
        bad = []
        cd = m.get('coords_dev', 0)
        if not (isinstance(cd, (int, float)) and cd == cd and cd <= 1e-9):
            bad.append({'kind': 'coords[] returned by ColaTopologyAddon::moveTo differ from the rectangle centres (max deviation %s): libcola and libtopology '
                                'no longer agree where the nodes are' % cd, 'code': 6})
        if m.get('match_first', -1) < 0:
            capped = m.get('ref_iters', 0) > 100 or not m.get('ref_converged', 1)
            bad.append({'kind': 'the state ColaTopologyAddon::moveTo left behind (node centres + paths) is not the state after ANY number of safe steps: the reference '
                                'loop (TopologyConstraints::solve() repeated on a copy of the scene, %d iterations%s) never passes through it%s; node centres '
                                'alone %s.  Model (Topology/MoveTo.v): the returned positions are exactly those of the last state produced by a safe step, '
                                'also when the iteration budget is exhausted' %
                                (m.get('ref_iters', 0), '' if m.get('ref_converged') else ', not converged', ' (the pass needs more than the 100 iterations of the budget)' if capped else '',
                                 ('match reference iteration %d, the paths do not' % m['pos_match']) if m.get('pos_match', -1) > 0 else
                                 ('match no reference iteration (closest: %g)' % m.get('dev_min', -1))), 'code': 6})
        if bad:
            for b in bad:
                b['move_info'] = m
            return names.index(nm), bad
    return None, []


def side_flip_problems(sc, phases):
    """a node jumped over a straight edge: scene op MOVE in axis d moves every node along d only.  For an edge that is straight (centre to centre) before
    and after the op and a node v (not an end node) whose extent in the other axis lies strictly between the two end points' coordinates (before and
    after), v cannot get from one side of the edge to the other without crossing it (it cannot pass round an end), and crossing it requires a bend
    round v.  v strictly on one side before and strictly on the other side after = the edge was pulled through v.  -> (phase index, problems)"""
    names = [p['name'] for p in phases]
    for oi, op in enumerate(sc['ops']):
        nm, prev = 'op%d' % (oi + 1), ('before' if oi == 0 else 'op%d' % oi)
        if op[0] != 'MOVE' or nm not in names or prev not in names:
            continue
        p0, p1 = phases[names.index(prev)], phases[names.index(nm)]
        if p0.get('nonfinite') or p1.get('nonfinite') or len(p0['nodes']) != len(p1['nodes']) or len(p0['paths']) != len(p1['paths']):
            continue
        o = 1 if op[1] == 0 else 0          # index of the axis that does not move
        bad = []
        for q0, q1 in zip(p0['paths'], p1['paths']):
            if len(q0['points']) != 2 or len(q1['points']) != 2:
                continue
            ends = (q0['points'][0][0], q0['points'][1][0])
            sides = []
            for q, ph in ((q0, p0), (q1, p1)):
                a, b = (q['points'][0][2], q['points'][0][3]), (q['points'][1][2], q['points'][1][3])
                lo, hi = min(a[o], b[o]), max(a[o], b[o])
                row = []
                for i, r in enumerate(ph['nodes']):
                    if i in ends or not (lo + 1e-9 < r[o] and r[o + 2] < hi - 1e-9):
                        row.append(0); continue
                    cs = [(b[0] - a[0]) * (cy - a[1]) - (cx - a[0]) * (b[1] - a[1]) for cx in (r[0], r[2]) for cy in (r[1], r[3])]
                    row.append(1 if all(c > 1e-9 for c in cs) else -1 if all(c < -1e-9 for c in cs) else 0)
                sides.append(row)
            for i, (s0, s1) in enumerate(zip(*sides)):
                if s0 * s1 < 0:
                    bad.append({'kind': 'node %d was strictly on one side of the straight edge %d -> %d before the MOVE and is strictly on the other side after it, the edge '
                                        'is still straight (no bend round the node) and the node cannot have passed round an end of the edge: the edge was pulled through the node' %
                                        (i, ends[0], ends[1]), 'code': 7, 'edge': q1['edge'], 'src': q1['src'], 'dst': q1['dst'], 'node': i,
                                'node_before_x0y0x1y1': p0['nodes'][i], 'node_after_x0y0x1y1': p1['nodes'][i], 'points_node_kind_x_y': q1['points']})
        if bad:
            return names.index(nm), bad
    return None, []


def extra_move_oracles(sc, phases, mi, k, bad):
    """merge the MOVE oracles into the verdict of judge_phases: the earliest rejected phase wins; problems of one phase are ordered loop-level
    oracle (code 6), verified checker (codes 1-4; the first two), side flips (code 7, at most 2), rest of the checker's"""
    km, bm = move_info_problems(sc, phases, mi)
    kf, bf = side_flip_problems(sc, phases)
    cands = [x for x in (k, km, kf) if x is not None]
    n_extra = (km is not None) + (kf is not None)
    if not n_extra:
        return k, bad, 0
    k0 = min(cands)
    b6, b14, b7 = (list(bm) if km == k0 else []), (list(bad) if k == k0 else []), (list(bf)[:2] if kf == k0 else [])
    out = b6 + b14[:2] + b7 + b14[2:]
    return k0, out, n_extra


def assert_fingerprint(exc):
    """EXC <expr> | <file>:<line> | <function> | op<k>  ->  assert:<file>:<expr>"""
    f = [x.strip() for x in exc[4:].split('|')]
    if len(f) >= 2 and ':' in f[1]:
        fp = 'assert:%s:%s' % (os.path.basename(f[1].rsplit(':', 1)[0]), f[0].replace(' ', '_'))
        if f[0] in ('false', '0') and len(f) >= 3:       # COLA_ASSERT(false): name the function that gave up
            fn = f[2].split('(')[0].split()[-1] if f[2] != '?' else 'line' + f[1].rsplit(':', 1)[1]
            fp += '@' + fn.replace('topology::', '')
        return fp
    return 'exception:' + f[0]


def run_scene_families(res, tier, rng, exe, spec_exe):
    from checks import c13lib as L
    nq = (400, 300, 400, 300, 12) if tier == 'quick' else (3000, 2000, 3000, 2500, 240)
    if os.environ.get('C13_COMB_N') is not None:      # number of scenes of the `comb` family (many events in one moveTo pass), for soaks
        nq = nq[:4] + (int(os.environ['C13_COMB_N']),)
    scenes = []
    if os.path.exists(SCENE_CORPUS):
        scenes += [dict(sc, corpus=True) for sc in L.parse_scripts(open(SCENE_CORPUS).read())]
    scenes += L.gen_scenes(rng, *nq)
    st = {'scenes': len(scenes), 'by_family': {}, 'start_invalid': 0, 'checked_states': 0, 'ops': {'MOVE0': 0, 'MOVE1': 0, 'RESIZE': 0, 'LAYOUT': 0, 'DRAG0': 0, 'DRAG1': 0}, 'drag_steps': 0, 'drag_returns_checked': 0,
          'bends_created_or_removed': 0, 'assertions': {}, 'ndebug_runs': 0, 'known': {}, 'wall_s': 0.0,
          'moveto_loop': {'calls_compared_with_reference_loop': 0, 'ended_at_final_alpha_1': 0, 'iteration_cap_hit': 0, 'max_reference_iterations': 0,
                          'max_segment_events_in_one_call': 0, 'state_is_a_safe_step_state': 0, 'reference_loop_exceptions': 0, 'oracle_failures': 0}}
    viol = 0
    inp = ''.join(L.script(sc) for sc in scenes)
    rc, out, err, dt = C.sh([exe, 'scenes', '20'], input=inp, timeout=1800)
    st['wall_s'] += dt
    got = split_scene_output(out)
    mis = scene_move_infos(out)
    if rc != 0 or len(got) != len(scenes):
        res.violation({'what': 'harness c13_topo scenes failed', 'rc': rc, 'scenes': len(scenes), 'parsed': len(got), 'stderr': err[-1500:]}, no_input=True)
        return st, 1
    rows, e = check_phases(spec_exe, [got[sc['tag']][0] for sc in scenes])
    if rows is None:
        res.violation({'what': 'layout checker driver failed on the scene families', 'stderr': e}, no_input=True)
        return st, 1
    failing = []
    for sc, rw in zip(scenes, rows):
        phases, exc, status = got[sc['tag']]
        fam = sc['family']
        fs = st['by_family'].setdefault(fam, {'scenes': 0, 'failed': 0})
        if not phases or rw[0][1] != '0' or any(x != '0' for x in rw[0][2:]):
            st['start_invalid'] += 1
            continue
        fs['scenes'] += 1
        for op in sc['ops']:
            st['ops'][op[0] + (str(op[1]) if op[0] in ('MOVE', 'DRAG') else '')] += 1
            if op[0] == 'DRAG':
                st['drag_steps'] += len(op[2])
        st['checked_states'] += len(phases) - 1
        k, bad = judge_phases(phases, rw)
        if any(op[0] == 'DRAG' for op in sc['ops']):
            kd, badd, nret = drag_return_problems(sc, phases)
            st['drag_returns_checked'] += nret
            if kd is not None and (k is None or kd < k):
                k, bad = kd, badd
        ml = st['moveto_loop']
        for m in mis.get(sc['tag'], {}).values():
            ml['calls_compared_with_reference_loop'] += 1
            ml['ended_at_final_alpha_1'] += 1 if m.get('at_final') else 0
            ml['iteration_cap_hit'] += 1 if (m.get('match_last', -1) > 0 and (m['match_last'] < m.get('ref_iters', 0) or not m.get('ref_converged'))) else 0
            ml['max_reference_iterations'] = max(ml['max_reference_iterations'], m.get('ref_iters', 0))
            ml['max_segment_events_in_one_call'] = max(ml['max_segment_events_in_one_call'], abs(m.get('events', 0)))
            ml['state_is_a_safe_step_state'] += 1 if m.get('match_first', -1) > 0 else 0
            ml['reference_loop_exceptions'] += 1 if m.get('ref_exc') else 0
        k, bad, nx = extra_move_oracles(sc, phases, mis.get(sc['tag'], {}), k, bad)
        ml['oracle_failures'] += nx
        if status != 'ok' and not exc:
            exc = 'EXC harness child ended with ' + status
        if k is None and not exc:
            b0 = sum(len(p['points']) for p in phases[0]['paths'])
            st['bends_created_or_removed'] += sum(1 for pa in phases[1:] if sum(len(p['points']) for p in pa['paths']) != b0)
            continue
        fs['failed'] += 1
        failing.append((sc, phases, exc, k, bad))
    # the failing scenes again in an NDEBUG build (library assertions compiled out): exhibits the violated state itself
    nd = {}
    if failing:
        try:
            exe_nd = build_harness_retry('c13_topo', LIBS, 'ndebug')
            rc, out2, err2, dt = C.sh([exe_nd, 'scenes', '20'], input=''.join(L.script(f[0]) for f in failing), timeout=1800)
            st['wall_s'] += dt
            got2 = split_scene_output(out2)
            mis2 = scene_move_infos(out2)
            order = [f[0]['tag'] for f in failing if f[0]['tag'] in got2]
            rows2, e2 = check_phases(spec_exe, [got2[t][0] for t in order])
            for t, rw in zip(order, rows2 or []):
                ph2, exc2, status2 = got2[t]
                k2, bad2 = judge_phases(ph2, rw) if ph2 else (None, [])
                sc_t = [f[0] for f in failing if f[0]['tag'] == t][0]
                if ph2 and any(op[0] == 'DRAG' for op in sc_t['ops']):
                    kd, badd, _ = drag_return_problems(sc_t, ph2)
                    if kd is not None and (k2 is None or kd < k2):
                        k2, bad2 = kd, badd
                if ph2:
                    k2, bad2, _ = extra_move_oracles(sc_t, ph2, mis2.get(t, {}), k2, bad2)
                nd[t] = {'status': status2, 'exception': exc2, 'phases': len(ph2), 'rejected_phase': ph2[k2]['name'] if k2 else None, 'problems': bad2[:4],
                         'rejected_state': {'nodes_x0y0x1y1': ph2[k2]['nodes'], 'paths': ph2[k2]['paths']} if k2 else None}
                st['ndebug_runs'] += 1
        except RuntimeError as ex:
            nd = {'_build_error': str(ex)[-600:]}
    state = lambda ph: {'phase': ph['name'], 'nodes_x0y0x1y1': ph['nodes'], 'paths': ph['paths']}
    n_transient = 0
    residual = []
    for sc, phases, exc, k, bad in failing:
        fp = assert_fingerprint(exc) if exc else None
        if fp:
            st['assertions'][fp] = st['assertions'].get(fp, 0) + 1
        ndr = nd.get(sc['tag'])
        last_ok = phases[(k - 1) if k else max(i for i, p in enumerate(phases) if not p['name'].endswith('.atexc'))]
        obj = {'what': ('ColaTopologyAddon::moveTo does not return the last state produced by a safe step (loop-level oracle, DESIGN 9.17): ' +
                        [b for b in bad if b.get('code') in (6, 7)][0]['kind'] if k and any(b.get('code') in (6, 7) for b in bad) else
                        'the verified checker rejects a state reached by libtopology' if k else
                        'an invariant assertion of libtopology fired (reported as a violation of the property: the library itself found '
                        'a non-convex bend / a segment through a node / an infeasible constraint); see ndebug_run for the same scene in '
                        'a build without assertions, judged by the verified checker'),
               'family': sc['family'], 'symmetry_swap_flipx_flipy': sc.get('sym'), 'comb_parameters': sc.get('comb'), 'assertion': exc, 'assertion_fingerprint': fp,
               'problems': bad[:5], 'rejected_state': state(phases[k]) if k else None, 'last_valid_state': state(last_ok),
               'ndebug_run': ndr, 'scene_script': L.script(sc),
               'replay': 'printf \'%s\' | build/bin/c13_topo-exc-* scenes     (and c13_topo-ndebug-*)' % L.script(sc).replace('\n', '\\n')}
        kf = classify_scene_failure(sc, phases, exc, k, bad, ndr)
        if kf == 'rare_segment_through_node:transient':
            n_transient += 1
            if n_transient > 2 + len(scenes) // 500:
                kf = None
                obj['what'] += ' (more than 2 + scenes/500 transient end-of-solve() intersections: above the rate of the known rare finding)'
        if kf:
            st['known'][kf] = st['known'].get(kf, 0) + 1
            if res.violation(obj, fingerprint=kf):
                viol += 1
        else:
            residual.append((obj, fp if (fp and not k) else None))
    # un-triaged rare failures of the lattice families on the unchanged tree: about 0.2% of the scenes (6 of 11000 over ten seeds, at most 3 in
    # one quick run; diverse: a bend turning the wrong way after a resize inside a layout run, an end segment through a node in the shadow of its end
    # node, ...; reproducers in corpus/c13_residual_scenes.txt).  A systematic failure shows in a large fraction of a family (the two seeded
    # changes: 13% and 28% of all scenes).  At most RESID_MAX unclassified scenes are recorded under the rate-limited fingerprint, more is a violation.
    RESID_MAX = 2 + len(scenes) // 300
    st['residual_unclassified'] = len(residual)
    st['residual_cap'] = RESID_MAX
    st['residual_scenes'] = [o['scene_script'] for o, f in residual][:6]
    GENERIC = ('drag', 'drag2', 'corpus-drag', 'comb-parallel', 'comb-fan', 'comb-alternate', 'corpus-comb')     # generic coordinates: never eligible for the lattice residual class
    for obj, f in residual:
        if len(residual) <= RESID_MAX and os.environ.get('C13_NO_RESIDUAL') is None and obj['family'] not in GENERIC:
            if res.violation(obj, fingerprint='lattice_degenerate_residual'):
                viol += 1
        else:
            if len(residual) > RESID_MAX:
                obj['what'] += ' (%d unclassified failing scenes of %d: above the rate of the un-triaged rare failures of the unchanged tree)' % (len(residual), len(scenes))
            if viol < int(os.environ.get("C13_MAXV", "4")):
                res.violation(obj, fingerprint=f)
            viol += 1
    st['wall_s'] = round(st['wall_s'], 1)
    return st, viol


def corridor_segments(ph):
    """segments of the state's paths that join bend points on corners of two DIFFERENT nodes and are axis-parallel (both points on one
    lattice line shared by a side of each node): the path runs through a zero-width corridor between two abutting nodes, or turns
    from one node's corner to the other's along their common side line.  Returns [(edge, axes, a, b)]: axes = set of the axes the
    segment is parallel to (0: horizontal, 1: vertical; both for coincident bend points)."""
    out = []
    for p in ph['paths']:
        pts = p['points']
        for a, b in zip(pts, pts[1:]):
            if a[1] == 4 or b[1] == 4 or a[0] == b[0]:
                continue
            ax = set()
            if abs(a[2] - b[2]) <= 1e-7: ax.add(1)
            if abs(a[3] - b[3]) <= 1e-7: ax.add(0)
            if ax:
                out.append((p['edge'], ax, a, b))
    return out


def through_pairs(state):
    """(segment, node) pairs of a state in which the segment passes through the node's interior (shrunk by 1e-6), the node not
    being one of the segment's own two nodes -> [(a, b, node index)]"""
    from checks import c13lib as L
    out = []
    for p in state['paths']:
        pts = p['points']
        for a, b in zip(pts, pts[1:]):
            for i, r in enumerate(state['nodes_x0y0x1y1']):
                if i in (a[0], b[0]):
                    continue
                rr = (r[0] + 1e-6, r[2] - 1e-6, r[1] + 1e-6, r[3] - 1e-6)
                if not L.seg_clear_open((a[2], a[3]), (b[2], b[3]), rr):
                    out.append((a, b, i))
    return out


def end_node_shadow(c0, bad_state, E, N, dim):
    """classifier predicate of rare_segment_through_node:end_node_shadow.  c0: the state in which the TopologyConstraints instance was
    constructed; E: an end node of an edge whose end segment (E.CENTRE -> next point) passes through node N in bad_state; dim: 0 = nodes
    move in x (scan lines at the y of node sides), 1 = the transpose.  NodeEvent::createStraightConstraints (topology_constraints_
    constructor.cpp:262-291) makes a StraightConstraint between N and a segment only at the two scan positions N.min / N.max (other axis) and
    only if the segment is open there and not hidden behind N's neighbour in the open-node list (`p < leftLimit && pos inside the
    neighbour`); the end segment of an edge is attached to E's CENTRE and has no constraint against E itself.  True iff for EVERY edge with
    an end segment E.CENTRE -> P through N in bad_state, at both scan positions of N the end segment of that edge at E in c0 was either not
    open or hidden behind E (scan position strictly inside E's range, intersection point and N's centre strictly on opposite sides of E's
    centre): N never got a constraint against the segment that later swung round E's centre across it."""
    d, sa = (0, 1) if dim == 0 else (1, 0)                  # index of the moving coordinate / of the scan coordinate in [x0, y0, x1, y1]
    found = False
    for pb, p0 in zip(bad_state['paths'], c0['paths']):
        pts = pb['points']
        segs = []
        if pts[0][0] == E and pts[0][1] == 4:
            segs.append((pts[0], pts[1], 0))
        if pts[-1][0] == E and pts[-1][1] == 4:
            segs.append((pts[-1], pts[-2], -1))
        for a, b, side in segs:
            rn = bad_state['nodes_x0y0x1y1'][N]
            from checks import c13lib as L
            if L.seg_clear_open((a[2], a[3]), (b[2], b[3]), (rn[0] + 1e-6, rn[2] - 1e-6, rn[1] + 1e-6, rn[3] - 1e-6)):
                continue
            found = True
            q = p0['points']
            u, v = (q[0], q[1]) if side == 0 else (q[-1], q[-2])
            if u[0] != E or u[1] != 4:
                return False
            r_n, r_e = c0['nodes'][N], c0['nodes'][E]
            ec, nc = (r_e[d] + r_e[d + 2]) / 2.0, (r_n[d] + r_n[d + 2]) / 2.0
            us, vs, ud, vd = u[2 + sa], v[2 + sa], u[2 + d], v[2 + d]
            for pos in (r_n[sa], r_n[sa + 2]):
                if us == vs or pos < min(us, vs) or pos > max(us, vs):
                    continue                                  # no segment event / segment not open at this scan position
                pint = ud + (vd - ud) * (pos - us) / (vs - us)
                if not (r_e[sa] < pos < r_e[sa + 2] and (pint - ec) * (nc - ec) < 0):
                    return False
    return found


def rects_touch(r, s, e=1e-2):      # resize leaves gaps of about 1e-3 (slivers of width 1e-4) between nodes it pushed apart
    return not (r[2] < s[0] - e or s[2] < r[0] - e or r[3] < s[1] - e or s[3] < r[1] - e)


def classify_scene_failure(sc, phases, exc, k, bad, ndr):
    """classifier predicates of the two known findings of the lattice / resize families (evaluated on the failing case):
    lattice_corridor_tie: the state BEFORE the failing operation (checker-valid) already contains a path segment between corners of two
      different nodes that lies on a lattice line shared by both (zero-width corridor, possibly of length 0) and is parallel to an axis in
      which the failing operation moves nodes; when the corridor closes / the nodes slide along each other, bend points coincide and several
      topology constraints reach slack 0 at exactly the same alpha.  A failure inside an operation that starts from a state without such a
      segment is never classified.
    rare_segment_through_node:end_node_neighbour: the failure is exactly `segment through a foreign node` and, in the violated state (NDEBUG
      run), every such segment is an END segment (one point is the CENTRE of the edge's end node E) and the node it passes through touches E."""
    names = [p['name'] for p in phases]
    if k:
        opname = phases[k]['name'].split('.')[0]
    elif exc and '| op' in exc:
        opname = 'op' + exc.rsplit('| op', 1)[1].strip()
    else:
        return None
    try:
        opi = int(opname[2:])
    except ValueError:
        return None
    if opi < 1 or opi > len(sc['ops']):
        return None
    op = sc['ops'][opi - 1]
    # (a) segment through a node that touches the end node of that (end) segment
    only_through = (bad and all(b.get('code') == 4 for b in bad)) or (not bad and exc and 'NoIntersection' in exc)
    if only_through and ndr and ndr.get('rejected_state') and all(b.get('code') == 4 for b in ndr['problems']):
        stt = ndr['rejected_state']
        prs = through_pairs(stt)
        ok = bool(prs)
        for a, b, i in prs:
            ends = [q for q in (a, b) if q[1] == 4]
            if not ends or not any(rects_touch(stt['nodes_x0y0x1y1'][q[0]], stt['nodes_x0y0x1y1'][i]) for q in ends):
                ok = False
        if ok:
            return 'rare_segment_through_node:end_node_neighbour'
        # (a'') the same root cause without contact: the node lies in the SHADOW of the end node.  Evaluated on the state in which the
        #       TopologyConstraints instance of the failing operation was constructed (MOVE / DRAG: the state before the operation)
        if op[0] in ('MOVE', 'DRAG') and prs:
            c0n = 'before' if opi == 1 else 'op%d' % (opi - 1)
            if c0n in names:
                c0 = phases[names.index(c0n)]
                if all(any(end_node_shadow(c0, stt, q[0], i, op[1]) for q in (a, b) if q[1] == 4) for a, b, i in prs):
                    return 'rare_segment_through_node:end_node_shadow'
        return None
    # (a') the library's end-of-solve() intersection check fired, but every state the same scene reaches in the NDEBUG build (after every
    #      operation and every layout iteration) satisfies the verified checker: transient (rate-limited by the caller)
    if not bad and exc and 'NoIntersection' in exc and ndr and ndr.get('status') == 'ok' and not ndr.get('exception') \
            and ndr.get('rejected_phase') is None and ndr.get('phases', 0) >= 2:
        return 'rare_segment_through_node:transient'
    # (b) state before the failing op: phase `op<opi-1>` (or `before`)
    prev = 'before' if opi == 1 else 'op%d' % (opi - 1)
    if op[0] == 'DRAG':
        # a DRAG op is a sequence of solve loops on one TopologyConstraints instance: the state before the failing STEP
        step = None
        if k and '.s' in phases[k]['name']:
            step = int(phases[k]['name'].split('.s')[1])
        elif not k and exc and re.search(r'\| step(\d+) \|', exc):
            step = int(re.search(r'\| step(\d+) \|', exc).group(1))
        if step and step > 1:
            prev = 'op%d.s%d' % (opi, step - 1)
    if prev not in names:
        return None
    cs = corridor_segments(phases[names.index(prev)])
    if op[0] in ('MOVE', 'DRAG'):
        cs = [c for c in cs if op[1] in c[1]]
    if not cs:
        return None
    return 'lattice_corridor_tie'


def run(tier):
    res = C.Result(PID, tier, 'proof')
    info = C.prove(res, PID, gen_modules=['Tri'])
    res.assumptions = [
        'binary64 evaluation of slack/maxSafeAlpha equals exact evaluation on the dyadic inputs used except for the one division (compared to 1e-12)',
        'cpp2v translates the two methods faithfully (opaque member calls u->initialPos(scanDim) etc. are mapped to record fields; validated by the correspondence every run)',
        'the constraint set is complete (scan-line constructor) and satisfy() preserves the invariant: validated by the V-run only',
    ]
    rng = C.SplitMix64(res.seed)
    exe = build_harness_retry('c13_topo', LIBS, 'exc')
    spec_exe = C.ocaml_build('c13spec', 'C13spec.v', 'c13_spec_driver.ml', 'c13_spec.ml')
    # ---------------------------------------------------------------- (T) TriConstraint correspondence
    ncases = 3000 if tier == 'quick' else 20000
    cases = gen_tri_cases(rng, ncases)
    inp = '\n'.join(' '.join(str(x) for x in c) for c in cases) + '\n'
    rc, out, err, dt = C.sh([exe, 'tri'], input=inp, timeout=900)
    cpp = [l for l in out.split('\n') if l]
    evals, step_viol, corr, hist, samples = 0, 0, [], {}, []
    if rc != 0 or len(cpp) != len(cases):
        res.violation({'what': 'harness c13_topo tri failed', 'rc': rc, 'lines': len(cpp), 'stderr': err[-1500:]}, no_input=True)
        return res.finish()
    sp_in = []
    for c, l in zip(cases, cpp):
        if l.startswith('EXC'):
            sp_in.append(' '.join(str(x) for x in c) + ' 0 0 EXC')
        else:
            m, e = me_of(hexq(l.split()[0]))
            sp_in.append(' '.join(str(x) for x in c) + ' %d %d' % (m, e))
    rc2, sout, serr, dt2 = C.sh([spec_exe, 'tri'], input='\n'.join(sp_in) + '\n', timeout=900)
    spec = [l for l in sout.split('\n') if l]
    gen = None
    gen_err = None
    try:
        gen_exe = C.ocaml_build('c13gen', 'C13gen.v', 'c13_gen_driver.ml', 'c13_gen.ml')
        rc3, gout, gerr, dt3 = C.sh([gen_exe], input=inp, timeout=900)
        gen = [l for l in gout.split('\n') if l]
        if len(gen) != len(cases):
            gen_err = 'generated driver printed %d lines for %d cases: %s' % (len(gen), len(cases), gerr[-500:])
            gen = None
    except RuntimeError as e:
        gen_err = 'generated code does not build: ' + str(e)[-1200:]
    if len(spec) != len(cases):
        res.violation({'what': 'spec driver failed', 'rc': rc2, 'stderr': serr[-1500:]}, no_input=True)
        return res.finish()
    close = lambda a, b: abs(a - b) <= Fraction(1, 10 ** 12) * max(1, abs(a))
    for idx, (c, l, s) in enumerate(zip(cases, cpp, spec)):
        evals += 1
        st = s.split()
        s_msa, s_si, s_sf, s_sl, ok = parse_q(st[0]), parse_q(st[1]), parse_q(st[2]), parse_q(st[3]), int(st[4])
        feasible_ctor = abs(Fraction(c[2], 8)) > 10 ** 7 or s_si > Fraction(-1, 1000)
        branch = ('exc' if l.startswith('EXC') else 'final_feasible' if s_sf >= 0 else 'den0' if s_si == s_sf else
                  'negative' if s_si < 0 else 'tight')
        hist[branch] = hist.get(branch, 0) + 1
        if l.startswith('EXC'):
            if feasible_ctor:
                d = case_dict(c)
                d.update({'what': 'TriConstraint threw an assertion on an input that satisfies assertFeasible', 'implementation': l,
                          'slackAtInitial': float(s_si), 'slackAtFinal': float(s_sf)})
                if step_viol < 3:
                    res.violation(d)
                step_viol += 1
            continue
        t = l.split()
        m, i_si, i_sf, i_sl = [hexq(x) for x in t[:4]]
        if len(samples) < 3 and branch == 'tight':
            d = case_dict(c); d.update({'maxSafeAlpha': float(m), 'slackAtInitial': float(i_si), 'slackAtFinal': float(i_sf)}); samples.append(d)
        if ok == 0:
            d = case_dict(c)
            d.update({'what': 'step rule violated by the implementation\'s maxSafeAlpha: from a feasible start it must be 1 when the target is feasible, '
                              'otherwise in [0,1) with the constraint exactly tight at that step (slack(alpha) = 0)',
                      'implementation_maxSafeAlpha': float(m), 'expected': float(s_msa), 'slackAtInitial': float(s_si), 'slackAtFinal': float(s_sf),
                      'slack_at_implementation_alpha': float(s_si + m * (s_sf - s_si))})
            if step_viol < 3:
                res.violation(d)
            step_viol += 1
            continue
        if not (close(m, s_msa) and i_si == s_si and i_sf == s_sf and i_sl == s_sl):
            d = case_dict(c)
            d.update({'what': 'compiled TriConstraint disagrees with the hand specification', 'implementation': l, 'spec': s})
            corr.append(d)
        if gen is not None:
            evals += 1
            gt = gen[idx].split()
            g_msa, g_si, g_sf, g_sl = [parse_q(x) for x in gt[:4]]
            if not (close(m, g_msa) and i_si == g_si and i_sf == g_sf and i_sl == g_sl) or gt[4] != '1':
                d = case_dict(c)
                d.update({'what': 'compiled TriConstraint disagrees with the generated Gallina (translator correspondence)', 'implementation': l, 'gen': gen[idx]})
                corr.append(d)
    if gen_err:
        corr.append({'what': gen_err})

    # ---------------------------------------------------------------- (V) topology-preserving layout runs
    nruns = 150 if tier == 'quick' else 800
    lay = {'runs': 0, 'skipped': 0, 'start_invalid': 0, 'checked_states': 0, 'checked_paths': 0, 'bends_after': 0, 'moved_nodes': 0,
           'wall_s': 0.0, 'params': [], 'rare_intersections': []}
    lay_viol = 0
    rare = []            # failures classified as the known rare finding (see FP below)
    runs = []
    corpus = os.path.join(C.VERIF, 'corpus', 'c13_cases.json')
    if os.path.exists(corpus):
        for cse in json.load(open(corpus)):
            runs.append((cse['seed'], cse['V'], cse['extra'], cse['W'], cse['border'], True))
    for r in range(nruns):
        seed = rng.next() >> 1
        V = rng.range(6, 24)
        runs.append((seed, V, rng.range(0, V // 2), rng.choice([150, 250, 400, 600]), '0.5' if r % 4 else '1e-5', False))
    for seed, V, extra, W, border, from_corpus in runs:
        args = [exe, 'layout', str(seed), str(V), str(extra), str(W), '0', border]
        rc, out, err, dt = C.sh(args, timeout=300)
        lay['runs'] += 1
        lay['wall_s'] += dt
        replay = ' '.join(['build/bin/c13_topo-*'] + args[1:])
        params = {'seed': seed, 'V': V, 'extra_edges': extra, 'W': W, 'overlap_removal_border': border}
        phases, exc, skip = convert_dump(out)
        if skip:
            lay['skipped'] += 1
            continue
        if rc != 0 and not exc:
            exc = 'harness crashed rc=%d %s' % (rc, err[-300:])
        names = [p['name'] for p in phases]
        if 'before' not in names:
            # failure before topology existed (unconstrained layout / routing): not this property's domain
            lay['skipped'] += 1
            continue
        din = 'EPS 1 -20\n' + '\n'.join('\n'.join(p['lines']) for p in phases) + '\n'
        rc4, lout, lerr, dt4 = C.sh([spec_exe, 'layout'], input=din, timeout=600)
        ll = [l.split() for l in lout.split('\n') if l]
        if len(ll) != len(phases):
            res.violation({'what': 'layout checker driver failed', 'stderr': lerr[-800:], 'replay': replay}, no_input=True)
            continue
        before = ll[0]
        if before[1] != '0' or any(x != '0' for x in before[2:]):
            lay['start_invalid'] += 1      # the generated start state itself is not in the property's domain
            continue
        evals += 1
        lay['checked_states'] += len(phases) - 1
        # first state (after an iteration) the verified checker rejects
        bad, bad_phase = [], None
        for k in range(1, len(phases)):
            row, pa = ll[k], phases[k]
            if row[1] != '0':
                bad.append({'kind': CODES[1]})
            for p, code in zip(pa['paths'], row[2:]):
                if code != '0':
                    bad.append({'kind': CODES[int(code)], 'code': int(code), 'edge': p['edge'], 'src': p['src'], 'dst': p['dst'], 'points_node_kind_x_y': p['points']})
            for p0, p1 in zip(phases[0]['paths'], pa['paths']):
                if (p0['src'], p0['dst']) != (p1['src'], p1['dst']) or p1['points'][0][0] != p0['points'][0][0] or p1['points'][-1][0] != p0['points'][-1][0]:
                    bad.append({'kind': 'edge no longer joins its original nodes', 'edge': p1['edge']})
            if bad:
                bad_phase = k
                break
        last_ok = phases[(bad_phase - 1) if bad_phase else (len(phases) - 1)]
        state = lambda ph: {'phase': ph['name'], 'nodes_x0y0x1y1': ph['nodes'], 'paths': ph['paths']}
        if exc or bad:
            obj = {'what': ('an invariant assertion of libtopology fired during topology-preserving layout; the state after the previous '
                            'iteration (last_valid_state) satisfies the verified checker' if exc and not bad else
                            'a state reached during topology-preserving layout is rejected by the verified checker'),
                   'assertion': exc, 'problems': bad[:4], 'rejected_state': state(phases[bad_phase]) if bad_phase else None,
                   'last_valid_state': state(last_ok), 'replay': replay, 'params': params}
            # classifier of the known rare finding: the failure is "a segment passes through a foreign node" (library assertion in
            # NoIntersection, topology_graph.cpp, or checker code 4) reached from a checker-valid previous state
            is_through = (exc is not None and 'topology_graph.cpp' in exc and not bad) or (bad and all(b.get('code') == 4 for b in bad))
            if is_through:
                rare.append(obj)
            else:
                if lay_viol < 3:
                    res.violation(obj)
                lay_viol += 1
            continue
        pa = phases[-1]
        lay['checked_paths'] += len(pa['paths'])
        lay['bends_after'] += sum(max(0, len(p['points']) - 2) for p in pa['paths'])
        lay['moved_nodes'] += sum(1 for a, b in zip(phases[0]['nodes'], pa['nodes']) if a != b)
        if len(lay['params']) < 4:
            lay['params'].append(dict(params, paths=len(pa['paths']), iterations=len(phases) - 2))
    # the rare finding has a base rate of about 1.3e-3 per run on the unchanged tree (8 of 6000); a systematic failure
    # (e.g. a wrong step length) shows up in a large fraction of the runs.  More than RARE_MAX classified runs is a violation.
    n_new = lay['runs'] - sum(1 for r_ in runs if r_[5])
    RARE_MAX = 2 + n_new // 150
    n_rare_new = sum(1 for o in rare if not any(o['params']['seed'] == r_[0] and r_[5] for r_ in runs))
    lay['rare_intersections'] = [dict(o['params'], assertion=o['assertion']) for o in rare][:8]
    for o in rare:
        if n_rare_new > RARE_MAX:
            if lay_viol < 3:
                o['what'] += ' (%d of %d runs: far above the rate of the known rare finding)' % (n_rare_new, n_new)
                res.violation(o)
            lay_viol += 1
        else:
            if res.violation(o, fingerprint='rare_segment_through_node'):
                lay_viol += 1
    lay['wall_s'] = round(lay['wall_s'], 1)
    # ---------------------------------------------------------------- (V) lattice-aligned / pinch / resize scene families
    scene_stats, scene_viol = run_scene_families(res, tier, rng.fork(), exe, spec_exe)
    lay_viol += scene_viol
    evals += scene_stats.get('checked_states', 0)
    res.cov.update({'scene_families': scene_stats})
    res.cov.update({
        'evaluations': evals,
        'distinct_nontrivial': hist.get('tight', 0) + hist.get('den0', 0) + hist.get('negative', 0) + lay['bends_after'],
        'rule': 'TriConstraint cases: non-trivial = final position infeasible (branches tight / denominator 0 / negative quotient); '
                'layout runs: non-trivial = bend points present after layout (each is a node corner an edge is wrapped round); scene families '
                '(lattice / pinch / resize, explicit scenes): every state after an operation or layout iteration is an evaluation',
        'exhaustive': False, 'samples': samples, 'traces_validated_against_impl': evals,
        'tri_branch_histogram': hist, 'layout_stats': lay,
        'step_rule_violations': step_viol, 'layout_violations': lay_viol,
        'correspondence_disagreements': corr[:5]})
    if step_viol == 0 and lay_viol == 0 and (not info['ok'] or corr):
        res.violation({'what': 'proof obligation or translator correspondence no longer checks; the step-rule decider on the implementation\'s values '
                               'and the layout runs found no input on which the property itself fails',
                       'broken_files': info.get('broken'), 'broken_lemmas': info.get('broken_lemmas'),
                       'unsupported': info.get('unsupported'), 'forbidden': info.get('forbidden'),
                       'correspondence_disagreements': corr[:5], 'coq_log_tail': info['log'][-3000:]}, no_input=True)
    return res.finish()


def replay(path):
    print(open(path).read())
    return 0


def warm():
    build_harness_retry('c13_topo', LIBS, 'exc')
    build_harness_retry('c13_topo', LIBS, 'ndebug')
    C.ocaml_build('c13spec', 'C13spec.v', 'c13_spec_driver.ml', 'c13_spec.ml')
    C.ocaml_build('c13gen', 'C13gen.v', 'c13_gen_driver.ml', 'c13_gen.ml')


META = {
    'property_id': PID,
    'level_claimed': {
        'category': 'proof',
        'text': 'Coq theorems over the Gallina definitions that tools/cpp2v.py regenerates from topology_constraints.cpp on every run '
                '(TriConstraint::slack, slackAtInitial, slackAtFinal, maxSafeAlpha; the Node position reads are mapped to record fields): '
                'slack at the positions interpolated by alpha is affine in alpha; from a feasible start, every step 0 <= alpha <= maxSafeAlpha '
                '(<= 1) keeps slack >= 0 and, when the target is infeasible, 0 <= maxSafeAlpha < 1 with slack exactly 0 there - for both leftOf '
                'orientations; the denominator==0 branch (returns 1) arises only from an already violated constraint; the "tiny negative rounded" '
                'branch returns a negative alpha (no move) and its COLA_ASSERT cannot fail; for the hand model of the min-alpha move of '
                'TopologyConstraints::solve() (alpha* = min(1, min_t maxSafeAlpha t), all nodes to initial + alpha*(final-initial) when alpha* > 0) '
                'every triangle constraint that held before a step holds after it, for any number of steps with arbitrary desired positions '
                '(C13_step, C13_steps_partial).  Loop level (Topology/MoveToModel.v, MoveTo.v: hand model of the solve loop of ColaTopologyAddon::moveTo - '
                'repeat { solve() = VPSC result, safe step, one topology event } while interrupted, at most N times, then read the rectangle centres back; the '
                'VPSC results and the constraint sets after the events are an arbitrary oracle, premise: the set installed by an event holds at the moved '
                'positions = assertFeasible() at the end of solve()): for EVERY budget N, also when it is exhausted, the returned coordinates are exactly the '
                'rectangle centres of the state reached by k safe steps (1 <= k <= max 1 N) and every constraint of that state holds '
                '(C13_moveTo_positions_are_last_safe_state, C13_moveTo_every_step_safe); moving the rectangles on to var->finalPosition after the loop is a '
                'no-op when the loop ended un-interrupted (C13_moveTo_teleport_noop_when_converged) and is refuted when the budget ran out '
                '(C13_moveTo_teleport_safe_refuted: budget 100, vm_compute witness; _moving: every iteration moves).  PARTIAL for the property as a whole: completeness of the scan-line constraint constructor and the '
                'bend split/merge surgery of satisfy() are not modelled; they are covered only by the verified checker run on real layout runs, '
                'which DOES find rare failures on the unchanged tree (known finding rare_segment_through_node) and, on lattice-aligned node sets, '
                'systematic failures at exact ties (known findings lattice_corridor_tie, rare_segment_through_node:end_node_neighbour).',
        'design_ref': 'DESIGN.md 5.13'},
    'level_note': 'Trusted: Coq kernel; cpp2v.py + clang JSON AST incl. the opaque-call mapping u->initialPos(scanDim) -> tc_u1 etc. (validated every run: compiled '
                  'TriConstraint objects built through the real constructor with real topology::Node / vpsc::Rectangle / vpsc::Variable objects vs extracted Gen vs '
                  'extracted hand spec on dyadic inputs covering all four branches; the step-rule decider is evaluated on the implementation\'s own values); '
                  'exact-rational model of binary64 (one division, compared to 1e-12); extraction and the OCaml/C++ drivers. The move of solve() is a hand model '
                  '(topology_constraints.cpp:330-384 is not translated: it walks object graphs). V-run: seedable variant of libtopology/tests/beautify.cpp, '
                  'library assertions enabled as exceptions, every state after an iteration checked by the extracted checker (seg_clear: separating-axis '
                  'test proved sound; node overlap; endpoints; bends on corners turning round their node) with tolerance 2^-20. A run in which a segment '
                  'ends up through a foreign node from a checker-valid previous state is classified as the known rare finding when at most 2 + runs/150 runs show it. '
                  'Scene families (checks/c13lib.py; harness mode `scenes`, every scene in a forked child): lattice-aligned pinch / random lattice / resize scenes '
                  'under random symmetries of the square, driven through ColaTopologyAddon::moveTo, ::handleResizes and ConstrainedFDLayout::run (PreIteration locks '
                  'and cola::Resize), in an assertion build (an assertion of the library is a violation with fingerprint assert:<file>:<expr>) and, for the failing '
                  'scenes, an NDEBUG build whose states go through the same extracted checker; known-finding classifiers are predicates on the state before the '
                  'failing operation / on the violated NDEBUG state, plus one rate-limited residual class (2 + scenes/300). '
                  'Drag family (scene op DRAG): ONE topology::TopologyConstraints instance kept alive over several solve loops with changing desired positions '
                  '(usage of libtopology/tests/simple_bend.cpp; every library caller builds a fresh instance per solve, where motion is linear): a node is dragged '
                  'into a straight edge / across two edges and back, lattice-aligned and generic coordinates, both axes; the checker judges the state after every '
                  'step, and whenever every node is back where the session started the paths must be the paths of the start (sound: strict start state, unique '
                  'taut path per homotopy class, one-axis motion of non-overlapping boxes has a convex configuration space). Failures of the generic-coordinate '
                  'drag scenes are never put in the residual class; they found rare_segment_through_node:end_node_shadow (classifier end_node_shadow: the node '
                  'crossed by an END segment was hidden behind that segment\'s own end node at both of its scan positions when the instance was constructed). '
                  'Comb family ("many events in one pass", DESIGN 9.17): 1-3 movers dragged in ONE ColaTopologyAddon::moveTo (scene op MOVE; the harness calls the '
                  'addon\'s public moveTo directly, and through ConstrainedFDLayout::run -> setPosition -> moveTo with Locks in the LAYOUT variant) across 20..80 '
                  'near-parallel edges / a fan out of one hub / alternating edge directions, generic coordinates, both axes; about two thirds of the scenes need '
                  'more topology events than the addon\'s budget of 100 solve() iterations. Tie of the loop model by observable behaviour: for EVERY MOVE op of every '
                  'family the harness prints an MI line - max |coords[] - rectangle centre| after the call, and the comparison of the state after the call (node '
                  'centres <= 1e-9 and (node, corner) paths) with every iteration of a reference loop (the library\'s own TopologyConstraints::solve() repeated, up '
                  'to 600 times, on a copy of the scene made before the call). The model predicts: coords == centres, the state IS a reference state (after k >= 1 '
                  'safe steps, whatever the budget), and the verified checker accepts it; a MOVE op that breaks one of these is a violation (codes 6; the budget '
                  'itself is not pinned: raising it to 1000 stays quiet). The iteration cap is a local of moveTo and not observable without a hook: it is inferred '
                  'as "the reference went on after the matching iteration" (unchanged tree: match at iteration 100). Extra sound oracle for MOVE (code 7): a node '
                  'whose extent in the fixed axis lies strictly between the end points of an edge that is straight before and after the op must not change sides. '
                  'check_phases judges a state identical to the previous state of the scene once.',
    'technique': 'Coq proof over cpp2v-regenerated Gallina + correspondence on dyadic/boundary inputs + verified checker on real layout runs',
}
