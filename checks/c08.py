"""C08 - libcola: overlap avoidance and cluster containment hold in the result (DESIGN 5.8).
proof: Coq theorems over the hand-written models Cola/NonOverlapModel.v (addShape/addCluster bookkeeping and the pair loop of
NonOverlapConstraints::generateSeparationConstraints) and Cola/ContainmentModel.v (ClusterContainmentConstraints);
tie C: the extracted models are compared exactly with the compiled classes driven directly on random rectangle sets, groups,
exemptions and clusters, and the solver-variable index layout of one dimension (Cola/VarLayoutModel.v: rectangles, cluster boundary
variables children-first, root pair, then the user constraints' variables; proofs in Cola/VarLayout.v) is compared by creator tag with
what setupVarsAndConstraints / recGenerateClusterVariablesAndConstraints really build (harness mode `vars`);
V: extracted checkers on makeFeasible()+run() results with overlap avoidance and cluster hierarchies, including the family
'clusters+cc' (hierarchies with padding/margins combined with user alignments / separations / distributions in both dimensions that
admit a non-overlapping layout - witnessed by construction) and the family 'fixedrect': clusters whose boundary is an existing rectangle
(RectangularCluster(rectIndex)): model gen_fixed_rect of RectangularCluster::generateFixedRectangleConstraints (cluster.cpp:300-329) in
ContainmentModel.v, theorems fixed_rect_cluster_sound / members_inside_fixed_rect (+ _eps, _2d, the refutation of the list without
the last equality) in Containment.v, fixed_rect_constraints_bind in VarLayout.v; tied by the `gen` correspondence (F lines: the idle
SeparationConstraints expanded per dimension) and the `vars` correspondence (F lines: the idle SeparationConstraints found among
ConstrainedFDLayout::extraConstraints, by creator tag); V: container rectangles with children pulled through each of the four walls
by short edges to outside nodes, nested variants, checked by the extracted members_inside_rectb (every member inside the container
rectangle inflated by the padding) plus the ordinary pair / member-box obligations (container vs. its own contents exempt).
Call sequences (seeded change C08-6, DESIGN 9.16): model Cola/NonOverlapExemptModel.v of NonOverlapConstraintExemptions (std::set<ShapePair>, smaller id
first) and of the two members ConstrainedFDLayout::setAvoidNodeOverlaps writes; theorems C08_exempt_after_calls (after ANY sequence of calls
shapePairIsExempt(a,b) <=> a != b and a group of the LAST call holds both), _sym, C08_options_after_calls, C08_obliged_pairs_after_calls,
C08_add_shape_uses_last_call, C08_exempt_set_sorted and the refutations for the variant without m_exempt_pairs.clear(); tie C (`exempt` harness mode):
after every call of a sequence shapePairIsExempt for every ordered pair + getExemptPairs() + the flag, object driven directly and through the layout
object - exhaustive for n = 3 (<= 2 groups, <= 2 calls) and n = 4 (single-group calls, <= 3 calls), random for larger n / ids up to 65535; V: family
'callseq' = 2-3 setAvoidNodeOverlaps calls with different group lists (disjoint / shrinking / growing / emptied / true-false-true / false first / off
last) before makeFeasible() and between makeFeasible() and run(), nodes piled up with short edges on every pair an earlier call exempted; the pair
obligation is obliged_pairs of the extracted model (exemptions in force = LAST call)."""
import os, json, math
from fractions import Fraction
from vlib import common as C

PID = 'C08'
GRID = 1 << 20
TOL = Fraction(1, 1000) + Fraction(4, GRID)


# ----------------------------------------------------------------------------------------------- correspondence cases
def gen_case(rng, stream):
    n = rng.range(2, 8)
    rects = []
    span = rng.choice([20, 60, 120])
    for i in range(n):
        w, h = rng.range(1, 12) * 32, rng.range(1, 12) * 32
        if stream == 'degenerate' and i > 0 and rng.chance(1, 3):
            # same centre as, or touching, or overlapping by 1/16 with an earlier rectangle
            p = rects[rng.below(i)]
            cx, cy = (p[0] + p[1]) // 2, (p[2] + p[3]) // 2
            k = rng.below(4)
            if k == 1:
                cx = p[1] + w // 2
            elif k == 2:
                cy = p[3] + h // 2 - 1
            elif k == 3:
                cx = p[0] - w // 2 + 1
        else:
            cx, cy = rng.range(0, span) * 16, rng.range(0, span) * 16
        rects.append([cx - w // 2, cx + w // 2, cy - h // 2, cy + h // 2])
    ncl = rng.choice([0, 0, 1, 2]) if stream != 'nodes' else 0
    cl_ids = [n + 2 * k for k in range(ncl)]
    groups = None if rng.chance(1, 4) else [[rng.below(n) for _ in range(rng.range(0, 4))] for _ in range(rng.range(0, 2))]
    ops = []
    order = rng.shuffle(list(range(n)))
    if stream == 'degenerate' and rng.chance(1, 4):
        order = order[:max(2, n - 1)]               # one rectangle never added
    for i in order:
        r = rects[i]
        hw, hh = (r[1] - r[0]) // 2, (r[3] - r[2]) // 2
        if rng.chance(1, 5):                        # half sizes need not match the bounding box (API allows it)
            hw, hh = rng.range(1, 12) * 16, rng.range(1, 12) * 16
        ex = [rng.below(n) for _ in range(rng.below(3))] if rng.chance(1, 4) else []
        ops.append([1, i, hw, hh, rng.choice([1, 1, 1, 2]), ex])
    cex = []
    for cid in cl_ids:
        bx, by = rng.range(0, span) * 16, rng.range(0, span) * 16
        b = [bx, bx + rng.range(1, 40) * 16, by, by + rng.range(1, 40) * 16]
        m = [rng.choice([0, 0, 16, 40, 8, -16]) for _ in range(4)]
        nodes = [rng.below(n) for _ in range(rng.range(0, 3))]
        ops.append([2, cid] + b + m + [rng.choice([1, 1, 2]), nodes])
        if rng.chance(1, 4):
            cex.append([cid, rng.below(n)])
        if rng.chance(1, 6) and len(cl_ids) == 2:
            cex.append([cl_ids[0], cl_ids[1]])
    nv = n + 2 * ncl + rng.below(3)
    if stream == 'degenerate' and ncl == 0 and rng.chance(1, 5):
        nv = rng.range(1, n)
    conts = []
    for _ in range(rng.choice([0, 1, 1, 2])):
        cv = n + 2 * rng.below(3)
        pad = [rng.choice([0, 0, 16, 24, 80, -8]) for _ in range(4)]
        mem = [rng.below(n) for _ in range(rng.range(0, 4))]
        ch = [[n + 6 + 2 * k] + [rng.choice([0, 16, 32, 8]) for _ in range(4)] for k in range(rng.below(3))]
        conts.append([cv, pad, mem, ch])
    # fixed-rectangle clusters: RectangularCluster(ri) with clusterVarId cv -> generateFixedRectangleConstraints
    fixed = [[n + 2 * rng.below(4) + rng.below(2), rng.below(n)] for _ in range(rng.choice([0, 1, 1, 2]))]
    return {'n': n, 'rects': rects, 'groups': groups, 'cex': cex, 'ops': ops, 'nv': nv, 'conts': conts, 'fixed': fixed, 'stream': stream}


def case_line(c):
    t = [c['n']] + [v for r in c['rects'] for v in r]
    if c['groups'] is None:
        t.append(-1)
    else:
        t.append(len(c['groups']))
        for g in c['groups']:
            t += [len(g)] + g
    t.append(len(c['cex']))
    for a, b in c['cex']:
        t += [a, b]
    t.append(len(c['ops']))
    for o in c['ops']:
        if o[0] == 1:
            t += o[:5] + [len(o[5])] + o[5]
        else:
            t += o[:11] + [len(o[11])] + o[11]
    t.append(c['nv'])
    t.append(len(c['conts']))
    for cv, pad, mem, ch in c['conts']:
        t += [cv] + pad + [len(mem)] + mem + [len(ch)] + [v for x in ch for v in x]
    fixed = c.get('fixed', [])                  # older corpus entries have no fixed-rectangle section
    t.append(len(fixed))
    for cv, ri in fixed:
        t += [cv, ri]
    return ' '.join(str(int(x)) for x in t)


def fr(tok):
    if '/' in tok:
        a, b = tok.split('/')
        return float(Fraction(int(a), int(b)))
    return float(tok)


def parse_cs(line):
    t = line.split()
    if len(t) < 2:
        return ('BAD', line)
    if t[1] != 'OK' or 'EXTRAVARS' in t:
        return (t[0], ' '.join(t[1:3]))
    m = int(t[2])
    p = 3
    cs = []
    for _ in range(m):
        eq = 0
        l, r, g = int(t[p]), int(t[p + 1]), fr(t[p + 2]); p += 3
        if p < len(t) and t[p] == 'EQ':
            eq = 1; p += 1
        cs.append((l, r, g, eq))
    return (t[0], 'OK', cs)


def run_restarting(exe, args, lines, timeout=1800):
    out, rest, errs = [], list(lines), ''
    while rest:
        rc, o, err, dt = C.sh([exe] + args, input='\n'.join(rest) + '\n', timeout=timeout)
        o = [l for l in o.split('\n') if l.strip()]
        errs = err
        if rc == 3 and o and o[-1].startswith('HANG'):
            out += o
            rest = rest[len(o):]
            continue
        out += o
        if rc != 0 or len(o) < len(rest):
            return rc if rc != 0 else 1, out, errs
        rest = []
    return 0, out, errs


def correspondence(rng, ncases, cpp, ml):
    cases = [gen_case(rng.fork(), ['mixed', 'nodes', 'degenerate', 'mixed'][i % 4]) for i in range(ncases)]
    for f in sorted(os.listdir(os.path.join(C.VERIF, 'corpus'))):
        if f.startswith('c08_gen_') and f.endswith('.json'):
            cases.insert(0, json.load(open(os.path.join(C.VERIF, 'corpus', f))))
    lines = [case_line(c) for c in cases]
    rc1, o1, e1, _ = C.sh([cpp, 'gen'], input='\n'.join(lines) + '\n', timeout=900)
    rc2, o2, e2, _ = C.sh([ml, 'gen'], input='\n'.join(lines) + '\n', timeout=900)
    o1 = [l for l in o1.split('\n') if l.strip()]
    o2 = [l for l in o2.split('\n') if l.strip()]
    expected = sum(2 * (1 + len(c['conts']) + len(c.get('fixed', []))) for c in cases)
    diffs, hist, samples, ntriv = [], {}, [], 0
    if rc1 != 0 or rc2 != 0 or len(o1) != expected or len(o2) != expected:
        diffs.append({'what': 'harness or model driver failed', 'rc_cpp': rc1, 'rc_model': rc2, 'stderr_cpp': e1[-1500:], 'stderr_model': e2[-1500:],
                      'lines_cpp': len(o1), 'lines_model': len(o2), 'expected_lines': expected})
        return cases, diffs, hist, ntriv, samples
    p = 0
    for i, c in enumerate(cases):
        k = 2 * (1 + len(c['conts']) + len(c.get('fixed', [])))
        for j in range(k):
            a, b = parse_cs(o1[p + j]), parse_cs(o2[p + j])
            kind = a[0] + ':' + a[1]
            hist[kind] = hist.get(kind, 0) + 1
            if a[1] == 'OK':
                # pair loop order is part of the model, but the property only needs the multiset
                a = (a[0], a[1], sorted(a[2]));
            if b[1] == 'OK':
                b = (b[0], b[1], sorted(b[2]))
            if a[1] == 'OK' and a[2]:
                ntriv += 1
            if a != b:
                diffs.append({'what': 'generated non-overlap / containment / fixed-rectangle constraints differ between the library and the model',
                              'case': c, 'output_line': j, 'implementation': o1[p + j], 'model': o2[p + j],
                              'replay': 'echo "%s" | <c08_no harness> gen' % lines[i]})
        if i < 3:
            samples.append({'input': lines[i], 'implementation': o1[p:p + k]})
        p += k
    return cases, diffs, hist, ntriv, samples


# ----------------------------------------------------------------------------------------------- variable layout (C)
def parse_vars_line(line):
    t = line.split()
    if not t or t[0] not in ('V', 'U', 'K', 'F') or len(t) < 2 or not t[1].lstrip('-').isdigit():
        return ('BAD', line.strip())
    m = int(t[1])
    if t[0] == 'V':
        return ('V', t[2:])                                   # exact order: it IS the index layout
    w = 4 if t[0] in ('U', 'F') else 3
    body = t[2:]
    if len(body) != w * m:
        return ('BAD', line.strip())
    rows = []
    for k in range(m):
        r = body[w * k:w * k + w]
        if w == 4 and not r[3].lstrip('-').isdigit():
            return ('BAD', line.strip())
        rows.append((r[0], r[1], fr(r[2])) + ((int(r[3]),) if w == 4 else ()))
    return (t[0], sorted(rows))


def varlayout_correspondence(cases, cpp, ml):
    """exact correspondence for the solver-variable index layout of one dimension (Cola/VarLayoutModel.v vs colafd.cpp
    setupVarsAndConstraints / recGenerateClusterVariablesAndConstraints / Cluster::createVars): who created each variable, and
    which variables (by creator) the user constraints, the stored-id cluster containment constraints and the equalities of
    fixed-rectangle clusters (generateFixedRectangleConstraints) end up on."""
    lines = [layout_line(c) for c in cases]
    stats = {'cases': len(cases), 'lines_compared': 0, 'hierarchy_and_cc_variables_in_both_dims': 0, 'disagreements': 0,
             'fixed_rect_constraints_compared': 0}
    NL = 8
    diffs = []
    if not cases:
        return diffs, stats
    rc1, o1, e1, _ = C.sh([cpp, 'vars'], input='\n'.join(lines) + '\n', timeout=900)
    rc2, o2, e2, _ = C.sh([ml, 'vars'], input='\n'.join(lines) + '\n', timeout=900)
    o1 = [l for l in o1.split('\n') if l.strip()]
    o2 = [l for l in o2.split('\n') if l.strip()]
    if rc1 != 0 or rc2 != 0 or len(o1) != NL * len(cases) or len(o2) != NL * len(cases):
        diffs.append({'what': 'variable-layout harness or model driver failed', 'rc_cpp': rc1, 'rc_model': rc2, 'stderr_cpp': e1[-1500:],
                      'stderr_model': e2[-1500:], 'lines_cpp': len(o1), 'lines_model': len(o2), 'expected_lines': NL * len(cases)})
        stats['disagreements'] = 1
        return diffs, stats
    for i, c in enumerate(cases):
        both = 0
        for j in range(NL):
            a, b = parse_vars_line(o1[NL * i + j]), parse_vars_line(o2[NL * i + j])
            stats['lines_compared'] += 1
            if a[0] == 'F':
                stats['fixed_rect_constraints_compared'] += len(a[1])
            if a[0] == 'V' and c['clusters'] and any(x.startswith('A') for x in a[1]):
                both += 1
            if a != b:
                diffs.append({'what': 'variable index layout / constraint endpoints / fixed-rectangle equalities differ between colafd.cpp '
                                      '(setupVarsAndConstraints, stored cluster variable ids, generateFixedRectangleConstraints) and the model '
                                      '(VarLayoutModel.v)', 'dim': 'XY'[j // 4], 'line': 'VUKF'[j % 4],
                              'implementation': o1[NL * i + j][:600], 'model': o2[NL * i + j][:600], 'case': c,
                              'replay': 'echo "%s" | <c08_no harness> vars' % lines[i]})
        if both == 2:
            stats['hierarchy_and_cc_variables_in_both_dims'] += 1
    stats['disagreements'] = len(diffs)
    return diffs, stats


# ----------------------------------------------------------------------------------------------- layouts (V)
def gen_layout(rng, idx):
    n = rng.range(3, 9)
    kind = ['overlapping', 'coincident', 'nested', 'spread', 'overlapping', 'clusters', 'clusters', 'clusters'][idx % 8]
    rects = []
    for i in range(n):
        w, h = rng.range(2, 14) * 32, rng.range(2, 14) * 32
        if kind == 'coincident':
            cx, cy = 800, 800
        elif kind == 'nested':
            cx, cy = 800 + rng.range(-2, 2) * 16, 800 + rng.range(-2, 2) * 16
            w, h = (i + 1) * 64, (i + 1) * 64
        elif kind == 'spread':
            cx, cy = rng.range(0, 300) * 16, rng.range(0, 300) * 16
        else:
            cx, cy = rng.range(0, 60) * 16, rng.range(0, 60) * 16
        rects.append([cx - w // 2, cx + w // 2, cy - h // 2, cy + h // 2])
    edges = []
    for v in range(1, n):
        if rng.chance(3, 4):
            edges.append([rng.below(v), v])
    for _ in range(rng.below(3)):
        a, b = rng.below(n), rng.below(n)
        if a != b:
            edges.append([a, b])
    groups = []
    if rng.chance(1, 3):
        groups.append(sorted(set(rng.below(n) for _ in range(rng.range(2, 3)))))
    clusters = []
    if kind == 'clusters':
        nodes = rng.shuffle(list(range(n)))
        ncl = rng.range(1, 3)
        for k in range(ncl):
            take = rng.range(1, max(1, len(nodes) // 2)) if nodes else 0
            mem, nodes = nodes[:take], nodes[take:]
            parent = -1
            if k > 0 and rng.chance(1, 3):
                parent = rng.below(k)
            pad = rng.choice([0, 0, 32, 80])
            mar = rng.choice([0, 0, 32, 80])
            if mem or parent == -1:
                clusters.append({'parent': parent, 'padding': [pad] * 4, 'margin': [mar] * 4, 'nodes': sorted(mem)})
        # parents must have valid indices after possible skips
        for k, cl in enumerate(clusters):
            if cl['parent'] >= k:
                cl['parent'] = -1
        clusters = [cl for cl in clusters if cl['nodes']]
        for k, cl in enumerate(clusters):
            if cl['parent'] >= len(clusters) or cl['parent'] >= k:
                cl['parent'] = -1
    ccs = []
    for _ in range(rng.below(3)):
        a, b = rng.below(n), rng.below(n)
        if a != b:
            a, b = min(a, b), max(a, b)
            ccs.append({'code': 1, 'd': rng.below(2), 'l': a, 'r': b, 'g': rng.range(0, 40) * 16, 'e': False})
    if rng.chance(1, 4) and n >= 3:
        a = rng.below(n); b = (a + 1 + rng.below(n - 1)) % n
        ccs.append({'code': 3, 'd': rng.below(2), 'pos': 0, 'fixed': False, 'sh': [[a, 0], [b, 0]]})
    return {'n': n, 'rects': rects, 'groups': groups, 'clusters': clusters, 'ccs': ccs, 'edges': edges,
            'ideal': rng.choice([40, 60, 100]) * 16, 'mode': 0, 'kind': kind}


def cluster_witness(c, rng=None):
    """a non-overlapping layout consistent with the cluster hierarchy (padding, margins): every cluster lays its items (own nodes
    and child clusters) out on a uniform grid, nodes centred in their cells.  Returns node -> (wx, wy) in units of 1/16 (integers).
    It is the witness that the user constraints derived from it (gen_cluster_cc) admit a non-overlapping layout."""
    n, cls = c['n'], c['clusters']
    size = [((r[1] - r[0]), (r[3] - r[2])) for r in c['rects']]
    inside = set(v for cl in cls for v in cl['nodes'])
    root_nodes = [v for v in range(n) if v not in inside]

    def lay(nodes, kids, pad):
        items = [('n', v) for v in nodes] + [('c', k) for k in kids]
        if rng is not None:
            items = rng.shuffle(items)
        sub = {}
        ext = []
        for t, x in items:
            if t == 'n':
                ext.append(size[x])
            else:
                sub[x] = lay(cls[x]['nodes'], [j for j, cl in enumerate(cls) if cl['parent'] == x], cls[x]['padding'][0])
                m = cls[x]['margin'][0]
                ext.append((sub[x][0] + 2 * m, sub[x][1] + 2 * m))
        gap = 64
        cw = max([e[0] for e in ext] + [32]) + gap
        ch = max([e[1] for e in ext] + [32]) + gap
        cw += cw % 32; ch += ch % 32
        cw += (32 - cw % 32) % 32; ch += (32 - ch % 32) % 32
        ncols = 1
        while ncols * ncols < len(items):
            ncols += 1
        pos = {}
        for i, (t, x) in enumerate(items):
            cx, cy = pad + (i % ncols) * cw + cw // 2, pad + (i // ncols) * ch + ch // 2
            if t == 'n':
                pos[x] = (cx, cy)
            else:
                W, H, sp = sub[x]
                for v, (px, py) in sp.items():
                    pos[v] = (cx - W // 2 + px, cy - H // 2 + py)
        nrows = (len(items) + ncols - 1) // ncols
        W, H = 2 * pad + ncols * cw, 2 * pad + max(1, nrows) * ch
        W += W % 2; H += H % 2
        return W, H, pos
    W, H, pos = lay(root_nodes, [j for j, cl in enumerate(cls) if cl['parent'] == -1], 0)
    return pos


def gen_cluster_cc(rng, idx):
    """family 'clusters+cc' (the property's quantifier: cluster hierarchies with padding/margins COMBINED with user constraints that
    admit a non-overlapping layout): sibling / nested rectangular clusters plus root-level nodes, and user alignments (with and
    without offsets), separations, distributions and multi-separations in BOTH dimensions, all derived from a witness layout
    (cluster_witness) that is non-overlapping and respects the hierarchy - so the constraints admit such a layout."""
    n = rng.range(6, 11)
    shape = rng.choice(['siblings', 'siblings', 'nested', 'siblings+nested', 'three'])
    nodes = rng.shuffle(list(range(n)))
    if rng.chance(1, 2):
        nodes = list(range(n))                   # clusters own the low ids (as in typical client code)
    def take(k):
        nonlocal nodes
        k = min(k, max(0, len(nodes) - 2))      # keep at least two root-level nodes
        t, nodes = nodes[:k], nodes[k:]
        return sorted(t)
    def box():
        v = rng.choice([0, 32, 80, 80, 160])
        return [v] * 4
    clusters = []
    ntop = {'siblings': 2, 'nested': 1, 'siblings+nested': 2, 'three': 3}[shape]
    for k in range(ntop):
        clusters.append({'parent': -1, 'padding': box(), 'margin': box(), 'nodes': take(rng.range(1, 3))})
    if shape in ('nested', 'siblings+nested'):
        clusters.append({'parent': 0, 'padding': box(), 'margin': box(), 'nodes': take(rng.range(1, 2))})
        if rng.chance(1, 3):
            clusters.append({'parent': rng.choice([0, len(clusters) - 1]), 'padding': box(), 'margin': box(), 'nodes': take(rng.range(1, 2))})
    # a cluster without nodes and without a child that has nodes is dropped (keeping parent indices valid: only trailing ones)
    while clusters and not clusters[-1]['nodes']:
        clusters.pop()
    for cl in clusters:
        if not cl['nodes'] and not any(c2['parent'] == clusters.index(cl) for c2 in clusters):
            cl['nodes'] = take(1)
    rects = []
    for i in range(n):
        w, h = rng.range(2, 10) * 32, rng.range(2, 10) * 32
        rects.append([0, w, 0, h])
    c = {'n': n, 'rects': rects, 'groups': [], 'clusters': clusters, 'kind': 'clusters+cc', 'shape': shape}
    wit = cluster_witness(c, rng)
    W = [wit[v] for v in range(n)]
    # ---- user constraints that hold on the witness
    ccs = []
    kinds = []
    aligns = {0: [], 1: []}                 # (position in ccs, witness line position)
    def add_alignment(d, grp, zero):
        base = W[grp[0]][d]
        sh = [[v, 0 if zero else W[v][d] - base] for v in grp]
        aligns[d].append((len(ccs), base))
        ccs.append({'code': 3, 'd': d, 'pos': 0, 'fixed': False, 'sh': sh})
    want = rng.range(2, 6)
    both = rng.chance(4, 5)                 # variables in both dimensions (most cases)
    for t in range(want):
        d = t % 2 if both and t < 2 else rng.below(2)
        k = rng.choice(['align0', 'align0', 'alignoff', 'sep', 'sep', 'dist', 'msep', 'asep'])
        if t < 2 and both:
            k = rng.choice(['align0', 'align0', 'alignoff'])
        if k == 'align0':
            # nodes sharing the witness coordinate in d (same grid row / column)
            byc = {}
            for v in range(n):
                byc.setdefault(W[v][d], []).append(v)
            cands = [g for g in byc.values() if len(g) >= 2]
            if cands:
                g = rng.shuffle(rng.choice(cands))[:rng.range(2, 3)]
                add_alignment(d, sorted(g), True); kinds.append(k)
            else:
                add_alignment(d, [rng.below(n)], True); kinds.append('align1')
        elif k == 'alignoff':
            a = rng.below(n); b = (a + 1 + rng.below(n - 1)) % n
            add_alignment(d, [a, b], False); kinds.append(k)
        elif k == 'sep':
            a = rng.below(n); b = (a + 1 + rng.below(n - 1)) % n
            if W[a][d] > W[b][d]:
                a, b = b, a
            diff = (W[b][d] - W[a][d]) // 16
            ccs.append({'code': 1, 'd': d, 'l': a, 'r': b, 'g': rng.range(0, diff) * 16, 'e': False}); kinds.append(k)
        elif k in ('dist', 'msep', 'asep'):
            # alignments on (up to) three equally spaced witness lines: single-node alignments on grid columns / rows
            lines = sorted(set(W[v][d] for v in range(n)))
            trip = [(p, q, r) for p in lines for q in lines for r in lines if p < q < r and q - p == r - q]
            if k == 'dist' and trip:
                p, q, r = rng.choice(trip)
                ids = []
                for x in (p, q, r):
                    add_alignment(d, [rng.choice([v for v in range(n) if W[v][d] == x])], True); ids.append(len(ccs) - 1)
                ccs.append({'code': 5, 'd': d, 'sep': q - p, 'prs': [[ids[0], ids[1]], [ids[1], ids[2]]]}); kinds.append(k)
            elif len(lines) >= 2:
                p, q = sorted(rng.shuffle(lines)[:2])
                ids = []
                for x in (p, q):
                    add_alignment(d, [rng.choice([v for v in range(n) if W[v][d] == x])], True); ids.append(len(ccs) - 1)
                g = rng.range(0, (q - p) // 16) * 16
                if k == 'asep':
                    ccs.append({'code': 2, 'd': d, 'la': ids[0], 'ra': ids[1], 'g': g, 'e': False})
                else:
                    ccs.append({'code': 6, 'd': d, 'sep': g, 'e': False, 'prs': [[ids[0], ids[1]]]})
                kinds.append(k)
    # ---- initial placement
    start = rng.choice(['piled', 'piled', 'witness-jitter', 'random'])
    for i in range(n):
        w, h = rects[i][1], rects[i][3]
        if start == 'piled':
            cx, cy = rng.range(-10, 10) * 16, rng.range(-10, 10) * 16
        elif start == 'witness-jitter':
            cx, cy = W[i][0] + rng.range(-20, 20) * 16, W[i][1] + rng.range(-20, 20) * 16
        else:
            cx, cy = rng.range(0, 80) * 16, rng.range(0, 80) * 16
        rects[i] = [cx - w // 2, cx + w // 2, cy - h // 2, cy + h // 2]
    edges = []
    for v in range(1, n):
        if rng.chance(4, 5):
            edges.append([rng.below(v), v])
    for _ in range(rng.below(4)):
        a, b = rng.below(n), rng.below(n)
        if a != b:
            edges.append([a, b])
    c.update({'ccs': ccs, 'edges': edges, 'ideal': rng.choice([30, 40, 60, 100]) * 16, 'mode': 0, 'start': start, 'cc_kinds': kinds,
              'witness_centres_16ths': W})
    return c


def gen_fixedrect(rng, idx):
    """family 'fixedrect': a cluster whose boundary is an existing rectangle (RectangularCluster(rectIndex), cluster.cpp:224): the
    container rectangle with 1-3 children inside it, 1-3 outside nodes on ONE side of the container (left / right / above / below in
    turn, scenes also transposed), every outside node joined to a child by an edge with a SHORT ideal length, so the child is pulled
    towards the outside node through the container wall.  Variants: the fixed-rectangle cluster directly under the root, inside a
    plain cluster, with a plain cluster inside it, and a fixed-rectangle cluster inside a fixed-rectangle cluster; with and without
    padding / margins.  Client protocol as in cola/libcola/tests/rectclustershapecontainment.cpp: the container rectangle is not
    added as a child node of anything (RectangularCluster::countContainedNodes counts it)."""
    side = idx % 4                                         # 0 min-X, 1 max-X, 2 min-Y, 3 max-Y
    variant = ['plain', 'plain', 'in_plain', 'plain_inside', 'fixed_in_fixed'][(idx // 4) % 5]
    pad = rng.choice([0, 0, 80, 160])
    big = variant == 'fixed_in_fixed'
    W, H = rng.range(12, 16) * 256 if big else rng.range(8, 14) * 256, rng.range(12, 16) * 256 if big else rng.range(8, 14) * 256
    cx0, cy0 = rng.range(-20, 20) * 16, rng.range(-20, 20) * 16
    rects = [[cx0 - W // 2, cx0 + W // 2, cy0 - H // 2, cy0 + H // 2]]
    box = (cx0, cy0, W, H)                                  # where the children start
    clusters = [{'parent': -1, 'rect': 0, 'padding': [pad] * 4, 'margin': [rng.choice([0, 0, 80])] * 4, 'nodes': []}]
    fx = 0                                                  # cluster that owns the children
    if variant == 'fixed_in_fixed':
        w2, h2 = rng.range(5, 7) * 256, rng.range(5, 7) * 256
        ix, iy = cx0 + rng.range(-8, 8) * 16, cy0 + rng.range(-8, 8) * 16
        rects.append([ix - w2 // 2, ix + w2 // 2, iy - h2 // 2, iy + h2 // 2])
        clusters.append({'parent': 0, 'rect': 1, 'padding': [rng.choice([0, 80])] * 4, 'margin': [rng.choice([0, 80])] * 4, 'nodes': []})
        fx = 1
        box = (ix, iy, w2, h2)
    start = rng.choice(['inside', 'inside', 'inside', 'wall'])
    nch = rng.range(1, 3)
    children = []
    for _ in range(nch):
        w, h = rng.range(1, 3) * 160, rng.range(1, 3) * 160
        bx, by, bw, bh = box
        rx, ry = max(0, (bw - w) // 2 - pad - 16) // 16, max(0, (bh - h) // 2 - pad - 16) // 16
        cx, cy = bx + rng.range(-rx, rx) * 16, by + rng.range(-ry, ry) * 16
        if start == 'wall' and rng.chance(1, 2):
            # starts across the wall of the side the outside nodes are on
            if side < 2:
                cx = bx + (bw // 2) * (1 if side == 1 else -1)
            else:
                cy = by + (bh // 2) * (1 if side == 3 else -1)
        children.append(len(rects))
        rects.append([cx - w // 2, cx + w // 2, cy - h // 2, cy + h // 2])
    nout = rng.range(1, 3)
    outside = []
    for i in range(nout):
        w, h = rng.range(1, 3) * 160, rng.range(1, 3) * 160
        ch = rects[children[i % nch]]
        gap = rng.choice([0, 160, 160, 640])
        jit = rng.range(-2, 2) * 80
        if side < 2:
            cy = (ch[2] + ch[3]) // 2 + jit
            cx = cx0 - W // 2 - w // 2 - gap if side == 0 else cx0 + W // 2 + w // 2 + gap
        else:
            cx = (ch[0] + ch[1]) // 2 + jit
            cy = cy0 - H // 2 - h // 2 - gap if side == 2 else cy0 + H // 2 + h // 2 + gap
        outside.append(len(rects))
        rects.append([cx - w // 2, cx + w // 2, cy - h // 2, cy + h // 2])
    clusters[fx]['nodes'] = sorted(children)
    if variant == 'fixed_in_fixed' and rng.chance(1, 2):
        # the outer container gets a child of its own, next to the inner container
        w, h = 160, 160
        v = len(rects)
        rects.append([cx0 - W // 2 + 32, cx0 - W // 2 + 32 + w, cy0 - H // 2 + 32, cy0 - H // 2 + 32 + h])
        clusters[0]['nodes'] = [v]
    if variant == 'plain_inside':
        # a plain cluster inside the fixed-rectangle cluster takes (some of) the children
        k = rng.range(1, nch)
        inner = sorted(rng.shuffle(list(children))[:k])
        clusters[0]['nodes'] = sorted(set(children) - set(inner))
        clusters.append({'parent': 0, 'rect': -1, 'padding': [rng.choice([0, 32, 80])] * 4, 'margin': [rng.choice([0, 32, 80])] * 4, 'nodes': inner})
    if variant == 'in_plain':
        # the fixed-rectangle cluster lives inside a plain cluster, together with one more node; the outside nodes are root level
        # nodes or (sometimes) siblings of the container inside the plain cluster
        v = len(rects)
        w, h = rng.range(1, 3) * 160, rng.range(1, 3) * 160
        rects.append([cx0 - W // 2 - w - 64, cx0 - W // 2 - 64, cy0 - h // 2, cy0 + h // 2] if side != 0 else
                     [cx0 + W // 2 + 64, cx0 + W // 2 + 64 + w, cy0 - h // 2, cy0 + h // 2])
        mem = [v] + (outside if rng.chance(1, 3) else [])
        clusters = [{'parent': -1, 'rect': -1, 'padding': [rng.choice([0, 32, 80])] * 4, 'margin': [rng.choice([0, 32, 80])] * 4, 'nodes': sorted(mem)},
                    dict(clusters[0], parent=0)]
    edges = [[children[i % nch], o] for i, o in enumerate(outside)]
    if nch > 1 and rng.chance(1, 3):
        edges.append([children[0], children[1]])
    transposed = rng.chance(1, 2)
    if transposed:
        rects = [[r[2], r[3], r[0], r[1]] for r in rects]
        side = [2, 3, 0, 1][side]
    return {'n': len(rects), 'rects': rects, 'groups': [], 'clusters': clusters, 'ccs': [], 'edges': edges,
            'ideal': rng.choice([160, 160, 320]), 'mode': 0, 'kind': 'fixedrect', 'variant': variant,
            'side': ['min-X', 'max-X', 'min-Y', 'max-Y'][side], 'transposed': transposed, 'start': start, 'pad': pad}


def gen_callseq(rng, idx):
    """family 'callseq' (seeded change C08-6): setAvoidNodeOverlaps is called 2-3 times on ONE layout object with different group lists
    before makeFeasible() and / or between makeFeasible() and run().  Nodes start piled up and every edge has an ideal length far below
    the node sizes, so two nodes stay apart only if a non-overlap constraint is generated for the pair; every pair that some EARLIER
    call exempted is joined by an edge (the bait).  The exemptions in force - and the pair obligation of the checker - are those of the
    LAST call (obliged_pairs of the extracted model, C08_obliged_pairs_after_calls)."""
    n = rng.range(4, 8)
    shape = ['disjoint', 'shrink', 'grow', 'to_empty', 'off_on', 'three', 'false_first', 'off_last', 'disjoint', 'shrink'][idx % 10]
    when = ['before', 'before', 'between', 'before', 'split'][(idx // 10) % 5]
    nodes = rng.shuffle(list(range(n)))
    A = sorted(nodes[:rng.range(2, 3)])
    B = sorted(nodes[len(A):len(A) + rng.range(2, 3)])[:max(2, n - len(A))]
    T, F = True, False
    if shape == 'disjoint':
        seq = [(T, [A]), (T, [B])]
    elif shape == 'shrink':
        big = sorted(set(A + B[:1]))
        seq = [(T, [big]), (T, [big[1:]] if rng.chance(1, 2) else [big[:-1]])]
    elif shape == 'grow':
        seq = [(T, [A]), (T, [sorted(A + B[:1])] if rng.chance(1, 2) else [A, B])]
    elif shape == 'to_empty':
        seq = [(T, [A] if rng.chance(1, 2) else [A, B]), (T, [])]
    elif shape == 'off_on':
        seq = [(T, [A]), (F, [] if rng.chance(1, 2) else [A]), (T, [B] if rng.chance(1, 2) else [])]
    elif shape == 'three':
        seq = [(T, [A]), (T, [B]), (T, [[A[0], B[0]]] if rng.chance(1, 2) else [A[:1] + B[1:]])]
    elif shape == 'false_first':
        seq = [(F, [A]), (T, [B])]
    else:
        seq = [(T, [A]), (F, [A] if rng.chance(1, 2) else [B])]
    if rng.chance(1, 5):
        seq = [(av, [rng.shuffle(g + g[:1]) for g in gs]) for av, gs in seq]      # unsorted groups with a duplicate id
    calls = []
    for k, (av, gs) in enumerate(seq):
        last = k == len(seq) - 1
        phase = 0 if when == 'before' else (1 if (when == 'between' and k > 0) or (when == 'split' and last) else 0)
        calls.append({'phase': phase, 'avoid': av, 'groups': gs})
    stale = sorted(set((min(a, b), max(a, b)) for _, gs in seq[:-1] for g in gs for a in g for b in g if a != b
                       and not declared_exempt(seq[-1][1], a, b)))
    rects = []
    start = rng.choice(['coincident', 'piled', 'piled', 'row'])
    for i in range(n):
        w, h = rng.range(4, 12) * 32, rng.range(4, 12) * 32
        if start == 'coincident':
            cx, cy = 1600, 1600
        elif start == 'piled':
            cx, cy = 1600 + rng.range(-6, 6) * 16, 1600 + rng.range(-6, 6) * 16
        else:
            cx, cy = 1600 + i * 480, 1600 + rng.range(-3, 3) * 16
        rects.append([cx - w // 2, cx + w // 2, cy - h // 2, cy + h // 2])
    edges = [list(p) for p in stale]
    for v in range(1, n):
        e = [rng.below(v), v]
        if e not in edges:
            edges.append(e)
    last_av, last_gs = seq[-1]
    return {'n': n, 'rects': rects, 'groups': [sorted(set(g)) for g in last_gs] if last_av else [], 'clusters': [], 'ccs': [], 'edges': edges,
            'ideal': rng.choice([16, 32, 64, 128]), 'mode': 0, 'kind': 'callseq', 'shape': shape, 'when': when, 'start': start,
            'calls': calls, 'stale_pairs': [list(p) for p in stale]}


def model_obligations(cases, ml):
    """pair obligations of the call-sequence cases from the extracted model: obliged_pairs (after_calls calls) n"""
    idx = [i for i, c in enumerate(cases) if 'calls' in c]
    if not idx:
        return {}, None
    lines = [' '.join(str(int(x)) for x in [cases[i]['n']] + calls_tokens(cases[i]['calls'])) for i in idx]
    rc, o, e, _ = C.sh([ml, 'oblige'], input='\n'.join(lines) + '\n', timeout=300)
    o = [l for l in o.split('\n') if l.strip()]
    if rc != 0 or len(o) != len(idx):
        return {}, {'what': 'extracted obligation model failed to run', 'rc': rc, 'stderr': e[-1500:], 'machinery': True}
    out = {}
    for i, l in zip(idx, o):
        t = [int(x) for x in l.split()]
        out[i] = [(t[1 + 2 * k], t[2 + 2 * k]) for k in range(t[0])]
    return out, None


def layout_line(c):
    t = [c['n']] + [v for r in c['rects'] for v in r]
    t.append(len(c['groups']))
    for g in c['groups']:
        t += [len(g)] + g
    t.append(len(c['clusters']))
    for cl in c['clusters']:
        t += [cl['parent'], cl.get('rect', -1)] + cl['padding'] + cl['margin'] + [len(cl['nodes'])] + cl['nodes']
    t.append(len(c['ccs']))
    for cc in c['ccs']:
        if cc['code'] == 1:
            t += [1, cc['d'], cc['l'], cc['r'], cc['g'], int(cc['e'])]
        elif cc['code'] == 2:
            t += [2, cc['d'], cc['la'], cc['ra'], cc['g'], int(cc['e'])]
        elif cc['code'] == 5:
            t += [5, cc['d'], cc['sep'], len(cc['prs'])] + [v for ab in cc['prs'] for v in ab]
        elif cc['code'] == 6:
            t += [6, cc['d'], cc['sep'], int(cc['e']), len(cc['prs'])] + [v for ab in cc['prs'] for v in ab]
        else:
            t += [3, cc['d'], cc['pos'], int(cc['fixed']), len(cc['sh'])] + [v for so in cc['sh'] for v in so]
    t += [len(c['edges'])] + [v for e in c['edges'] for v in e] + [c['ideal'], c['mode']]
    if 'calls' in c:                            # family callseq: the complete list of setAvoidNodeOverlaps calls (replaces the default call)
        t.append(len(c['calls']))
        for cl in c['calls']:
            t += [cl['phase'], int(cl['avoid']), len(cl['groups'])]
            for g in cl['groups']:
                t += [len(g)] + g
    return ' '.join(str(int(x)) for x in t)


# ----------------------------------------------------------------------------------------------- call sequences (C08-6, DESIGN 9.16)
def calls_tokens(calls):
    t = [len(calls)]
    for cl in calls:
        t += [int(cl['avoid']), len(cl['groups'])]
        for g in cl['groups']:
            t += [len(g)] + g
    return t


def exempt_line(universe, calls):
    return ' '.join(str(int(x)) for x in [len(universe)] + list(universe) + calls_tokens(calls))


def declared_exempt(groups, a, b):
    """the declarative right-hand side of C08_exempt_after_calls (independent of the model; used to word the report)"""
    return a != b and any(a in g and b in g for g in groups)


def gen_exempt_cases(rng, nrandom):
    """(universe, calls) for the `exempt` correspondence.  Exhaustive: n = 3 with every list of <= 2 groups (groups = all 8 subsets
    of {0,1,2}) in every sequence of <= 2 calls (5403 sequences); n = 4 with single-group calls (16 subsets) in every sequence of
    <= 3 calls (4368).  Random: larger n, unsorted groups with duplicates, 1-4 calls shaped growing / shrinking / disjoint / same /
    emptied / arbitrary, ids up to 65535 (ShapePair stores unsigned short)."""
    cases = []
    sub3 = [[v for v in range(3) if m >> v & 1] for m in range(8)]
    lists3 = [[]] + [[g] for g in sub3] + [[g, h] for g in sub3 for h in sub3]
    k = 0
    for seq in [[]] + [[a] for a in lists3] + [[a, b] for a in lists3 for b in lists3]:
        cases.append(([0, 1, 2], [{'avoid': (k + i) % 3 != 0, 'groups': gs} for i, gs in enumerate(seq)], 'exhaustive3')); k += 1
    sub4 = [[v for v in range(4) if m >> v & 1] for m in range(16)]
    for seq in [[a] for a in sub4] + [[a, b] for a in sub4 for b in sub4] + [[a, b, c] for a in sub4 for b in sub4 for c in sub4]:
        cases.append(([0, 1, 2, 3], [{'avoid': (k + i) % 3 != 0, 'groups': [g]} for i, g in enumerate(seq)], 'exhaustive4')); k += 1
    for i in range(nrandom):
        r = rng.fork()
        big = i % 10 == 9
        n = r.range(2, 12) if not big else r.range(2, 6)
        ids = list(range(n)) if not big else sorted(set([r.choice([0, 1, 255, 256, 65534, 65535, r.below(65536)]) for _ in range(n)] + [0, 65535]))
        if i % 7 == 3:
            ids = list(range(r.range(13, 40)))
        def group():
            k = r.range(0, min(5, len(ids)))
            g = [r.choice(ids) for _ in range(k)]
            if g and r.chance(1, 3):
                g.append(r.choice(g))               # duplicate id
            return g
        def glist():
            return [group() for _ in range(r.choice([0, 1, 1, 2, 3]))]
        shape = ['arbitrary', 'growing', 'shrinking', 'disjoint', 'same', 'emptied', 'off_on'][i % 7]
        ncalls = r.range(2, 4) if shape != 'arbitrary' else r.range(1, 4)
        seq = [glist() or [group()]]
        for _ in range(ncalls - 1):
            prev = seq[-1]
            if shape == 'growing':
                seq.append([g + [r.choice(ids)] for g in prev] + [group()])
            elif shape == 'shrinking':
                seq.append([g[:max(0, len(g) - 1)] for g in prev][:max(1, len(prev) - r.below(2))])
            elif shape == 'disjoint':
                used = set(v for g in prev for v in g)
                rest = [v for v in ids if v not in used]
                seq.append([[r.choice(rest) for _ in range(r.range(2, 4))]] if rest else [[]])
            elif shape == 'same':
                seq.append([list(g) for g in prev])
            else:
                seq.append(glist())
        if shape == 'emptied':
            seq[-1] = []
        calls = [{'avoid': True, 'groups': gs} for gs in seq]
        if shape == 'off_on' and len(calls) >= 2:
            calls[-2]['avoid'] = False
        if shape == 'arbitrary':
            for cl in calls:
                cl['avoid'] = r.chance(2, 3)
        extra = [r.choice(ids) for _ in range(2)]
        universe = sorted(set(v for gs in seq for g in gs for v in g) | set(extra))[:14]
        cases.append((universe, calls, shape))
    return cases


def exempt_correspondence(rng, nrandom, cpp, ml):
    """tie for NonOverlapExemptModel.v: after every call of a sequence, shapePairIsExempt for every ordered pair of distinct ids and
    the stored set (getExemptPairs() in iteration order), for the exemption object driven directly and for the layout object driven
    through setAvoidNodeOverlaps (with its m_generateNonOverlapConstraints flag) - compared exactly with the extracted model.  The
    model answers are, by C08_exempt_after_calls / C08_options_after_calls, those of the LAST call."""
    cases = gen_exempt_cases(rng, nrandom)
    for f in sorted(os.listdir(os.path.join(C.VERIF, 'corpus'))):
        if f.startswith('c08_exempt_') and f.endswith('.json'):
            e = json.load(open(os.path.join(C.VERIF, 'corpus', f)))
            cases.insert(0, (e['universe'], e['calls'], 'corpus'))
    lines = [exempt_line(u, calls) for u, calls, _ in cases]
    stats = {'sequences': len(cases), 'by_shape': {}, 'calls': 0, 'pair_answers_compared': 0, 'exempt_answers': 0, 'disagreements': 0,
             'exhaustive': 'n=3: every list of <=2 groups over all 8 subsets, every sequence of <=2 calls (5403); n=4: single-group calls '
                           'over all 16 subsets, every sequence of <=3 calls (4368)'}
    viols = []
    inp = '\n'.join(lines) + '\n'
    rc1, o1, e1, _ = C.sh([cpp, 'exempt'], input=inp, timeout=900)
    rc2, o2, e2, _ = C.sh([ml, 'exempt'], input=inp, timeout=900)
    o1 = [l for l in o1.split('\n') if l.strip()]
    o2 = [l for l in o2.split('\n') if l.strip()]
    if rc1 != 0 or rc2 != 0 or len(o1) != 2 * len(cases) or len(o2) != 2 * len(cases):
        viols.append({'what': 'exemption harness or model driver failed', 'rc_cpp': rc1, 'rc_model': rc2, 'stderr_cpp': e1[-1500:],
                      'stderr_model': e2[-1500:], 'lines_cpp': len(o1), 'lines_model': len(o2), 'expected_lines': 2 * len(cases), 'machinery': True})
        stats['disagreements'] = 1
        return viols, stats
    bad = []
    for i, (u, calls, shape) in enumerate(cases):
        stats['by_shape'][shape] = stats['by_shape'].get(shape, 0) + 1
        stats['calls'] += len(calls)
        stats['pair_answers_compared'] += 2 * len(calls) * len(u) * (len(u) - 1)
        stats['exempt_answers'] += sum(seg.split(' b')[-1].count('1') for seg in o1[2 * i].split(' C')[1:])
        if o1[2 * i] != o2[2 * i] or o1[2 * i + 1] != o2[2 * i + 1]:
            bad.append(i)
    stats['disagreements'] = len(bad)
    if bad:
        bad.sort(key=lambda i: (len(lines[i]), i))
        rep = bad[:2]
        # diagnosis: does the implementation behave like the model WITHOUT m_exempt_pairs.clear()?
        rc3, o3, _, _ = C.sh([ml, 'exempt-noclear'], input='\n'.join(lines[i] for i in rep) + '\n', timeout=300)
        o3 = [l for l in o3.split('\n') if l.strip()]
        for r, i in enumerate(rep):
            u, calls, shape = cases[i]
            which = 0 if o1[2 * i] != o2[2 * i] else 1
            a, b = o1[2 * i + which], o2[2 * i + which]
            # first call and pair whose answer differs, worded with the declarative condition
            detail = None
            sa, sb = a.split(' C')[1:], b.split(' C')[1:]
            prs = [(x, y) for x in u for y in u if x != y]
            for k, (xa, xb) in enumerate(zip(sa, sb)):
                ba, bb = xa.split(' b')[-1].strip(), xb.split(' b')[-1].strip()
                for m, (p, q) in enumerate(zip(ba, bb)):
                    if p != q and detail is None:
                        x, y = prs[m]
                        detail = {'after_call_number': k + 1, 'pair': [x, y], 'shapePairIsExempt_implementation': p == '1',
                                  'declared_exempt_by_that_call': declared_exempt(calls[k]['groups'], x, y),
                                  'groups_of_that_call': calls[k]['groups'], 'earlier_calls': [cl['groups'] for cl in calls[:k]]}
                if detail is None and xa != xb:
                    detail = {'after_call_number': k + 1, 'stored_set_or_flag_differs': True}
            v = {'what': 'after a sequence of setAvoidNodeOverlaps / addExemptGroupOfNodes calls the exemption set in force is not that of the '
                         'LAST call (C08_exempt_after_calls): shapePairIsExempt / getExemptPairs() / the non-overlap flag differ from the proved model',
                 'object': 'NonOverlapConstraintExemptions driven directly' if which == 0 else 'ConstrainedFDLayout::setAvoidNodeOverlaps',
                 'universe': u, 'calls': calls, 'first_difference': detail, 'implementation': a[:400], 'model': b[:400], 'shape': shape,
                 'disagreeing_sequences': len(bad), 'replay': 'echo "%s" | <c08_no harness> exempt' % lines[i]}
            if rc3 == 0 and len(o3) == 2 * len(rep):
                v['implementation_equals_model_without_clear'] = (o3[2 * r] == o1[2 * i] and o3[2 * r + 1] == o1[2 * i + 1])
            viols.append(v)
    return viols, stats


def parse_layout(line, n):
    t = line.split()
    if not t or t[0] != 'R':
        return None
    p = 1
    R = []
    for i in range(n):
        R.append([float(x) for x in t[p:p + 4]]); p += 4
    out = {'R': R, 'UX': [], 'UY': [], 'EXC': None}
    while p < len(t):
        if t[p] in ('UX', 'UY'):
            k = int(t[p + 1]); out[t[p]] = [int(x) for x in t[p + 2:p + 2 + k]]; p += 2 + k
        elif t[p] == 'EXC':
            out['EXC'] = ' '.join(t[p + 1:]); break
        else:
            p += 1
    return out


def descendants(c, k):
    """all nodes inside cluster k: its own, those of its descendant clusters, and the container rectangles of descendant
    fixed-rectangle clusters (a fixed-rectangle cluster is a shape of its parent's level, colafd.cpp:505-511); NOT k's own
    container rectangle"""
    s = set(c['clusters'][k]['nodes'])
    for j, cl in enumerate(c['clusters']):
        if cl['parent'] == k:
            s |= descendants(c, j)
            if cl.get('rect', -1) >= 0:
                s.add(cl['rect'])
    return s


def containers_around(c, k):
    """container rectangles of cluster k and of its ancestors (fixed-rectangle clusters only)"""
    out = set()
    while k >= 0:
        if c['clusters'][k].get('rect', -1) >= 0:
            out.add(c['clusters'][k]['rect'])
        k = c['clusters'][k]['parent']
    return out


def stale_bounds_clusters(c):
    """plain clusters below a fixed-rectangle cluster: RectangularCluster::computeBoundingRect (cluster.cpp:436-447) takes the
    container rectangle for a fixed-rectangle cluster and does not descend, so the `bounds` of every cluster below it are never
    computed (they stay the invalid default Rectangle) and the non-overlap pair loop, which tests and orders cluster pairs by their
    bounds, generates nothing for them (KNOWN_FINDINGS fixedrect_child_cluster_bounds_stale)"""
    out = []
    for k, cl in enumerate(c['clusters']):
        p, under = cl['parent'], False
        while p >= 0:
            under = under or c['clusters'][p].get('rect', -1) >= 0
            p = c['clusters'][p]['parent']
        if under and cl.get('rect', -1) < 0:
            out.append(k)
    return out


def stale_bounds_explains(c, kind, a, b):
    """classifier for the known finding: the failing obligation is one that only the non-overlap constraint between a stale-bounds
    cluster P and an item of P's own level (a node of P's parent, or a sibling cluster of P with what is inside it) would enforce.
    kind 'pair': nodes a, b; 'siblings': clusters a, b; 'foreign-node': cluster a, node b.  Escapes from a container rectangle and
    overlaps with anything outside P's parent are never explained by it."""
    stale = stale_bounds_clusters(c)
    if kind == 'siblings':
        return a in stale or b in stale
    for P in stale:
        inP = descendants(c, P)
        level = descendants(c, c['clusters'][P]['parent'])
        if kind == 'foreign-node':
            if a == P and b in level and b not in inP:
                return True
        else:
            for x, y in ((a, b), (b, a)):
                if x in inP and y not in inP and y in level:
                    return True
    return False


def fixed_obligations(c):
    """fixed-rectangle clusters: (container rectangle, padding, everything that must lie inside it)"""
    out = []
    for k, cl in enumerate(c['clusters']):
        if cl.get('rect', -1) >= 0:
            out.append((k, cl['rect'], [max(0, p) for p in cl['padding']], sorted(descendants(c, k) - {cl['rect']})))
    return out


def obligations(c):
    """what C08 demands of the result: (node pairs that must not overlap, box pairs whose member boxes must be disjoint)"""
    n = c['n']
    exempt = set()
    for g in c['groups']:
        g = sorted(set(g))
        for i in range(len(g)):
            for j in range(i + 1, len(g)):
                exempt.add((g[i], g[j]))
    ncl = len(c['clusters'])
    desc = [descendants(c, k) for k in range(ncl)]
    # a container rectangle and what lies inside it overlap by design ("container")
    for k, cl in enumerate(c['clusters']):
        r = cl.get('rect', -1)
        if r >= 0:
            for v in desc[k]:
                if v != r:
                    exempt.add((min(r, v), max(r, v)))
    pairs = [(i, j) for i in range(n) for j in range(i + 1, n) if (i, j) not in exempt]
    boxes = []
    for a in range(ncl):
        for b in range(a + 1, ncl):
            if c['clusters'][a]['parent'] == c['clusters'][b]['parent'] and desc[a] and desc[b]:
                boxes.append(('siblings', a, b, sorted(desc[a]), sorted(desc[b])))
    for a in range(ncl):
        for v in range(n):
            if v not in desc[a] and desc[a] and v not in containers_around(c, a):
                boxes.append(('foreign-node', a, v, sorted(desc[a]), [v]))
    return pairs, boxes


def layouts(rng, ncases, cpp, ml, ncc=0, nfix=0, nseq=0):
    cases = [gen_layout(rng.fork(), i) for i in range(ncases)]
    rr = rng.fork()
    cases += [gen_cluster_cc(rr.fork(), i) for i in range(ncc)]
    rf = rng.fork()
    off = rf.below(20)                          # so that every (side, variant) combination meets different sizes over the seeds
    cases += [gen_fixedrect(rf.fork(), off + i) for i in range(nfix)]
    rs = rng.fork()
    off = rs.below(50)
    cases += [gen_callseq(rs.fork(), off + i) for i in range(nseq)]
    for f in sorted(os.listdir(os.path.join(C.VERIF, 'corpus'))):
        if f.startswith('c08_layout_') and f.endswith('.json'):
            cases.insert(0, json.load(open(os.path.join(C.VERIF, 'corpus', f))))
    lines = [layout_line(c) for c in cases]
    rc, out, err = run_restarting(cpp, ['layout', '8'], lines)
    stats = {'layouts': 0, 'in_domain': 0, 'reported_unsat_skipped': 0, 'hangs': 0, 'exceptions': 0, 'pairs_checked': 0, 'boxes_checked': 0,
             'fixed_rect_clusters_checked': 0, 'by_kind': {}, 'with_clusters': 0}
    viols = []
    if rc != 0 or len(out) < len(cases):
        done = len(out)
        bad = cases[done] if done < len(cases) else None
        viols.append({'what': 'layout harness crashed (signal/abort) on this case', 'rc': rc, 'case': bad, 'stderr': err[-1500:],
                      'replay': 'echo "%s" | <c08_no harness> layout' % (lines[done] if bad else '')})
        cases = cases[:done]
    chk, idx, obl = [], [], []
    mobl, mfail = model_obligations(cases, ml)
    if mfail:
        viols.append(mfail)
    for i, c in enumerate(cases):
        stats['layouts'] += 1
        stats['by_kind'][c['kind']] = stats['by_kind'].get(c['kind'], 0) + 1
        if out[i].startswith('HANG'):
            stats['hangs'] += 1
            phase = out[i].split()[1] if len(out[i].split()) > 1 else '?'
            v = {'what': 'layout call did not return within the CPU-time limit (8 s) - non-termination in ' + phase, 'phase': phase, 'case': c,
                 'replay': 'echo "%s" | <c08_no harness> layout 8' % lines[i]}
            if phase == 'makeFeasible':
                v['fingerprint'] = 'makefeasible_hang_unsat_nonoverlap'
            viols.append(v)
            continue
        r = parse_layout(out[i], c['n'])
        if r is None:
            viols.append({'what': 'unparsable harness output', 'case': c, 'output': out[i][:300], 'machinery': True}); continue
        if r['EXC']:
            stats['exceptions'] += 1
            viols.append({'what': 'layout threw', 'exception': r['EXC'], 'case': c, 'replay': 'echo "%s" | <c08_no harness> layout' % lines[i]})
            continue
        if r['UX'] or r['UY']:
            stats['reported_unsat_skipped'] += 1          # outside the property's domain
            continue
        if not all(math.isfinite(x) for q in r['R'] for x in q) or max(abs(x) for q in r['R'] for x in q[:2]) > 2.0 ** 40:
            viols.append({'what': 'non-finite or absurd coordinate', 'result': r['R'], 'case': c}); continue
        stats['in_domain'] += 1
        if c['clusters']:
            stats['with_clusters'] += 1
        if c['kind'] == 'clusters+cc':
            fam = stats.setdefault('clusters_cc_family', {'in_domain': 0, 'by_shape': {}, 'by_start': {}, 'by_constraint_kind': {},
                                                          'alignment_variables_in_both_dims': 0})
            fam['in_domain'] += 1
            fam['by_shape'][c['shape']] = fam['by_shape'].get(c['shape'], 0) + 1
            fam['by_start'][c['start']] = fam['by_start'].get(c['start'], 0) + 1
            for k in c['cc_kinds']:
                fam['by_constraint_kind'][k] = fam['by_constraint_kind'].get(k, 0) + 1
            if all(any(cc['code'] == 3 and cc['d'] == d for cc in c['ccs']) for d in (0, 1)):
                fam['alignment_variables_in_both_dims'] += 1
        if c['kind'] == 'fixedrect':
            fam = stats.setdefault('fixedrect_family', {'in_domain': 0, 'by_side': {}, 'by_variant': {}, 'transposed': 0, 'with_padding': 0,
                                                        'child_starts_across_wall': 0})
            fam['in_domain'] += 1
            for key, f in (('by_side', 'side'), ('by_variant', 'variant')):
                fam[key][c.get(f, '?')] = fam[key].get(c.get(f, '?'), 0) + 1
            fam['transposed'] += 1 if c.get('transposed') else 0
            fam['with_padding'] += 1 if c.get('pad') else 0
            fam['child_starts_across_wall'] += 1 if c.get('start') == 'wall' else 0
        pairs, boxes = obligations(c)
        if 'calls' in c:
            # the exemptions in force are those of the LAST setAvoidNodeOverlaps call: pair list from the extracted, proved model
            if i not in mobl:
                continue
            pairs = mobl[i]
            fam = stats.setdefault('callseq_family', {'in_domain': 0, 'by_shape': {}, 'by_when': {}, 'pairs_exempt_only_in_an_earlier_call': 0,
                                                      'last_call_switches_avoidance_off': 0})
            fam['in_domain'] += 1
            fam['by_shape'][c.get('shape', '?')] = fam['by_shape'].get(c.get('shape', '?'), 0) + 1
            fam['by_when'][c.get('when', '?')] = fam['by_when'].get(c.get('when', '?'), 0) + 1
            fam['pairs_exempt_only_in_an_earlier_call'] += len([p for p in c.get('stale_pairs', []) if tuple(p) in set(pairs)])
            fam['last_call_switches_avoidance_off'] += 0 if c['calls'][-1]['avoid'] else 1
        fixed = fixed_obligations(c)
        t = [TOL.numerator, TOL.denominator, GRID, c['n']]
        for q in r['R']:
            cx, cy, w, h = q
            t += [int(round((cx - w / 2) * GRID)), int(round((cx + w / 2) * GRID)), int(round((cy - h / 2) * GRID)), int(round((cy + h / 2) * GRID))]
        t.append(len(pairs))
        for a, b in pairs:
            t += [a, b]
        t.append(len(boxes))
        for _, _, _, A, B in boxes:
            t += [len(A)] + A + [len(B)] + B
        t.append(len(fixed))
        for _, ci, pd, mem in fixed:
            t += [ci] + [p * (GRID // 16) for p in pd] + [len(mem)] + mem
        chk.append(' '.join(str(x) for x in t)); idx.append(i); obl.append((pairs, boxes, r, fixed))
    if chk:
        rc2, o2, e2, _ = C.sh([ml, 'check'], input='\n'.join(chk) + '\n', timeout=900)
        o2 = [l for l in o2.split('\n') if l.strip()]
        if rc2 != 0 or len(o2) != len(chk):
            viols.append({'what': 'extracted checker failed to run', 'rc': rc2, 'stderr': e2[-1500:], 'machinery': True})
        else:
            for k, i in enumerate(idx):
                c = cases[i]
                pairs, boxes, r, fixed = obl[k]
                parts = o2[k].split()
                pb, bb, fb = parts[0][1:], parts[1][1:], parts[2][1:]
                stats['pairs_checked'] += len(pairs)
                stats['boxes_checked'] += len(boxes)
                stats['fixed_rect_clusters_checked'] += len(fixed)
                for m, (kc, ci, pd, mem) in enumerate(fixed):
                    if m >= len(fb) or fb[m] != '1':
                        viols.append({'what': 'a member of a fixed-rectangle cluster (RectangularCluster(rectIndex)) is not inside the container rectangle '
                                              '(inflated by the padding, tolerance 1e-3) after makeFeasible()+run(), nothing reported unsatisfiable',
                                      'cluster': kc, 'container_rectangle': ci, 'padding_16ths': pd, 'members': mem,
                                      'final_container': r['R'][ci], 'final_members': [r['R'][v] for v in mem], 'final_all': r['R'], 'case': c,
                                      'replay': 'echo "%s" | <c08_no harness> layout' % lines[i]})
                        break
                # per case: the first failing obligation that the known finding does not explain, else the first explained one
                badp = [(a, b) for m, (a, b) in enumerate(pairs) if m >= len(pb) or pb[m] != '1']
                badp.sort(key=lambda ab: stale_bounds_explains(c, 'pair', ab[0], ab[1]))
                for a, b in badp[:1]:
                    v = {'what': 'two non-exempt node rectangles overlap by more than 1e-3 in both dimensions after makeFeasible()+run(), nothing reported unsatisfiable',
                         'nodes': [a, b], 'final': [r['R'][a], r['R'][b]], 'final_all': r['R'], 'case': c,
                         'replay': 'echo "%s" | <c08_no harness> layout' % lines[i]}
                    if 'calls' in c:
                        v['setAvoidNodeOverlaps_calls'] = c['calls']
                        v['exempt_in_an_earlier_call_only'] = [a, b] in c.get('stale_pairs', [])
                        v['what'] += ' (exemptions in force = those of the LAST of %d setAvoidNodeOverlaps calls)' % len(c['calls'])
                    if stale_bounds_explains(c, 'pair', a, b):
                        v['fingerprint'] = 'fixedrect_child_cluster_bounds_stale'
                    viols.append(v)
                badb = [bx for m, bx in enumerate(boxes) if m >= len(bb) or bb[m] != '1']
                badb.sort(key=lambda bx: stale_bounds_explains(c, bx[0], bx[1], bx[2]))
                for bx in badb[:1]:
                    v = {'what': ('member bounding boxes of two sibling clusters overlap' if bx[0] == 'siblings' else
                                  'a node lies inside the member bounding box of a cluster it does not belong to') + ' (by more than 1e-3 in both dimensions)',
                         'kind': bx[0], 'cluster': bx[1], 'other': bx[2], 'members': bx[3], 'other_members': bx[4],
                         'final_all': r['R'], 'case': c, 'replay': 'echo "%s" | <c08_no harness> layout' % lines[i]}
                    if stale_bounds_explains(c, bx[0], bx[1], bx[2]):
                        v['fingerprint'] = 'fixedrect_child_cluster_bounds_stale'
                    viols.append(v)
    return cases, viols, stats


def run(tier):
    res = C.Result(PID, tier, 'proof')
    rng = C.SplitMix64(C.get_seed() ^ 0xC08)
    info = C.prove(res, PID)
    res.assumptions = [
        'vpsc::Rectangle borders are 0 (their value outside makeFeasible); binary64 arithmetic exact on the dyadic inputs of the correspondence',
        'the hypothesis of nonoverlap_step_preserved ("the new coordinates satisfy the generated constraints to 1e-10") is property C01 for the projection',
        'makeFeasible() establishing Sep initially and the descent never flagging a non-overlap constraint are validated on real runs only; '
        'V-domain: nothing reported unsatisfiable (as the property says)',
        'V-runs: final rectangles rounded to 2^-20; checker tolerance 1e-3 + 4*2^-20',
        'family clusters+cc: the user constraints are derived from a grid witness layout (cluster_witness) that is non-overlapping and respects '
        'the hierarchy with its padding and margins, so they admit a non-overlapping layout; runs that report a constraint unsatisfiable are '
        'outside the domain as everywhere',
        'variable layout correspondence: the cluster tree handed to the model is built by the OCaml driver from the parent indices in the order '
        'of addChildCluster calls; variables are identified by object identity in the harness (Cluster::vXMin.., AlignmentConstraint::variable)',
        'family fixedrect: client protocol of cola/libcola/tests/rectclustershapecontainment.cpp (the container rectangle is not added as a '
        'child node of any cluster); a container rectangle and everything inside its cluster are exempt from the pair obligation, the '
        'container is not a foreign node for its own cluster or for clusters nested in it, the container rectangles of nested fixed-rectangle '
        'clusters count as members of the enclosing clusters; members_inside_fixed_rect needs the solver to satisfy the generated '
        'equalities (C01) - validated on the real result by members_inside_rectb (tolerance as above); known HEAD defect '
        'fixedrect_child_cluster_bounds_stale (KNOWN_FINDINGS.txt) is classified by a predicate, escapes from a container are never '
        'attributed to it',
        'family callseq: the exemptions and the flag in force at makeFeasible() / run() are those of the LAST setAvoidNodeOverlaps call made before '
        'it; the pair obligation is checked on the final result against the last call of the whole sequence (a call between makeFeasible() and '
        'run() that withdraws an exemption obliges run() to separate the pair - C08_step_establishes; observed to hold on HEAD); node ids < 65536 '
        '(ShapePair stores unsigned short)']
    cpp = C.build_harness('c08_no', ['libcola', 'libvpsc'], 'exc')
    ml = C.ocaml_build('c08model', 'C08model.v', 'c08_driver.ml', 'c08_model.ml')
    ncorr = 1500 if tier == 'quick' else 12000
    nlay = 400 if tier == 'quick' else 3000
    ncc = 250 if tier == 'quick' else 2000
    nfix = 400 if tier == 'quick' else 3000
    cases, diffs, hist, ntriv, samples = correspondence(rng.fork(), ncorr, cpp, ml)
    nseq = 300 if tier == 'quick' else 2500
    lcases, viols, stats = layouts(rng.fork(), nlay, cpp, ml, ncc=ncc, nfix=nfix, nseq=nseq)
    eviols, estats = exempt_correspondence(rng.fork(), 700 if tier == 'quick' else 6000, cpp, ml)
    real_lay = [v for v in viols if not v.get('machinery')]
    viols = real_lay[:6] + eviols + real_lay[6:] + [v for v in viols if v.get('machinery')]
    vdiffs, vstats = varlayout_correspondence([c for c in lcases if c.get('kind') in ('clusters', 'clusters+cc', 'fixedrect') or c.get('ccs')
                                               or c.get('clusters')], cpp, ml)
    diffs = diffs + vdiffs
    real = 0
    for v in viols:
        if v.get('machinery'):
            continue
        if vdiffs and (v.get('case') or {}).get('clusters'):
            d0 = vdiffs[0]
            v['see_also_variable_layout_disagreement'] = {'count': len(vdiffs), 'first': {k: d0.get(k) for k in ('dim', 'line', 'implementation', 'model', 'replay')}}
        fp = v.pop('fingerprint', None)
        if res.violation(v, fingerprint=fp):
            real += 1
        if len(res.violations) >= 8:
            break
    machinery = [v for v in viols if v.get('machinery')]
    if real == 0 and (not info['ok'] or diffs or machinery):
        res.violation({'what': 'proof obligation or generator correspondence no longer checks; the verified checkers found no overlap / containment '
                               'failure on %d real layouts in the domain' % stats['in_domain'],
                       'broken_files': info.get('broken'), 'broken_lemmas': info.get('broken_lemmas'), 'forbidden': info.get('forbidden'),
                       'correspondence_disagreements': diffs[:3], 'machinery': machinery[:2], 'coq_log_tail': info['log'][-2500:]},
                      no_input=True)
    res.cov.update({
        'evaluations': sum(hist.values()) + stats['pairs_checked'] + stats['boxes_checked'],
        'distinct_nontrivial': ntriv + stats['in_domain'],
        'rule': 'correspondence: generated lists that are non-empty; V: layouts in the domain (nothing reported unsatisfiable, returned normally)',
        'exhaustive': False, 'samples': samples,
        'traces_validated_against_impl': sum(hist.values()) + vstats['lines_compared'] + 2 * estats['sequences'],
        'correspondence': {'cases': len(cases), 'lists_compared': sum(hist.values()), 'disagreements': len(diffs), 'histogram': hist},
        'variable_layout_correspondence': vstats,
        'exemption_call_sequence_correspondence': estats,
        'layout_validation': stats})
    return res.finish()


def replay(path):
    obj = json.load(open(path))
    print(json.dumps(obj, indent=1)[:6000])
    case = obj.get('case')
    if case and 'replay' in obj:
        cpp = C.build_harness('c08_no', ['libcola', 'libvpsc'], 'exc')
        layout = 'layout' in obj['replay']
        rc, out, err, dt = C.sh([cpp, 'layout' if layout else 'gen', '8'], input=(layout_line(case) if layout else case_line(case)) + '\n', timeout=120)
        print('--- implementation now:\n' + out)
        return 0
    if 'calls' in obj and 'universe' in obj:
        cpp = C.build_harness('c08_no', ['libcola', 'libvpsc'], 'exc')
        rc, out, err, dt = C.sh([cpp, 'exempt'], input=exempt_line(obj['universe'], obj['calls']) + '\n', timeout=120)
        print('--- implementation now:\n' + out)
    return 0


def warm():
    C.build_harness('c08_no', ['libcola', 'libvpsc'], 'exc')
    C.ocaml_build('c08model', 'C08model.v', 'c08_driver.ml', 'c08_model.ml')


META = {
    'property_id': PID,
    'level_claimed': {
        'category': 'proof',
        'text': 'Coq theorems over hand-written Gallina models of NonOverlapConstraints (addShape/addCluster bookkeeping, the pair loop of '
                'generateSeparationConstraints incl. the cluster variant) and ClusterContainmentConstraints, compared exactly with the compiled classes on '
                'every run: a projection onto the constraints generated from the current rectangles (satisfied to 1e-10) leaves every listed pair '
                'separated by >= -0.0005 in x or y, hence that is an invariant of any sequence of projections in any axis order and excludes overlaps '
                '> 1e-3 in both dimensions; containment constraints <-> member inside the padded cluster box; containment + generated cluster/cluster '
                '(node/cluster) separation => sibling member boxes disjoint / non-member outside; fixed-rectangle clusters '
                '(RectangularCluster(rectIndex)): the generated equalities <-> the cluster box IS the container rectangle '
                '(C08_fixed_rect_cluster_sound), hence with the containment constraints every member inflated by the padding lies inside the '
                'container rectangle (C08_members_inside_fixed_rect, _eps, _2d), which fails without the last equality '
                '(C08_fixed_rect_weak_max_refuted); the equalities bind the cluster\'s own boundary variables and the rectangle\'s variable in '
                'the run-time variable list (C08_fixed_rect_constraints_bind). PARTIAL: makeFeasible() establishing the invariant, '
                'the solver satisfying the constraints (C01) without flagging any, and the existence of a separating constraint for every sibling '
                'cluster pair in the final layout are validated on real makeFeasible()+run() results by extracted checkers proved equivalent to the '
                'declarative conditions. Variable index layout: the cluster variable ids stored in the containment constraints point at that cluster\'s '
                'own boundary variables in the variable list built before every projection, for any user constraints in either dimension '
                '(C08_stored_id_points_at_cluster; model tied by the `vars` correspondence). Repeated setAvoidNodeOverlaps() calls: after ANY '
                'sequence of calls the exempt pairs are exactly the distinct pairs sharing a group of the LAST call and the flag is the last '
                'one (C08_exempt_after_calls, _sym, C08_options_after_calls, C08_obliged_pairs_after_calls, C08_add_shape_uses_last_call; '
                'refuted for the variant without clear(): C08_exempt_after_calls_noclear_refuted, C08_obliged_pairs_noclear_refuted), model '
                'tied by the `exempt` correspondence (exhaustive small n + random), V-family callseq checks real layouts against the model\'s '
                'pair obligation.',
        'design_ref': 'DESIGN.md 5.8'},
    'level_note': 'Trusted: Coq kernel; hand-written models NonOverlapModel.v / ContainmentModel.v / VarLayoutModel.v (tie = exact comparison of generated constraint multisets - non-overlap, containment, fixed-rectangle equalities - with '
                  'the compiled code on random dyadic rectangle sets, groups, exemptions, clusters, every run; NonOverlapExemptModel.v: exact comparison of every '
                  'shapePairIsExempt answer and the stored set after every call of a sequence); extraction, OCaml/C++/Python drivers; '
                  'Rectangle borders 0; exact-rational model of binary64. No axioms. Domain of the V-run as in the property: nothing reported unsatisfiable.',
    'technique': 'Coq proof over hand-written models + exact generator correspondence + extracted verified checkers on real layouts',
}
