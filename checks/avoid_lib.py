"""Shared machinery of the libavoid routing checks C03 / C04 / C06 (DESIGN 5.3, 5.4, 5.6):
scene and history generators, the script protocol of harness/c03_route.cpp, the query protocol of the
extracted model driver extract/c03_driver.ml, exact integer geometry for generation-time filtering.
Not a check itself (mkmanifest / warm only look at cNN.py)."""
import os, math
from fractions import Fraction as F
from vlib import common as C

PICO = 10 ** 12


# ------------------------------------------------------------------------------------------ exact helpers (ints / Fractions)
def cross(o, a, b):
    return (a[0] - o[0]) * (b[1] - o[1]) - (a[1] - o[1]) * (b[0] - o[0])


def edges(P):
    n = len(P)
    return [(P[i - 1], P[i]) for i in range(n)]


def inside_strict(P, q):
    return all(cross(a, b, q) > 0 for a, b in edges(P))


def inside_closed(P, q):
    return all(cross(a, b, q) >= 0 for a, b in edges(P))


def convex_ccw(P):
    if len(P) < 3:
        return False
    for a, b in edges(P):
        for q in P:
            if q != a and q != b and cross(a, b, q) <= 0:
                return False
    return True


def through_interior(P, u, v):
    """some point of the open segment uv is strictly inside the convex polygon P (Cyrus-Beck, exact)"""
    lo, hi = F(0), F(1)
    dx, dy = v[0] - u[0], v[1] - u[1]
    for a, b in edges(P):
        c0 = cross(a, b, u)
        c1 = (b[0] - a[0]) * dy - dx * (b[1] - a[1])
        if c1 > 0:
            lo = max(lo, F(-c0, c1))
        elif c1 < 0:
            hi = min(hi, F(-c0, c1))
        elif c0 <= 0:
            return False
        if lo >= hi:
            return False
    return lo < hi


def proper_cross(a, b, c, d):
    return cross(a, b, c) * cross(a, b, d) < 0 and cross(c, d, a) * cross(c, d, b) < 0


def degenerate_chord(P, a, b):
    """Python twin of SegPolyModel.degenerate_chord (used only to steer generators; classification of a failing
    case is done by the extracted Coq predicate)"""
    if inside_strict(P, a) or inside_strict(P, b):
        return False
    if any(proper_cross(a, b, s1, s2) for s1, s2 in edges(P)):
        return False
    return through_interior(P, a, b)


def scene_has_degenerate_chord(polys, points):
    """is there a pair of graph vertices (corners of different shapes, or free points) whose segment is a degenerate
    chord of some shape?  The generic-position streams reject such scenes (DESIGN 3.5)."""
    verts = [(p, None) for p in points]
    for i, P in enumerate(polys):
        verts += [(p, i) for p in P]
    n = len(verts)
    for j, P in enumerate(polys):
        xs = [p[0] for p in P]; ys = [p[1] for p in P]
        bx0, bx1, by0, by1 = min(xs), max(xs), min(ys), max(ys)
        for a in range(n):
            u, ou = verts[a]
            for b in range(a + 1, n):
                v, ov = verts[b]
                if ou == j and ov == j:
                    continue
                if max(u[0], v[0]) < bx0 or min(u[0], v[0]) > bx1 or max(u[1], v[1]) < by0 or min(u[1], v[1]) > by1:
                    continue
                # necessary: the line uv passes through a vertex of P, or u / v lies on P's boundary
                if not any(cross(u, v, w) == 0 for w in P):
                    if not ((inside_closed(P, u) and not inside_strict(P, u)) or (inside_closed(P, v) and not inside_strict(P, v))):
                        continue
                if degenerate_chord(P, u, v):
                    return True
    return False


# ------------------------------------------------------------------------------------------ generators
def box_sep(a, b, gap):
    return a[2] + gap <= b[0] or b[2] + gap <= a[0] or a[3] + gap <= b[1] or b[3] + gap <= a[1]


def poly_in_box(rng, b, kinds=None):
    """a strictly convex polygon with integer vertices inside box b=(x0,y0,x1,y1), libavoid orientation"""
    x0, y0, x1, y1 = b
    w, h = x1 - x0, y1 - y0
    k = rng.below(10) if kinds is None else kinds
    if k < 5:
        return [(x1, y0), (x1, y1), (x0, y1), (x0, y0)]
    if k < 7:
        # triangles
        t = rng.below(6)
        mx = x0 + rng.range(0, w); my = y0 + rng.range(0, h)
        cands = [[(x1, y0), (x1, y1), (x0, y1)], [(x1, y0), (x0, y1), (x0, y0)], [(x1, y0), (mx, y1), (x0, y0)],
                 [(x1, y0), (x1, y1), (x0, my)], [(x1, my), (x0, y1), (x0, y0)], [(x1, y1), (x0, y1), (mx, y0)]]
        P = cands[t]
    elif k < 8:
        # one vertex on each side
        P = [(x0 + rng.range(1, max(1, w - 1)), y0), (x1, y0 + rng.range(1, max(1, h - 1))),
             (x0 + rng.range(1, max(1, w - 1)), y1), (x0, y0 + rng.range(1, max(1, h - 1)))]
    else:
        # rectangle with cut corners (5..8 vertices)
        ca, cb = (w - 1) // 2, (h - 1) // 2
        P = []
        corners = [((x1, y0), (-1, 0), (0, 1)), ((x1, y1), (0, -1), (-1, 0)), ((x0, y1), (1, 0), (0, -1)), ((x0, y0), (0, 1), (1, 0))]
        for (c, din, dout) in corners:
            if ca >= 1 and cb >= 1 and rng.chance(1, 2):
                a = rng.range(1, ca) if din[0] != 0 else rng.range(1, cb)
                bb = rng.range(1, ca) if dout[0] != 0 else rng.range(1, cb)
                P.append((c[0] + din[0] * a, c[1] + din[1] * a))
                P.append((c[0] + dout[0] * bb, c[1] + dout[1] * bb))
            else:
                P.append(c)
    if convex_ccw(P):
        return P
    if convex_ccw(P[::-1]):
        return P[::-1]
    return [(x1, y0), (x1, y1), (x0, y1), (x0, y0)]


def bbox(P):
    xs = [p[0] for p in P]; ys = [p[1] for p in P]
    return (min(xs), min(ys), max(xs), max(ys))


def gen_boxes(rng, ns, R, gap, maxw=12, existing=()):
    boxes = list(existing)
    out = []
    tries = 0
    while len(out) < ns and tries < 300:
        tries += 1
        x = rng.range(0, R - 1); y = rng.range(0, R - 1); w = rng.range(2, maxw - 1); h = rng.range(2, maxw - 1)
        b = (x, y, x + w, y + h)
        if all(box_sep(b, o, gap) for o in boxes):
            boxes.append(b); out.append(b)
    return out


def in_any_bbox(polys, p, margin=0):
    for P in polys:
        b = bbox(P)
        if b[0] - margin <= p[0] <= b[2] + margin and b[1] - margin <= p[1] <= b[3] + margin:
            return True
    return False


def free_point(rng, polys, R, margin=0, avoid=(), use_bbox=False):
    """integer point outside every shape (closed), or - with margin > 0 or use_bbox - outside every shape's bounding box
    grown by `margin`; not in `avoid`"""
    for _ in range(1000):
        p = (rng.range(-5, R + 14), rng.range(-5, R + 14))
        if p in avoid:
            continue
        ok = True
        for P in polys:
            b = bbox(P)
            if margin > 0 or use_bbox:
                if b[0] - margin <= p[0] <= b[2] + margin and b[1] - margin <= p[1] <= b[3] + margin:
                    ok = False; break
            elif inside_closed(P, p):
                ok = False; break
        if ok:
            return p
    return (-7 - rng.below(5), -7 - rng.below(5))


def gen_scene(rng, nmax=8, R=40, gap=1, buf=0, nconn=None, rect_only=False, use_bbox=False):
    """generic-position scene: 1..nmax convex shapes whose boxes are separated by gap + 2 buf, endpoints in free space
    (outside the buffered boxes).  Returns (polys, conns)."""
    ns = rng.range(1, nmax)
    boxes = gen_boxes(rng, ns, R, gap + 2 * buf)
    polys = [poly_in_box(rng, b, 0 if rect_only else None) for b in boxes]
    nc = nconn if nconn is not None else rng.range(1, 3)
    conns = []
    for _ in range(nc):
        # prefer endpoint pairs whose straight segment is blocked (a route with bends), 3 attempts
        for attempt in range(3):
            s = free_point(rng, polys, R, margin=buf, use_bbox=use_bbox)
            d = free_point(rng, polys, R, margin=buf, avoid=(s,), use_bbox=use_bbox)
            if s != d and any(through_interior(P, s, d) for P in polys):
                break
        if s != d:
            conns.append((s, d))
    return polys, conns


def gen_degenerate_scene(rng, R=24, use_bbox=False):
    """degenerate stream: touching shapes, collinear edges, chords through vertices, endpoints aligned with shape
    diagonals and sides (still strictly outside every shape)."""
    kind = rng.below(4)
    polys = []
    if kind == 0:
        # a dense arena of boxes snapped to a coarse lattice: many shared sides and corners (gap 0)
        cells = [(i, j) for i in range(4) for j in range(4)]
        cells = rng.shuffle(cells)[:rng.range(2, 7)]
        for (i, j) in cells:
            w = rng.choice([3, 6]); h = rng.choice([3, 6])
            polys.append(poly_in_box(rng, (6 * i, 6 * j, 6 * i + w, 6 * j + h), rng.choice([0, 0, 5, 6, 9])))
    elif kind == 1:
        # touching row / staircase
        x = 0; y = 0
        for _ in range(rng.range(2, 5)):
            w = rng.range(2, 6); h = rng.range(2, 6)
            polys.append(poly_in_box(rng, (x, y, x + w, y + h), rng.choice([0, 0, 0, 5, 9])))
            if rng.chance(1, 2):
                x += w
            else:
                x += w; y += h
    else:
        boxes = gen_boxes(rng, rng.range(1, 5), R, 0, maxw=9)
        polys = [poly_in_box(rng, b, rng.choice([0, 0, 0, 5, 6, 7, 9])) for b in boxes]
    # drop shapes whose interiors overlap an earlier one (interior-disjoint scenes only)
    kept = []
    for P in polys:
        b = bbox(P)
        if all(box_sep(b, bbox(Q), 0) for Q in kept):
            kept.append(P)
    polys = kept
    conns = []
    for _ in range(rng.range(1, 3)):
        mode = rng.below(3)
        s = d = None
        if mode == 0 and polys:
            # endpoints on the line through two shape vertices (chords through vertices)
            P = rng.choice(polys); Q = rng.choice(polys)
            a = rng.choice(P); b = rng.choice(Q)
            if a != b:
                k1, k2 = rng.range(1, 3), rng.range(1, 3)
                s = (a[0] - k1 * (b[0] - a[0]), a[1] - k1 * (b[1] - a[1]))
                d = (b[0] + k2 * (b[0] - a[0]), b[1] + k2 * (b[1] - a[1]))
                g = math.gcd(abs(b[0] - a[0]), abs(b[1] - a[1])) or 1
                ux, uy = (b[0] - a[0]) // g, (b[1] - a[1]) // g
                s = (a[0] - k1 * ux, a[1] - k1 * uy); d = (b[0] + k2 * ux, b[1] + k2 * uy)
        elif mode == 1 and polys:
            # endpoints collinear with a shape side
            P = rng.choice(polys); i = rng.below(len(P)); a, b = P[i - 1], P[i]
            g = math.gcd(abs(b[0] - a[0]), abs(b[1] - a[1])) or 1
            ux, uy = (b[0] - a[0]) // g, (b[1] - a[1]) // g
            s = (a[0] - rng.range(1, 6) * ux, a[1] - rng.range(1, 6) * uy)
            d = (b[0] + rng.range(1, 6) * ux, b[1] + rng.range(1, 6) * uy)
        if s is None or any(inside_closed(P, s) for P in polys) or any(inside_closed(P, d) for P in polys) or s == d or \
                (use_bbox and (in_any_bbox(polys, s) or in_any_bbox(polys, d))):
            s = free_point(rng, polys, R, use_bbox=use_bbox)
            d = free_point(rng, polys, R, avoid=(s,), use_bbox=use_bbox)
        if s != d and abs(s[0]) < 200 and abs(s[1]) < 200 and abs(d[0]) < 200 and abs(d[1]) < 200:
            conns.append((s, d))
    return polys, conns


# ------------------------------------------------------------------------------------------ harness protocol
def build_harness_retry(name, libs, flavor):
    """build_lib deletes object directories of other source hashes, so a concurrently running check on a different tree
    (VERIF_REPO scratch copy) can remove the archive between our build and our link: retry"""
    last = None
    for _ in range(4):
        try:
            return C.build_harness(name, libs, flavor)
        except RuntimeError as e:
            last = e
    raise last


def harness():
    return build_harness_retry('c03_route', ['libavoid'], 'exc')


def fmt_poly(P):
    return '%d %s' % (len(P), ' '.join('%d %d' % (p[0], p[1]) for p in P))


def scene_script(polys, conns, mode=0, pen=0, buf=0, nudge=0, trans=1, ids=None):
    """one fresh router: add every shape (ids 1..), every connector (ids 100..), process once"""
    L = ['R %d %s %s %s %d' % (mode, repr(float(pen)), repr(float(buf)), repr(float(nudge)), trans)]
    for i, P in enumerate(polys):
        L.append('A %d %s' % (ids[i] if ids else i + 1, fmt_poly(P)))
    for i, (s, d) in enumerate(conns):
        L.append('C %d %d %d %d %d' % (100 + i, s[0], s[1], d[0], d[1]))
    L += ['P', 'X']
    return L


def run_harness(exe, lines, timeout=600):
    """returns a list of runs; a run = {'dumps': [dump...], 'exc': str|None};
    dump = {'ret','empty','shapes':{id:poly},'bshapes':{id:poly},'ends':{cid:(s,d)},'disp':{cid:pts},'route':{cid:pts}}"""
    rc, out, err, dt = C.sh([exe], input='\n'.join(lines) + '\n', timeout=timeout)
    runs, cur, dump = [], None, None
    for line in out.split('\n'):
        t = line.split()
        if not t:
            continue
        if t[0] == 'R':
            cur = {'dumps': [], 'exc': None}
            runs.append(cur)
        elif t[0] == 'EXC':
            if cur is not None:
                cur['exc'] = line[4:].strip()
        elif t[0] == 'P':
            dump = {'ret': int(t[1]), 'empty': int(t[2]), 'shapes': {}, 'bshapes': {}, 'ends': {}, 'disp': {}, 'route': {}}
            cur['dumps'].append(dump)
        elif t[0] in ('S', 'B', 'D', 'O'):
            n = int(t[2])
            pts = [(float(t[3 + 2 * i]), float(t[4 + 2 * i])) for i in range(n)]
            raw = ' '.join(t[3:])
            key = {'S': 'shapes', 'B': 'bshapes', 'D': 'disp', 'O': 'route'}[t[0]]
            dump[key][int(t[1])] = pts
            if t[0] == 'D':
                dump.setdefault('disp_raw', {})[int(t[1])] = raw
        elif t[0] == 'K':
            dump['ends'][int(t[1])] = ((float(t[2]), float(t[3])), (float(t[4]), float(t[5])))
        elif t[0] == 'N':
            # hyperedge runs: junction id -> live flag, position(), recommendedPosition()
            dump.setdefault('juncs', {})[int(t[1])] = {'live': t[2] == '1', 'pos': (float(t[3]), float(t[4])), 'rec': (float(t[5]), float(t[6]))}
        elif t[0] == 'G':
            # hyperedge runs: connector id -> its two ends, ('J', jid) or ('P', x, y)
            i, ends = 2, []
            for _ in range(2):
                if t[i] == 'J':
                    ends.append(('J', int(t[i + 1]))); i += 2
                else:
                    ends.append(('P', float(t[i + 1]), float(t[i + 2]))); i += 3
            dump.setdefault('hends', {})[int(t[1])] = ends
        elif t[0] == 'Y' and dump is not None:
            dump.setdefault('ctype', {})[int(t[1])] = int(t[2])          # dual-mode runs: ConnRef::routingType() (1 poly-line, 2 orthogonal)
    return runs, rc, err


# ------------------------------------------------------------------------------------------ model driver protocol
def driver():
    return C.ocaml_build('c03', 'C03.v', 'c03_driver.ml', 'c03_model.ml')


def ztok(n):
    return ('-' if n < 0 else '') + bin(abs(n))[2:]


def qtok(x):
    f = F(x)      # exact for ints and for binary64 floats
    return ztok(f.numerator) + '/' + ztok(f.denominator)


def tok_pt(p):
    return qtok(p[0]) + ' ' + qtok(p[1])


def tok_poly(P):
    return '%d %s' % (len(P), ' '.join(tok_pt(p) for p in P))


def tok_shapes(S):
    return '%d %s' % (len(S), ' '.join(tok_poly(P) for P in S))


def q_chk(shapes, s, d, route):
    return 'CHK %s %s %s %s' % (tok_shapes(shapes), tok_pt(s), tok_pt(d), tok_poly(route))


def q_clr(shapes, route):
    """segs_clear over ALL shapes (no containment exemption): hyperedge scenes"""
    return 'CLR %s %s' % (tok_shapes(shapes), tok_poly(route))


def q_deg(P, a, b):
    return 'DEG %s %s %s' % (tok_poly(P), tok_pt(a), tok_pt(b))


def q_plain(shapes, s, d):
    return 'PLAIN %s %s %s' % (tok_shapes(shapes), tok_pt(s), tok_pt(d))


def q_taut(pen, shapes, s, d):
    return 'TAUT %d %s %s %s' % (int(pen) * PICO, tok_shapes(shapes), tok_pt(s), tok_pt(d))


def run_driver(exe, queries, timeout=1200):
    if not queries:
        return []
    rc, out, err, dt = C.sh([exe], input='\n'.join(queries) + '\n', timeout=timeout)
    ans = out.split('\n')
    if ans and ans[-1] == '':
        ans.pop()
    if rc != 0 or len(ans) != len(queries):
        raise RuntimeError('model driver failed rc=%s answers=%d/%d %s' % (rc, len(ans), len(queries), err[-500:]))
    return ans


def parse_bits_q(t):
    a, b = t.split('/')
    neg = a.startswith('-')
    n = int(a.lstrip('-'), 2)
    return F(-n if neg else n, int(b, 2))


def parse_route_answer(a):
    """'route cost n x y ..' -> (cost_pico:int, [(Fraction,Fraction)...]) ; 'nopath' -> None ; 'fail' -> 'fail'"""
    t = a.split()
    if t[0] == 'route':
        n = int(t[2])
        pts = [(parse_bits_q(t[3 + 2 * i]), parse_bits_q(t[4 + 2 * i])) for i in range(n)]
        return int(t[1]), pts
    if t[0] == 'nopath':
        return None
    return 'fail'


def parse_chk(a):
    """'ok' -> [] ; 'bad seg:shape:degen ..' -> [(seg, shape, degen)]"""
    t = a.split()
    if t[0] == 'ok':
        return []
    return [tuple(int(x) for x in w.split(':')) for w in t[1:]] or [(-1, -1, 0)]


# ------------------------------------------------------------------------------------------ costs of implementation routes
def poly_cost(pts, pen):
    """length + pen per bend (2 pen for a reversal) of a polyline given as float points"""
    L = sum(math.hypot(pts[i][0] - pts[i + 1][0], pts[i][1] - pts[i + 1][1]) for i in range(len(pts) - 1))
    b = 0
    for i in range(1, len(pts) - 1):
        p, u, v = pts[i - 1], pts[i], pts[i + 1]
        cr = (u[0] - p[0]) * (v[1] - p[1]) - (v[0] - p[0]) * (u[1] - p[1])
        if cr != 0:
            b += 1
        elif (u[0] - p[0]) * (v[0] - u[0]) + (u[1] - p[1]) * (v[1] - u[1]) < 0:
            b += 2
    return L + pen * b, b


def orth_cost(pts, pen):
    n = len(pts)
    L = sum(abs(pts[i][0] - pts[i + 1][0]) + abs(pts[i][1] - pts[i + 1][1]) for i in range(n - 1))

    def dirn(a, b):
        return (int(b[0] > a[0]) - int(b[0] < a[0]), int(b[1] > a[1]) - int(b[1] < a[1]))
    ds = [dirn(pts[i], pts[i + 1]) for i in range(n - 1) if pts[i] != pts[i + 1]]
    return L + pen * sum(1 for i in range(len(ds) - 1) if ds[i] != ds[i + 1])


def is_orthogonal(pts):
    return all(pts[i][0] == pts[i + 1][0] or pts[i][1] == pts[i + 1][1] for i in range(len(pts) - 1))


# ------------------------------------------------------------------------------------------ "contains" history family (C03 / C06)
# Histories in which a free connector endpoint lies STRICTLY INSIDE a shape (Router::contains lists the shape for that endpoint
# and ignores it as a blocker), the shape is then moved / resized / deleted away from the endpoint (or another shape comes to
# contain it), and finally something makes the router compute new visibility edges for that endpoint.  Property C03 exempts a
# shape only while it contains an endpoint in the CURRENT scene; C06 quantifies over all legal histories.
# Ops are the tuples of checks/c06.py:  ('A', id, poly) ('M', id, dx, dy) ('T', id, poly) ('D', id) ('C', cid, s, d)
# ('E', cid, which, p) ('P',)
def hist_op_str(o):
    if o[0] == 'A' or o[0] == 'T':
        return '%s %d %s' % (o[0], o[1], fmt_poly(o[2]))
    if o[0] == 'M':
        return 'M %d %d %d' % (o[1], o[2], o[3])
    if o[0] == 'D':
        return 'D %d' % o[1]
    if o[0] == 'C':
        return 'C %d %d %d %d %d' % (o[1], o[2][0], o[2][1], o[3][0], o[3][1])
    if o[0] == 'E':
        return 'E %d %d %d %d' % (o[1], o[2], o[3][0], o[3][1])
    if o[0] == 'Y':
        return 'Y %d %d' % (o[1], o[2])          # setRoutingType (dual-mode routers): 1 poly-line, 2 orthogonal
    return 'P'


def hist_apply(shapes, conns, o):
    """sequential semantics of one op (Python twin of ActionQueueModel.seq_step); returns new dicts"""
    shapes, conns = dict(shapes), dict(conns)
    if o[0] in ('A', 'T'):
        shapes[o[1]] = list(o[2])
    elif o[0] == 'M':
        shapes[o[1]] = [(x + o[2], y + o[3]) for x, y in shapes[o[1]]]
    elif o[0] == 'D':
        del shapes[o[1]]
    elif o[0] == 'C':
        conns[o[1]] = (o[2], o[3])
    elif o[0] == 'E':
        s, d = conns[o[1]]
        conns[o[1]] = (s, o[3]) if o[2] else (o[3], d)
    return shapes, conns


def point_place(polys, p):
    """'free' (outside every closed bounding box), 'inside' (strictly inside some shape) or 'edge' (anything else: on a
    boundary, or inside the bounding box but not strictly inside the shape)"""
    if any(inside_strict(P, p) for P in polys):
        return 'inside'
    return 'edge' if in_any_bbox(polys, p) else 'free'


def contains_scene_valid(shapes, conns, generic=True):
    """boxes separated by >= 1; every endpoint free or strictly inside a shape; distinct endpoints; no degenerate chord"""
    polys = list(shapes.values())
    bs = [bbox(P) for P in polys]
    for i in range(len(bs)):
        for j in range(i + 1, len(bs)):
            if not box_sep(bs[i], bs[j], 1):
                return False
    pts = []
    for (s, d) in conns.values():
        if s == d or point_place(polys, s) == 'edge' or point_place(polys, d) == 'edge':
            return False
        pts += [s, d]
    if generic and scene_has_degenerate_chord(polys, sorted(set(pts))):
        return False
    return True


def rect_poly(b):
    return [(b[2], b[1]), (b[2], b[3]), (b[0], b[3]), (b[0], b[1])]


def gen_contains_history(rng, rect_only=False, R=40):
    """-> (ops, tags): a directed history of the family above; tags = the variant choices (evidence histogram)"""
    ops, shapes, conns, tags = [], {}, {}, []

    def try_op(o):
        s2, c2 = hist_apply(shapes, conns, o)
        if contains_scene_valid(s2, c2):
            ops.append(o)
            shapes.clear(); shapes.update(s2); conns.clear(); conns.update(c2)
            return True
        return False

    def P():
        if ops and ops[-1] != ('P',):
            ops.append(('P',))

    def new_box(maxw=11, minw=4):
        x = rng.range(0, R - 1); y = rng.range(0, R - 1)
        return (x, y, x + rng.range(minw, maxw), y + rng.range(minw, maxw))

    def mkpoly(b):
        return rect_poly(b) if rect_only or rng.chance(3, 5) else poly_in_box(rng, b)

    def inner_point(Pg):
        b = bbox(Pg)
        c = [(x, y) for x in range(b[0] + 1, b[2]) for y in range(b[1] + 1, b[3]) if inside_strict(Pg, (x, y))]
        return rng.choice(c) if c else None

    # --- transaction 1: shape S (id 1) with the source endpoint of connector 100 strictly inside it; 0-2 other shapes
    for _ in range(60):
        Sg = mkpoly(new_box())
        p = inner_point(Sg)
        if p is not None and try_op(('A', 1, Sg)):
            break
    else:
        return None, None
    nid = 2
    for _ in range(rng.range(0, 2)):
        for _ in range(20):
            if try_op(('A', nid, mkpoly(new_box(9, 2)))):
                nid += 1
                break
    q = None
    qmode = rng.below(5)
    for _ in range(60):
        polys = list(shapes.values())
        if qmode == 0 and len(shapes) > 1:
            q = inner_point(shapes[rng.choice([i for i in sorted(shapes) if i != 1])])      # both ends inside (different) shapes
        elif qmode == 1:
            q = inner_point(shapes[1])                                                       # both ends inside S
        else:
            qmode = 2
            q = free_point(rng, polys, R, use_bbox=True)
        if q is not None and q != p and try_op(('C', 100, p, q) if rng.chance(3, 4) else ('C', 100, q, p)):
            break
        qmode = 2
    else:
        return None, None
    inside_end = 0 if conns[100][0] == p else 1
    tags.append('q_' + ['in_other', 'in_same', 'free', 'free', 'free'][qmode])
    if rng.chance(1, 3):
        for _ in range(20):
            polys = list(shapes.values())
            a = free_point(rng, polys, R, use_bbox=True); b = free_point(rng, polys, R, avoid=(a,), use_bbox=True)
            if try_op(('C', 101, a, b)):
                break
    P()

    def cur_p():
        return conns[100][inside_end]

    def cur_q():
        return conns[100][1 - inside_end]

    def move_between(i):
        """move shape i so that it straddles the segment from the inside endpoint towards the other endpoint (not containing either)"""
        b = bbox(shapes[i]); pp, qq = cur_p(), cur_q()
        for _ in range(40):
            t_num = rng.range(2, 8)
            cx = pp[0] + (qq[0] - pp[0]) * t_num // 10 + rng.range(-1, 1); cy = pp[1] + (qq[1] - pp[1]) * t_num // 10 + rng.range(-1, 1)
            dx = cx - (b[0] + b[2]) // 2; dy = cy - (b[1] + b[3]) // 2
            if (dx or dy) and not inside_closed(rect_poly((b[0] + dx, b[1] + dy, b[2] + dx, b[3] + dy)), pp) and try_op(('M', i, dx, dy)):
                return True
        return False

    def move_random(i, away_from=None):
        for _ in range(40):
            dx, dy = rng.range(-18, 18), rng.range(-18, 18)
            if away_from is not None:
                b = bbox(shapes[i])
                if inside_closed(rect_poly((b[0] + dx, b[1] + dy, b[2] + dx, b[3] + dy)), away_from):
                    continue
            if (dx or dy) and try_op(('M', i, dx, dy)):
                return True
        return False

    def resize_away(i):
        """new polygon with the same vertex count (Obstacle::setNewPoly asserts it) that no longer contains the inside endpoint"""
        k = len(shapes[i]); pp = cur_p()
        for _ in range(60):
            if rng.chance(1, 2):
                # shrink: a sub-box of the current box that leaves the endpoint out
                b = bbox(shapes[i])
                x0 = rng.range(b[0], b[2] - 2); x1 = rng.range(x0 + 2, b[2]); y0 = rng.range(b[1], b[3] - 2); y1 = rng.range(y0 + 2, b[3])
                nb = (x0, y0, x1, y1)
            else:
                nb = new_box()
            Pn = rect_poly(nb) if k == 4 and (rect_only or rng.chance(1, 2)) else poly_in_box(rng, nb)
            if rect_only and Pn != rect_poly(nb):
                continue
            if len(Pn) == k and not inside_closed(rect_poly(nb), pp) and try_op(('T', i, Pn)):
                return True
        return False

    def cover(i=None):
        """shape i (or a new shape) comes to contain the inside endpoint strictly"""
        pp = cur_p()
        for _ in range(60):
            if i is None:
                w, h = rng.range(4, 10), rng.range(4, 10)
                x0 = pp[0] - rng.range(1, w - 1); y0 = pp[1] - rng.range(1, h - 1)
                Pn = mkpoly((x0, y0, x0 + w, y0 + h))
                if inside_strict(Pn, pp) and try_op(('A', nid, Pn)):
                    return True
            else:
                b = bbox(shapes[i]); g = inner_point(shapes[i])
                if g is None:
                    return False
                dx, dy = pp[0] - g[0], pp[1] - g[1]
                if (dx or dy) and try_op(('M', i, dx, dy)):
                    return True
        return False

    # --- transaction 2: S leaves the endpoint
    away = rng.below(10)
    ok = False
    if away < 5:
        ok = move_between(1); tags.append('away_move_between')
    elif away < 6:
        ok = move_random(1, away_from=cur_p()); tags.append('away_move_random')
    elif away < 8:
        ok = resize_away(1); tags.append('away_resize')
    else:
        ok = try_op(('D', 1)); tags.append('away_delete')
    if not ok:
        return None, None
    P()
    # --- optional middle transactions
    for _ in range(rng.range(0, 2)):
        mid = rng.below(6)
        done = False
        if mid == 0 and 1 in shapes:
            done = cover(1)                                   # S moved back over the endpoint ...
            if done:
                tags.append('mid_back_over')
                P()
                (move_between(1) or move_random(1, away_from=cur_p()))       # ... and away again
        elif mid == 1:
            others = [i for i in sorted(shapes) if i != 1]
            if others:
                done = cover(rng.choice(others))              # a different shape moved onto the endpoint
                if done:
                    tags.append('mid_other_onto')
        elif mid == 2 and len(shapes) < 6:
            done = cover(None)                                # a new shape added around the endpoint
            if done:
                nid += 1
                tags.append('mid_new_onto')
        elif mid == 3 and 1 in shapes:
            done = move_between(1)
            if done:
                tags.append('mid_move_between_again')
        elif mid == 4 and len(shapes) > 1:
            cand = [i for i in sorted(shapes) if not inside_strict(shapes[i], cur_p())]
            if cand:
                done = try_op(('D', rng.choice(cand)))
                if done:
                    tags.append('mid_delete')
        if done:
            P()
    # --- trigger: something that makes the router compute new visibility edges for the (former) inside endpoint
    for _ in range(rng.range(1, 2)):
        trg = rng.below(10)
        done = False
        if trg < 4:
            qq = cur_q()
            for _ in range(30):
                nq = (qq[0] + rng.range(-3, 3), qq[1] + rng.range(-3, 3)) if rng.chance(2, 3) else free_point(rng, list(shapes.values()), R, use_bbox=True)
                if nq != qq and try_op(('E', 100, 1 - inside_end, nq)):
                    done = True; tags.append('trigger_other_end')
                    break
        elif trg < 6:
            pp = cur_p()
            for _ in range(30):
                np_ = (pp[0] + rng.range(-2, 2), pp[1] + rng.range(-2, 2))
                if np_ != pp and try_op(('E', 100, inside_end, np_)):
                    done = True; tags.append('trigger_same_end')
                    break
        elif trg < 8 and shapes:
            cand = [i for i in sorted(shapes) if not inside_strict(shapes[i], cur_p())]
            if cand:
                done = move_random(rng.choice(cand), away_from=cur_p())
                if done:
                    tags.append('trigger_move_shape')
        elif len(shapes) < 7:
            for _ in range(30):
                if try_op(('A', nid, mkpoly(new_box(8, 2)))):
                    nid += 1; done = True; tags.append('trigger_add_shape')
                    break
        if done:
            P()
    P()
    return ops, tags


# ------------------------------------------------------------------------------------------ hyperedge scene family (C03)
# A free JunctionRef with 3-5 orthogonal connectors to free terminal points, rectangular obstacles near the trunks.
# scene = {'shapes': [poly..] (ids 1..), 'junction': (x, y), 'fixed': 0/1, 'terms': [(x, y)..], 'rev': [0/1..] (connector written
#          terminal -> junction), 'opt': 0 none / 1 improveHyperedgeRoutesMovingJunctions / 2 ...MovingAddingAndDeletingJunctions,
#          'pen', 'buf', 'nudge', 'kind'}
SYMS = [(1, 0, 0, 1), (-1, 0, 0, 1), (1, 0, 0, -1), (-1, 0, 0, -1), (0, 1, 1, 0), (0, -1, 1, 0), (0, 1, -1, 0), (0, -1, -1, 0)]


def hyper_script(sc):
    L = ['R 1 %s %s %s 1' % (repr(float(sc['pen'])), repr(float(sc['buf'])), repr(float(sc['nudge']))),
         'O improveMoving %d' % (1 if sc['opt'] == 1 else 0), 'O improveAddDel %d' % (1 if sc['opt'] == 2 else 0)]
    for i, P in enumerate(sc['shapes']):
        L.append('A %d %s' % (i + 1, fmt_poly(P)))
    j = sc['junction']
    L.append('J 50 %d %d %d' % (j[0], j[1], sc['fixed']))
    for i, t in enumerate(sc['terms']):
        if sc['rev'][i]:
            L.append('H %d P %d %d J 50' % (100 + i, t[0], t[1]))
        else:
            L.append('H %d J 50 P %d %d' % (100 + i, t[0], t[1]))
    L += ['P', 'X']
    return L


def _sym_apply(sym, off, p):
    a, b, c, d = sym
    return (a * p[0] + b * p[1] + off[0], c * p[0] + d * p[1] + off[1])


def _sym_box(sym, off, b):
    p, q = _sym_apply(sym, off, (b[0], b[1])), _sym_apply(sym, off, (b[2], b[3]))
    return (min(p[0], q[0]), min(p[1], q[1]), max(p[0], q[0]), max(p[1], q[1]))


def hyper_scene_valid(boxes, j, terms, margin):
    pts = [j] + list(terms)
    if len(set(pts)) != len(pts):
        return False
    for i in range(len(boxes)):
        if boxes[i][2] - boxes[i][0] < 10 or boxes[i][3] - boxes[i][1] < 10:
            return False
        for k in range(i + 1, len(boxes)):
            if not box_sep(boxes[i], boxes[k], 10):
                return False
    for p in pts:
        for b in boxes:
            if b[0] - margin <= p[0] <= b[2] + margin and b[1] - margin <= p[1] <= b[3] + margin:
                return False
    return True


def gen_hyper_scene(rng, kind=None):
    """kind 'corridor': one branch has to squeeze between two obstacles next to the column / row of its terminal while most
    other branches pull the trunk the same way (trunk segments that become collinear and merge during the improvement);
    kind 'random': junction in the middle, terminals and obstacles at random (multiples of 5)."""
    kind = kind or ('corridor' if rng.chance(1, 2) else 'random')
    opt = rng.choice([0, 1, 1, 1, 2, 2])
    pen = rng.choice([10, 50, 50])
    nudge = rng.choice([0, 0, 4])
    buf = rng.choice([0, 0, 0, 4])
    margin = 6 + buf
    for _ in range(200):
        if kind == 'corridor':
            g = 5
            j = (0, 0)
            # the "behind the obstacle" terminal: up-left of the junction
            tx = -g * rng.range(8, 30); ty = -g * rng.range(24, 50)
            xw = g * rng.range(4, 8)                         # half width of X
            X = (tx - xw, ty + g * rng.range(2, 6), tx + g * rng.range(2, 8), 0)
            X = (X[0], X[1], X[2], X[1] + g * rng.range(6, 16))
            if X[3] > -g * 6:
                continue
            gapw = g * rng.range(3, 9)                       # corridor between X and W
            W = (X[2] + gapw, ty - g * rng.range(2, 8), 0, 0)
            W = (W[0], W[1], max(W[0] + 20, g * rng.range(2, 12)), ty + g * rng.range(6, 14))
            boxes = [X, W]
            terms = [(tx, ty)]
            # branches that pull the trunk towards the terminal's column: far away on the same side, beyond the junction's row
            for _k in range(rng.range(2, 3)):
                terms.append((tx - g * rng.range(10, 40), g * rng.range(8, 40)))
            # 0-1 branch on the other side
            if rng.chance(3, 4):
                terms.append((g * rng.range(8, 20), g * rng.range(-2, 2) if rng.chance(1, 2) else 0))
            for _k in range(rng.range(0, 1)):
                bx = g * rng.range(-60, 40); by = g * rng.range(-60, 60)
                boxes.append((bx, by, bx + g * rng.range(4, 14), by + g * rng.range(4, 14)))
        else:
            g = 5
            j = (0, 0)
            nt = rng.range(3, 5)
            terms = []
            for _k in range(nt):
                terms.append((g * rng.range(-50, 50), g * rng.range(-50, 50)))
            boxes = []
            for _k in range(rng.range(1, 4)):
                if rng.chance(1, 2) and terms:
                    # near the straight leg between the junction and a terminal
                    t = rng.choice(terms); f = rng.range(2, 8)
                    cx, cy = t[0] * f // 10 + g * rng.range(-6, 6), t[1] * f // 10 + g * rng.range(-6, 6)
                else:
                    cx, cy = g * rng.range(-45, 45), g * rng.range(-45, 45)
                w, h = g * rng.range(2, 10), g * rng.range(2, 10)
                boxes.append((cx - w, cy - h, cx + w, cy + h))
        sym = rng.choice(SYMS)
        off = (200 + 5 * rng.range(-4, 4), 200 + 5 * rng.range(-4, 4))
        boxes = [_sym_box(sym, off, b) for b in boxes]
        j2 = _sym_apply(sym, off, j)
        terms = [_sym_apply(sym, off, t) for t in terms]
        if not hyper_scene_valid(boxes, j2, terms, margin):
            continue
        # a fixed junction is an obstacle of the orthogonal sweep whose rectangle has half-width min(1, idealNudgingDistance): with
        # idealNudgingDistance 0 it is empty and the sweep asserts (begin < finish, orthogonal.cpp:672) - outside this family
        fixed = 1 if nudge > 0 and rng.chance(1, 4) else 0
        return {'kind': kind, 'shapes': [rect_poly(b) for b in boxes], 'junction': j2, 'fixed': fixed,
                'terms': terms, 'rev': [1 if rng.chance(1, 4) else 0 for _ in terms], 'opt': opt, 'pen': pen, 'buf': buf, 'nudge': nudge}
    return None


# ------------------------------------------------------------------------------------------ selective-reroute test (C06 / C04 classifier)
def selective_reroute_flags(poly, start, end, conndist):
    """Float twin of Router::markPolylineConnectorsNeedingReroutingForDeletedObstacle (router.cpp) for ONE obstacle (its polygon
    before it was moved / deleted) and one polyline connector (route ends start/end, cached route length conndist): does some edge's
    estimate fall below conndist?  Mirrors the code as written at /repo aa23288: crossing point of the straight segment when start and end
    lie on opposite sides of the edge's line, reflection formula x = (b c + a d)/(b + d) otherwise, and `start`/`end` being overwritten by
    their rotated images in the branch for sloped edges and then reused for the following edges."""
    sx, sy = float(start[0]), float(start[1])
    ex, ey = float(end[0]), float(end[1])
    n = len(poly)
    opp = True      # /repo aa23288: crossing point when the route's ends straddle the edge's line (a tree without it is reported, not classified)
    for i in range(n):
        p1 = (float(poly[i][0]), float(poly[i][1])); p2 = (float(poly[(i + 1) % n][0]), float(poly[(i + 1) % n][1]))
        vertical = False
        if p1[1] == p2[1]:
            offy = p1[1]; a = sx; b = sy - offy; c = ex; d = ey - offy
            mn, mx = min(p1[0], p2[0]), max(p1[0], p2[0])
        elif p1[0] == p2[0]:
            vertical = True
            offy = p1[0]; a = sy; b = sx - offy; c = ey; d = ex - offy
            mn, mx = min(p1[1], p2[1]), max(p1[1], p2[1])
        else:
            npx, npy = p2[0] - p1[0], p2[1] - p1[1]
            nsx, nsy = sx - p1[0], sy - p1[1]
            nex, ney = ex - p1[0], ey - p1[1]
            theta = 0 - math.atan2(npy, npx)
            cosv, sinv = math.cos(theta), math.sin(theta)
            r2x = cosv * npx - sinv * npy
            sx, sy = cosv * nsx - sinv * nsy, cosv * nsy + sinv * nsx          # overwrites start / end, as the C++ does
            ex, ey = cosv * nex - sinv * ney, cosv * ney + sinv * nex
            offy = 0.0; a = sx; b = sy - offy; c = ex; d = ey - offy
            mn, mx = min(0.0, r2x), max(0.0, r2x)
        if opp and b * d < 0:
            x = ((abs(b) * c) + (a * abs(d))) / (abs(b) + abs(d))
            x = min(mx, max(mn, x))
            xp = (offy, x) if vertical else (x, offy)
            if math.hypot(sx - xp[0], sy - xp[1]) + math.hypot(xp[0] - ex, xp[1] - ey) < conndist:
                return True
            continue
        if (b + d) == 0:
            d = d * -1
        if b == 0 and d == 0:
            if (a < mn and c < mn) or (a > mx and c > mx):
                x = a
            else:
                continue
        else:
            x = ((b * c) + (a * d)) / (b + d)
        x = min(mx, max(mn, x))
        # xp is built from the ORIGINAL p1, p2 test (p1.x == p2.x), in the current (possibly rotated) frame of start / end
        xp = (offy, x) if vertical else (x, offy)
        est = math.hypot(sx - xp[0], sy - xp[1]) + math.hypot(xp[0] - ex, xp[1] - ey)
        if est < conndist:
            return True
    return False


def polyline_length(pts):
    return sum(math.hypot(pts[i][0] - pts[i + 1][0], pts[i][1] - pts[i + 1][1]) for i in range(len(pts) - 1))


def reroute_test_silent(ops_between, trans, shapes_before, route):
    """classifier predicate of the known finding selective_reroute_not_flagged: for every shape moved / resized / deleted by the ops
    between two dumps, the selective-reroute test as coded (twin above, with the polygon the shape had when the router processed the
    change and the real length of the unchanged route) flags nothing.  shapes_before: {id: poly} at the previous dump.  With
    transactions on, the router sees each changed shape once, with its polygon at the previous dump; with transactions off every op is
    processed on its own, with the polygon left by the ops before it.  Returns None if no shape left its place (not this finding)."""
    L = polyline_length(route)
    start, end = route[0], route[-1]
    cur = {i: list(P) for i, P in shapes_before.items()}
    tested = 0
    seen = set()
    for o in ops_between:
        if o[0] in ('M', 'T', 'D') and o[1] in cur:
            old = cur[o[1]] if not trans else shapes_before.get(o[1])
            if old is not None and not (trans and o[1] in seen):
                seen.add(o[1])
                tested += 1
                if selective_reroute_flags(old, start, end, L):
                    return False
        if o[0] in ('A', 'T'):
            cur[o[1]] = list(o[2])
        elif o[0] == 'M' and o[1] in cur:
            cur[o[1]] = [(x + o[2], y + o[3]) for x, y in cur[o[1]]]
        elif o[0] == 'D':
            cur.pop(o[1], None)
    return True if tested else None


# ------------------------------------------------------------------------------------------ directed history families (C03 / C06)
# Added for the seeded changes C03-4 (a move that leaves the polygon unchanged), C06-4 (add + move + RELATIVE move of one shape in
# one transaction) and C05-2 / C03-3 (transactions that contain only deletions / only additions / only endpoint changes).
def plain_scene_valid(shapes, conns, generic=True):
    """boxes separated by >= 1, endpoints outside every closed bounding box and distinct, no degenerate chord between graph vertices
    (= checks/c06.py scene_valid for the default family)"""
    polys = list(shapes.values())
    bs = [bbox(P) for P in polys]
    for i in range(len(bs)):
        for j in range(i + 1, len(bs)):
            if not box_sep(bs[i], bs[j], 1):
                return False
    pts = []
    for (s, d) in conns.values():
        if s == d or in_any_bbox(polys, s) or in_any_bbox(polys, d):
            return False
        pts += [s, d]
    if generic and scene_has_degenerate_chord(polys, sorted(set(pts))):
        return False
    return True


class _Hist(object):
    """op list under construction; every op is kept only if the scene after it is valid (so the intermediate scenes of one
    transaction are valid too, which is what checks/c06.py simulate() demands)"""
    def __init__(self, rng, rect_only, R):
        self.rng, self.rect_only, self.R = rng, rect_only, R
        self.ops, self.shapes, self.conns, self.nid, self.ncid = [], {}, {}, 1, 100

    def try_op(self, o):
        s2, c2 = hist_apply(self.shapes, self.conns, o)
        if plain_scene_valid(s2, c2):
            self.ops.append(o)
            self.shapes, self.conns = s2, c2
            return True
        return False

    def P(self):
        if self.ops and self.ops[-1] != ('P',):
            self.ops.append(('P',))

    def new_poly(self, maxw=11, minw=3):
        x = self.rng.range(0, self.R - 1); y = self.rng.range(0, self.R - 1)
        b = (x, y, x + self.rng.range(minw, maxw), y + self.rng.range(minw, maxw))
        return rect_poly(b) if self.rect_only or self.rng.chance(1, 2) else poly_in_box(self.rng, b)

    def add_shapes(self, n):
        added = []
        for _ in range(n):
            for _ in range(40):
                if self.try_op(('A', self.nid, self.new_poly())):
                    added.append(self.nid); self.nid += 1
                    break
        return added

    def across_points(self, Pg):
        """two free points on opposite sides of shape Pg whose straight segment passes through its interior"""
        rng, b = self.rng, bbox(Pg)
        polys = list(self.shapes.values())
        for _ in range(30):
            if rng.chance(1, 2):
                s = (b[0] - rng.range(1, 12), rng.range(b[1], b[3])); d = (b[2] + rng.range(1, 12), rng.range(b[1], b[3]))
            else:
                s = (rng.range(b[0], b[2]), b[1] - rng.range(1, 12)); d = (rng.range(b[0], b[2]), b[3] + rng.range(1, 12))
            if rng.chance(1, 2):
                s, d = d, s
            if not in_any_bbox(polys, s) and not in_any_bbox(polys, d) and through_interior(Pg, s, d):
                return s, d
        return None

    def add_conns(self, n, p_across=(3, 4)):
        for _ in range(n):
            for _ in range(30):
                polys = list(self.shapes.values())
                sd = None
                if self.shapes and self.rng.chance(*p_across):
                    sd = self.across_points(self.shapes[self.rng.choice(sorted(self.shapes))])
                if sd is None:
                    s = free_point(self.rng, polys, self.R, use_bbox=True)
                    sd = (s, free_point(self.rng, polys, self.R, avoid=(s,), use_bbox=True))
                if sd[0] != sd[1] and self.try_op(('C', self.ncid, sd[0], sd[1])):
                    self.ncid += 1
                    break

    def blocking_shapes(self):
        """ids of shapes through whose interior the straight line of some connector passes"""
        return [i for i in sorted(self.shapes) if any(through_interior(self.shapes[i], s, d) for (s, d) in self.conns.values())]


def gen_noop_move_history(rng, rect_only=False, R=40):
    """-> (ops, tags).  Route connectors that detour round shapes, then transactions whose moves leave a shape's polygon unchanged:
    'zero' M i 0 0; 'cancel' M i dx dy; M i -dx -dy; 'cancel3' three relative moves summing to zero; 'samepoly' T i <its polygon>;
    'there_and_back' T i <elsewhere>; T i <its polygon>.  1 in 3 transactions also carries a real change of something else."""
    H = _Hist(rng, rect_only, R)
    H.add_shapes(rng.range(1, 5))
    if not H.shapes:
        return None, []
    H.add_conns(rng.range(1, 3))
    if not H.conns:
        return None, []
    H.P()
    tags = []
    for _ in range(rng.range(1, 3)):
        cand = H.blocking_shapes()
        i = rng.choice(cand) if cand and rng.chance(4, 5) else rng.choice(sorted(H.shapes))
        v = rng.choice(['zero', 'zero', 'cancel', 'cancel', 'cancel3', 'samepoly', 'there_and_back'])
        ok = False
        for _ in range(30):
            n0 = len(H.ops)
            keep = (dict(H.shapes), dict(H.conns))
            if v == 'zero':
                ok = H.try_op(('M', i, 0, 0))
            elif v == 'samepoly':
                ok = H.try_op(('T', i, list(H.shapes[i])))
            elif v == 'cancel':
                dx, dy = rng.range(-9, 9), rng.range(-9, 9)
                ok = (dx, dy) != (0, 0) and H.try_op(('M', i, dx, dy)) and H.try_op(('M', i, -dx, -dy))
            elif v == 'cancel3':
                dx, dy, ex, ey = rng.range(-7, 7), rng.range(-7, 7), rng.range(-7, 7), rng.range(-7, 7)
                ok = H.try_op(('M', i, dx, dy)) and H.try_op(('M', i, ex, ey)) and H.try_op(('M', i, -dx - ex, -dy - ey))
            else:
                old = list(H.shapes[i])
                dx, dy = rng.range(-12, 12), rng.range(-12, 12)
                ok = (dx, dy) != (0, 0) and H.try_op(('T', i, [(x + dx, y + dy) for x, y in old])) and H.try_op(('T', i, old))
            if ok:
                break
            del H.ops[n0:]
            H.shapes, H.conns = keep
        if not ok:
            continue
        tags.append(v)
        if rng.chance(1, 3):
            k = rng.below(3)
            if k == 0:
                if H.add_shapes(1):
                    tags.append('+add')
            elif k == 1 and len(H.shapes) > 1:
                j = rng.choice([x for x in sorted(H.shapes) if x != i])
                for _ in range(20):
                    if H.try_op(('M', j, rng.range(-10, 10), rng.range(-10, 10))):
                        tags.append('+move_other')
                        break
            else:
                c = rng.choice(sorted(H.conns))
                for _ in range(20):
                    if H.try_op(('E', c, rng.below(2), free_point(rng, list(H.shapes.values()), R, use_bbox=True))):
                        tags.append('+endpoint')
                        break
        H.P()
    if not tags:
        return None, []
    return H.ops, tags


def gen_addmove_history(rng, rect_only=False, R=40):
    """-> (ops, tags).  Within ONE transaction: add a shape, move it 1-2 times (absolute 'T' or relative 'M'), then move it
    RELATIVELY again ('M'); the queue model says relative moves compose on the polygon held by the queued add."""
    H = _Hist(rng, rect_only, R)
    H.add_shapes(rng.range(0, 2))
    H.add_conns(rng.range(1, 2), p_across=(1, 3))
    if not H.conns:
        return None, []
    H.P()
    tags = []
    for _ in range(rng.range(1, 2)):
        ok = False
        for _ in range(40):
            n0 = len(H.ops)
            keep = (dict(H.shapes), dict(H.conns), H.nid)
            i = H.nid
            seq = []
            ok = bool(H.add_shapes(1))
            for _ in range(rng.range(1, 2)):
                if not ok:
                    break
                if rng.chance(1, 2):
                    # absolute move, preferably far (so that a lost move is visible in the routes): onto a connector's line
                    Pn = None
                    c = H.conns[rng.choice(sorted(H.conns))]
                    if rng.chance(2, 3):
                        b = bbox(H.shapes[i]); w, h = b[2] - b[0], b[3] - b[1]
                        mx, my = (c[0][0] + c[1][0]) // 2, (c[0][1] + c[1][1]) // 2
                        ox, oy = mx - w // 2 - b[0] + rng.range(-2, 2), my - h // 2 - b[1] + rng.range(-2, 2)
                        Pn = [(x + ox, y + oy) for x, y in H.shapes[i]]
                    else:
                        for Pc in [H.new_poly() for _ in range(10)]:
                            if len(Pc) == len(H.shapes[i]):
                                Pn = Pc
                                break
                    ok = Pn is not None and H.try_op(('T', i, Pn))
                    seq.append('T')
                else:
                    ok = H.try_op(('M', i, rng.range(-15, 15), rng.range(-15, 15)))
                    seq.append('M')
            if ok:
                ok = False
                for _ in range(10):
                    dx, dy = rng.range(-15, 15), rng.range(-15, 15)
                    if (dx, dy) != (0, 0) and H.try_op(('M', i, dx, dy)):
                        ok = True
                        break
            if ok:
                tags.append('A' + ''.join(seq) + 'M')
                break
            del H.ops[n0:]
            H.shapes, H.conns, H.nid = keep
        if ok and rng.chance(1, 3) and len(H.shapes) > 1:
            j = rng.choice(sorted(H.shapes))
            if H.try_op(('M', j, rng.range(-8, 8), rng.range(-8, 8))):
                tags.append('+M')
        H.P()
    if not tags:
        return None, []
    return H.ops, tags


def gen_homogeneous_history(rng, rect_only=True, R=40):
    """-> (ops, tags).  Route a dense scene, then transactions that each contain ONLY deletions (1-3 shapes), ONLY additions (1-3 shapes,
    preferably across a connector's straight line) or ONLY endpoint changes."""
    H = _Hist(rng, rect_only, R)
    H.add_shapes(rng.range(3, 6))
    H.add_conns(rng.range(1, 3))
    if not H.conns or not H.shapes:
        return None, []
    H.P()
    tags = []
    for _ in range(rng.range(1, 4)):
        kind = rng.choice(['del', 'del', 'add', 'end'])
        done = 0
        if kind == 'del' and H.shapes:
            for _ in range(rng.range(1, 3)):
                cand = H.blocking_shapes()
                if not H.shapes:
                    break
                i = rng.choice(cand) if cand and rng.chance(3, 4) else rng.choice(sorted(H.shapes))
                done += 1 if H.try_op(('D', i)) else 0
        elif kind == 'add':
            for _ in range(rng.range(1, 3)):
                ok = False
                for _ in range(30):
                    Pn = H.new_poly()
                    if rng.chance(2, 3):
                        c = H.conns[rng.choice(sorted(H.conns))]
                        b = bbox(Pn); w, h = b[2] - b[0], b[3] - b[1]
                        t = rng.range(1, 3)
                        mx, my = c[0][0] + (c[1][0] - c[0][0]) * t // 4, c[0][1] + (c[1][1] - c[0][1]) * t // 4
                        ox, oy = mx - w // 2 - b[0], my - h // 2 - b[1]
                        Pn = [(x + ox, y + oy) for x, y in Pn]
                    if H.try_op(('A', H.nid, Pn)):
                        H.nid += 1; ok = True
                        break
                done += 1 if ok else 0
        else:
            for _ in range(rng.range(1, 2)):
                c = rng.choice(sorted(H.conns))
                for _ in range(20):
                    if H.try_op(('E', c, rng.below(2), free_point(rng, list(H.shapes.values()), R, use_bbox=True))):
                        done += 1
                        break
        if done:
            tags.append('%s%d' % (kind, done))
            H.P()
    if not tags:
        return None, []
    return H.ops, tags


# ------------------------------------------------------------------------------------------ C04: "corner reachable both ways round its obstacle"
# Directed scene family for the (previous vertex, vertex) state of libavoid's A* (ANode; seeded change C04-4: PENDING lookup by vertex alone).
# With a segment penalty the continuations validateBendPoint allows at a shape corner depend on the side the corner was reached from, so
# the cheapest arrival at a corner need not be the one the optimal route uses.  Scenes are built so that this is likely (a convex obstacle T
# with a far corner `a`; the target in the wedge that only the arrival from neighbour `c` may turn into; the source nearer to the other
# neighbour `b`; walls whose near ends are hidden behind T and whose far ends are a long way round) and then SELECTED with the extracted
# model: a scene is kept for a penalty iff taut_select reports different optima for route_taut's (previous vertex, vertex) search and for the
# vertex-only search (Avoid/RefRouterVertexOnlyModel.v).
def polys_separated(P, Q, gap=1):
    """exact: some edge line of P or of Q has every vertex of the other polygon at distance >= gap on its outer side"""
    for X, Y in ((P, Q), (Q, P)):
        for a, b in edges(X):
            l2 = (b[0] - a[0]) ** 2 + (b[1] - a[1]) ** 2
            if all(cross(a, b, q) < 0 and cross(a, b, q) ** 2 >= gap * gap * l2 for q in Y):
                return True
    return False


def point_clear(P, q, gap=1):
    """q lies outside the convex polygon P, at distance >= gap from some edge line (outer side)"""
    for a, b in edges(P):
        c = cross(a, b, q)
        if c < 0 and c * c >= gap * gap * ((b[0] - a[0]) ** 2 + (b[1] - a[1]) ** 2):
            return True
    return False


def _unit(v):
    n = math.hypot(v[0], v[1]) or 1.0
    return (v[0] / n, v[1] / n)


def _rnd(rng, lo, hi):
    return lo + (hi - lo) * (rng.below(10001) / 10000.0)


def _corner_wall(rng, P0, Dn, U, a, d, w):
    """a convex quadrilateral ("wall", half-thickness w) through the point P0 lying across the travel direction Dn: its near end stops short
    of the line a-d (the route round corner a must stay free), its far end is a long way off.  Integer vertices; None if degenerate."""
    nx, ny = -Dn[1], Dn[0]
    ad = _unit((d[0] - a[0], d[1] - a[1]))
    sd = (P0[0] - a[0]) * (-ad[1]) + (P0[1] - a[1]) * ad[0]          # signed distance of P0 from the line a-d
    comp = nx * (-ad[1]) + ny * ad[0]
    if abs(comp) < 0.2 or abs(sd) < U / 50.0:
        return None
    if (comp > 0) == (sd > 0):
        nx, ny = -nx, -ny; comp = -comp                               # (nx, ny) now points from P0 towards the line a-d
    reach = abs(sd) / abs(comp)
    near = reach * _rnd(rng, 0.5, 0.97)
    far = _rnd(rng, 0.3, 2.5) * U
    if rng.chance(1, 2):
        c = [(P0[0] + nx * near - Dn[0] * w, P0[1] + ny * near - Dn[1] * w), (P0[0] + nx * near + Dn[0] * w, P0[1] + ny * near + Dn[1] * w),
             (P0[0] - nx * far + Dn[0] * w, P0[1] - ny * far + Dn[1] * w), (P0[0] - nx * far - Dn[0] * w, P0[1] - ny * far - Dn[1] * w)]
    else:
        # axis-parallel rectangle over the same extent
        if abs(Dn[0]) > abs(Dn[1]):
            x0, x1 = P0[0] - w, P0[0] + w
            y0, y1 = sorted((P0[1] + ny * near, P0[1] - ny * far))
        else:
            y0, y1 = P0[1] - w, P0[1] + w
            x0, x1 = sorted((P0[0] + nx * near, P0[0] - nx * far))
        c = [(x1, y0), (x1, y1), (x0, y1), (x0, y0)]
    Pq = [(int(round(x)), int(round(y))) for x, y in c]
    if convex_ccw(Pq):
        return Pq
    if convex_ccw(Pq[::-1]):
        return Pq[::-1]
    return None


def gen_corner_scene(rng):
    """-> (polys, [(s, d)]) or None (construction failed / quick exact pre-tests failed).  polys[0] is the obstacle T."""
    U = rng.choice([40, 60, 100, 200, 400, 600])
    tw = max(4, int(U * _rnd(rng, 0.12, 0.4))); th = max(4, int(U * _rnd(rng, 0.12, 0.4)))
    ox, oy = rng.range(-U, U), rng.range(-U, U)
    T = poly_in_box(rng, (ox, oy, ox + tw, oy + th), rng.choice([0, 0, 5, 5, 6, 6, 7, 8, 9, 9]))
    n = len(T)
    i = rng.below(n)
    a = T[i]
    b, c = (T[i - 1], T[(i + 1) % n]) if rng.chance(1, 2) else (T[(i + 1) % n], T[i - 1])     # b: the cheap side, c: the side that may turn on
    # target: seen from a, inside the wedge between the extension of c->a and the direction a->b (only the arrival from c wraps the corner)
    e1 = _unit((a[0] - c[0], a[1] - c[1])); e2 = _unit((b[0] - a[0], b[1] - a[1]))
    t = _rnd(rng, 0.08, 0.92)
    dv = _unit((e1[0] * (1 - t) + e2[0] * t, e1[1] * (1 - t) + e2[1] * t))
    r = U * _rnd(rng, 0.5, 2.0)
    d = (int(round(a[0] + dv[0] * r)), int(round(a[1] + dv[1] * r)))
    # source: in the wedge of corner a beyond T (a is the one corner of T it cannot see), nearer to b
    al = _rnd(rng, 0.7, 3.0); be = al * _rnd(rng, 0.2, 1.0)
    s = (int(round(a[0] + al * (b[0] - a[0]) + be * (c[0] - a[0]))), int(round(a[1] + al * (b[1] - a[1]) + be * (c[1] - a[1]))))
    polys = [T]
    thin = max(1.0, U * _rnd(rng, 0.02, 0.07))
    thick = rng.chance(1, 2)
    frm_near = rng.chance(3, 4)
    ad = _unit((d[0] - a[0], d[1] - a[1]))
    frm = b
    for k in range(rng.choice([1, 2, 2, 2, 3])):
        tt = _rnd(rng, 0.15, 0.75)
        W = _corner_wall(rng, (frm[0] + (d[0] - frm[0]) * tt, frm[1] + (d[1] - frm[1]) * tt), _unit((d[0] - frm[0], d[1] - frm[1])), U, a, d,
                         thin * (rng.range(2, 5) if thick else 1))
        if W is None:
            return None
        polys.append(W)
        # the next wall stands across the way from this wall's near (or far) end to the target
        frm = (min if frm_near else max)(W, key=lambda p: abs((p[0] - a[0]) * (-ad[1]) + (p[1] - a[1]) * ad[0]))
    if rng.chance(1, 4):
        x = ox + rng.range(-U, U); y = oy + rng.range(-U, U)
        polys.append(poly_in_box(rng, (x, y, x + rng.range(2, max(3, U // 4)), y + rng.range(2, max(3, U // 4))), None))
    for x in range(len(polys)):
        for y in range(x + 1, len(polys)):
            if not polys_separated(polys[x], polys[y], 1):
                return None
    if s == d or not all(point_clear(P, s, 1) and point_clear(P, d, 1) for P in polys):
        return None

    def vis(p, q):
        return not any(through_interior(P, p, q) for P in polys)
    # necessary for the two searches to differ: corner a sees the target, the source sees b, the straight line is blocked
    if not vis(a, d) or not vis(s, b) or vis(s, d):
        return None
    return polys, [(s, d)]


def q_sel(pens, shapes, s, d):
    return 'TAUTSEL %d %s %s %s %s' % (len(pens), ' '.join(str(int(p) * PICO) for p in pens), tok_shapes(shapes), tok_pt(s), tok_pt(d))


def parse_sel(a):
    """'cP cV cP cV ..' -> [(cost_pico | None, cost_pico | None)] per penalty: route_taut's search, vertex-only search"""
    t = a.split()
    f = lambda x: None if x == '-' else int(x)
    return [(f(t[2 * i]), f(t[2 * i + 1])) for i in range(len(t) // 2)]


def run_driver_parallel(exe, queries, jobs=4, timeout=1200):
    """the driver answers line by line without state: split the queries over `jobs` processes"""
    if len(queries) < 4 * jobs:
        return run_driver(exe, queries, timeout)
    from concurrent.futures import ThreadPoolExecutor
    k = (len(queries) + jobs - 1) // jobs
    chunks = [queries[i:i + k] for i in range(0, len(queries), k)]
    with ThreadPoolExecutor(jobs) as ex:
        return [a for r in ex.map(lambda ch: run_driver(exe, ch, timeout), chunks) for a in r]


# ------------------------------------------------------------------------------------------ third round of seeded changes (DESIGN 9.10)
def chords_unblocked(drv, polys, route, offs):
    """refinement of the classifier of the known finding degenerate_chord (F-b): every offending (segment, shape) pair is a degenerate
    chord AND the code's own per-shape test, as proved (C03_unblocked_char / C03_blocked_by_shape_eq_spec: the extracted spec_shapeBlocks =
    blocked_by_shape = the cpp2v translation of newBlockingShape's loop), does NOT block it, i.e. fewer than two end-point touches.  A
    chord with both ends on the shape's border (two touches) is blocked by the unchanged code, so a route along it is not the known finding."""
    if not offs or offs == [(-1, -1, 0)] or not all(o[2] == 1 for o in offs):
        return False
    qs = []
    for (seg, shp, dg) in offs:
        if seg + 1 >= len(route) or shp >= len(polys):
            return False
        qs.append('BLK %s %s %s' % (tok_poly(polys[shp]), tok_pt(route[seg]), tok_pt(route[seg + 1])))
    return all(a.split()[0] == '0' for a in run_driver(drv, qs))


def block_harness():
    return build_harness_retry('c03_block', ['libavoid'], 'exc')


def _border_points(P, rng, k=2):
    """points on the border of polygon P with coordinates that are multiples of 1/2: vertices, edge midpoints, other lattice points of the edges"""
    pts = []
    n = len(P)
    for i in range(n):
        a, b = P[i], P[(i + 1) % n]
        pts.append((a, 'v'))
        pts.append((((a[0] + b[0]) / 2.0, (a[1] + b[1]) / 2.0), 'm'))
        g = math.gcd(abs(b[0] - a[0]), abs(b[1] - a[1]))
        if g > 2:
            j = rng.range(1, g - 1)
            pts.append(((a[0] + (b[0] - a[0]) // g * j, a[1] + (b[1] - a[1]) // g * j), 'e'))
    return pts


def gen_block_queries(rng, n):
    """(polygon, e1, e2, tag) inputs for the per-shape blocking loops, aimed at the case split of blocked_char: 0 / 1 / 2 end-point touches spread
    over different polygon edges, touches at vertices, both ends on one edge, collinear overlaps with an edge, chords through vertices from
    outside, proper crossings.  Coordinates are small integers or half-integers (exact in binary64 and in Q)."""
    out = []
    while len(out) < n:
        x0, y0 = 2 * rng.range(-6, 6), 2 * rng.range(-6, 6)
        P = poly_in_box(rng, (x0, y0, x0 + 2 * rng.range(2, 7), y0 + 2 * rng.range(2, 7)), rng.choice([0, 0, 5, 6, 7, 9, 9]))
        P = [tuple(p) for p in P]
        bp = _border_points(P, rng)
        b = bbox(P)

        def outside():
            return (rng.range(b[0] - 6, b[2] + 6), rng.range(b[1] - 6, b[3] + 6))
        kind = rng.below(10)
        if kind <= 2:
            (p, t1), (q, t2) = rng.choice(bp), rng.choice(bp)          # both ends on the border
            tag = 'border-border:%s%s' % (t1, t2)
        elif kind == 3:
            (p, t1) = rng.choice(bp); q = outside(); tag = 'border-any:' + t1
        elif kind == 4:
            # collinear with an edge: both ends on the edge's line
            i = rng.below(len(P)); a, c = P[i], P[(i + 1) % len(P)]
            k1, k2 = rng.range(-3, 5), rng.range(-3, 5)
            p = (a[0] + (c[0] - a[0]) * k1 / 2.0, a[1] + (c[1] - a[1]) * k1 / 2.0); q = (a[0] + (c[0] - a[0]) * k2 / 2.0, a[1] + (c[1] - a[1]) * k2 / 2.0)
            tag = 'collinear'
        elif kind == 5:
            # through two vertices, ends beyond them (the degenerate chord of F-b) or exactly on them
            a, c = rng.choice(P), rng.choice(P)
            k1, k2 = rng.choice([0, 0, 1, 2]), rng.choice([0, 0, 1, 2])
            p = (a[0] - (c[0] - a[0]) * k1 / 2.0, a[1] - (c[1] - a[1]) * k1 / 2.0); q = (c[0] + (c[0] - a[0]) * k2 / 2.0, c[1] + (c[1] - a[1]) * k2 / 2.0)
            tag = 'vertex-line'
        elif kind == 6:
            # from a border point through a vertex
            (p, t1) = rng.choice(bp); c = rng.choice(P)
            k2 = rng.choice([0, 1, 2, 4])
            q = (c[0] + (c[0] - p[0]) * k2 / 2.0, c[1] + (c[1] - p[1]) * k2 / 2.0)
            tag = 'border-through-vertex:' + t1
        else:
            p, q = outside(), outside(); tag = 'any-any'
        if p == q:
            continue
        p, q = (float(p[0]), float(p[1])), (float(q[0]), float(q[1]))
        if rng.chance(1, 3) and p[0] == int(p[0]) and p[1] == int(p[1]):
            # a first shape that the end p touches once (p in the middle of one of its sides): firstBlocker must reset the flag between shapes
            px, py = int(p[0]), int(p[1])
            w, h = rng.range(1, 4), rng.range(1, 4)
            D = rng.choice([(px - w, py - 2 * h, px + w, py), (px - w, py, px + w, py + 2 * h), (px - 2 * w, py - h, px, py + h), (px, py - h, px + 2 * w, py + h)])
            out.append((P, p, q, tag + '+first', rect_poly(D)))
        else:
            out.append((P, p, q, tag))
    return out


def small_block_sweep():
    """exhaustive: three small polygons, every ordered pair of distinct points of a 7 x 7 lattice round them"""
    polys = [[(4, 0), (4, 4), (0, 4), (0, 0)], [(4, 0), (2, 4), (0, 0)], [(4, 1), (4, 3), (3, 4), (1, 4), (0, 3), (0, 1), (1, 0), (3, 0)]]
    pts = [(float(x), float(y)) for x in range(-1, 6) for y in range(-1, 6)]
    return [(P, p, q, 'sweep') for P in polys for p in pts for q in pts if p != q]


def run_block_harness(exe, queries, timeout=600):
    """-> list of (firstBlocker_blocked, newBlockingShape_blocked) or ('EXC', text)"""
    lines = [('B %s %s %s %s %s' % (fmt_poly(t[0]), repr(t[1][0]), repr(t[1][1]), repr(t[2][0]), repr(t[2][1]))) if len(t) == 4 else
             ('D %s %s %s %s %s %s' % (fmt_poly(t[4]), fmt_poly(t[0]), repr(t[1][0]), repr(t[1][1]), repr(t[2][0]), repr(t[2][1]))) for t in queries]
    rc, out, err, dt = C.sh([exe], input='\n'.join(lines) + '\n', timeout=timeout)
    res = []
    for line in out.split('\n'):
        t = line.split()
        if not t:
            continue
        if t[0] == 'B':
            res.append((int(t[1]), int(t[2])))
        elif t[0] == 'EXC':
            res.append(('EXC', line[4:]))
    if rc != 0 or len(res) != len(queries):
        raise RuntimeError('c03_block harness failed rc=%s answers=%d/%d %s' % (rc, len(res), len(queries), err[-400:]))
    return res


def _xf(sym, sc, off, p):
    a, b, c, d = sym
    return (sc * (a * p[0] + b * p[1]) + off[0], sc * (c * p[0] + d * p[1]) + off[1])


def _xf_rect(sym, sc, off, bx):
    p, q = _xf(sym, sc, off, (bx[0], bx[1])), _xf(sym, sc, off, (bx[2], bx[3]))
    return rect_poly((min(p[0], q[0]), min(p[1], q[1]), max(p[0], q[0]), max(p[1], q[1])))


def gen_wedged_history(rng, rect_only=True, R=40):
    """-> (ops, tags).  Three mutually touching rectangles: a tall shape X wedged between A (touching X's one long side) and B (touching the
    other), such that the segment from a corner of A to a corner of B is a chord through X's interior with BOTH ends on X's border (two
    end-point touches, no proper crossing: blocked only by the `second touch` rule of segmentShapeIntersect) and tangent to A and B at
    those corners; a connector whose taut route would run along that chord.  What varies is WHEN X becomes active relative to the A-B
    visibility edge: X has the largest / smallest id of one transaction, is added in a later transaction, is moved into the gap
    (relative or absolute move) or grown into it; 8 symmetries, scales 1-10, optional far shapes and a later endpoint nudge."""
    sym = rng.choice(SYMS); sc = rng.choice([1, 1, 2, 3, 5, 10]); off = (rng.range(-20, 60), rng.range(-20, 60))
    W = rng.range(3, 30); H1 = rng.range(15, 60); H2 = rng.range(15, 60)
    aw, bw = rng.range(2, 20), rng.range(2, 20)
    drop = rng.range(1, 12)
    ah, bh = rng.range(2, 8), rng.range(2, 8)
    ay1 = rng.range(-H1 + ah + drop + bh + 2, H2 - 2) if H2 - 2 >= -H1 + ah + drop + bh + 2 else 0
    ay0 = ay1 - ah
    by0 = ay1 - drop; by1 = by0 + bh
    if by1 >= H2 or ay0 <= -H1 or by0 <= -H1:
        return None, []
    Xb, Ab, Bb = (0, -H1, W, H2), (-aw, ay0, 0, ay1), (W, by0, W + bw, by1)
    # s above-left of A's top-right corner (0, ay1), d below-right of B's bottom-left corner (W, by0)
    s = (-aw - rng.range(0, 12), ay1 + rng.range(1, 5)); d = (W + bw + rng.range(0, 12), by0 - rng.range(1, 5))
    if rng.chance(1, 4):
        s = (-rng.range(1, aw + 8), ay1 + rng.range(1, 9)); d = (W + rng.range(1, bw + 8), by0 - rng.range(1, 9))
    cA, cB = (0, ay1), (W, by0)
    taut = cross(s, cA, cB) < 0 and cross(cA, cB, d) > 0
    if not taut and rng.chance(3, 4):
        return None, []
    T = lambda b: _xf_rect(sym, sc, off, b)
    PX, PA, PB = T(Xb), T(Ab), T(Bb)
    sp, dp = _xf(sym, sc, off, s), _xf(sym, sc, off, d)
    if rng.chance(1, 2):
        sp, dp = dp, sp
    kind = rng.choice(['last_id', 'last_id', 'later', 'later', 'move_in_rel', 'move_in_abs', 'grow', 'first_id'])
    ids = {'last_id': (1, 2, 3), 'first_id': (2, 3, 1)}.get(kind, rng.choice([(1, 2, 3), (2, 3, 1), (1, 3, 2), (3, 1, 2)]))
    iA, iB, iX = ids
    ops, tags = [], [kind, 'taut' if taut else 'slack']
    far = []
    for k in range(rng.range(0, 2)):
        fx, fy = rng.range(40, 70) * rng.choice([-1, 1]), rng.range(-60, 60)
        far.append(T((fx, fy, fx + rng.range(2, 9), fy + rng.range(2, 9))))
    first = [('A', iA, PA), ('A', iB, PB)] + [('A', 10 + k, P) for k, P in enumerate(far)]
    if kind in ('last_id', 'first_id'):
        first.append(('A', iX, PX))
        first = rng.shuffle(first)             # creation order differs from id order; the router activates shapes in id order
        ops += first + [('C', 100, sp, dp), ('P',)]
    elif kind == 'later':
        ops += rng.shuffle(first) + [('C', 100, sp, dp), ('P',), ('A', iX, PX), ('P',)]
    elif kind in ('move_in_rel', 'move_in_abs'):
        mv = (rng.range(35, 90) * rng.choice([-1, 1]), 0) if rng.chance(1, 2) else (0, (H1 + H2 + rng.range(5, 40)) * rng.choice([-1, 1]))
        a, b, c, dd = sym
        mvx = (sc * (a * mv[0] + b * mv[1]), sc * (c * mv[0] + dd * mv[1]))
        Pfar = [(x + mvx[0], y + mvx[1]) for x, y in PX]
        ops += rng.shuffle(first + [('A', iX, Pfar)]) + [('C', 100, sp, dp), ('P',)]
        ops += [('M', iX, -mvx[0], -mvx[1]) if kind == 'move_in_rel' else ('T', iX, PX), ('P',)]
    else:
        # grow: X starts narrower, touching neither (or only one) neighbour
        l = rng.range(0, W - 1); r = rng.range(l + 1, W)
        if (l, r) == (0, W):
            l = 1 if W > 1 else 0
        ops += rng.shuffle(first + [('A', iX, T((l, -H1, r, H2)))]) + [('C', 100, sp, dp), ('P',), ('T', iX, PX), ('P',)]
    if rng.chance(1, 3):
        e = rng.below(2)
        p = (sp, dp)[e]
        ops += [('E', 100, e, (p[0] + rng.range(-1, 1), p[1] + rng.range(-1, 1))), ('P',)]
    # endpoints must be in free space (outside every closed shape) at every dump
    shapes, conns = {}, {}
    for o in ops:
        if o[0] == 'P':
            for (a_, b_) in conns.values():
                if a_ == b_ or any(inside_closed(Pg, a_) or inside_closed(Pg, b_) for Pg in shapes.values()):
                    return None, []
        else:
            shapes, conns = hist_apply(shapes, conns, o)
    return ops, tags


def pocket_open_state(shapes, p, region):
    """'open' (the integer point p reaches the border of `region` through free unit cells: an opening at least 1 wide), 'closed' (not even along
    zero-width seams between touching shapes) or 'seam' (only along such seams: exact geometry says routable, a router working with closed
    obstacles does not - outside the generated domain).  Integer shapes; doubled coordinates so that lattice points, edge midpoints and cell
    centres are all integer."""
    X0, Y0, X1, Y1 = [2 * c for c in region]
    blocked = set()
    for P in shapes.values():
        P2 = [(2 * x, 2 * y) for x, y in P]
        b = bbox(P2)
        isrect = len(P) == 4 and sorted(P2) == sorted(rect_poly(b))
        for X in range(max(b[0] + 1, X0), min(b[2], X1 + 1)):
            for Y in range(max(b[1] + 1, Y0), min(b[3], Y1 + 1)):
                if isrect or inside_strict(P2, (X, Y)):
                    blocked.add((X, Y))

    def bfs(start, step):
        seen, todo = {start}, [start]
        while todo:
            x, y = todo.pop()
            if x <= X0 or x >= X1 or y <= Y0 or y >= Y1:
                return True
            for dx, dy in ((1, 0), (-1, 0), (0, 1), (0, -1)):
                m = (x + dx, y + dy); n = (x + 2 * dx, y + 2 * dy)
                if n not in seen and m not in blocked and n not in blocked:
                    seen.add(n); todo.append(n)
        return False
    if bfs((2 * p[0] + 1, 2 * p[1] + 1), 2):
        return 'open'
    return 'seam' if bfs((2 * p[0], 2 * p[1]), 2) else 'closed'


def gen_pocket_history(rng, rect_only=False, R=40):
    """-> (ops, tags).  "Unroutable, then routable": one endpoint of a connector lies in a pocket enclosed by 3-4 OVERLAPPING walls (box4: four
    rectangles overlapping at the corners; tri3, polyline only: two rectangles and a diagonal quadrilateral), so that no route exists and the router
    emits the straight line; a later transaction opens the pocket by deleting a wall, moving it away (relative move), shrinking it (absolute move
    to a shorter wall) or sliding it along; optional transactions while the pocket is still closed (something else changes), optional re-closing
    and opening of a different wall.  Walls overlap each other, all other shapes keep their distance; endpoints are never on or in a shape."""
    tags = []
    x0, y0 = rng.range(5, 30), rng.range(5, 30)
    iw, ih = rng.range(5, 14), rng.range(5, 14)
    x1, y1 = x0 + iw, y0 + ih
    t = rng.range(2, 6); e = rng.range(0, 4)
    kind = 'box4' if rect_only or rng.chance(2, 3) else 'tri3'
    walls = {}
    if kind == 'box4':
        walls[1] = rect_poly((x0 - t - e, y0 - t, x1 + t + e, y0))          # low  y side
        walls[2] = rect_poly((x0 - t - e, y1, x1 + t + e, y1 + t))          # high y side
        walls[3] = rect_poly((x0 - t, y0 - t - e, x0, y1 + t + e))          # low  x side
        walls[4] = rect_poly((x1, y0 - t - e, x1 + t, y1 + t + e))          # high x side
        inner = [(x, y) for x in range(x0 + 1, x1) for y in range(y0 + 1, y1)]
    else:
        walls[1] = rect_poly((x0 - t - e, y0 - t, x1 + t + e, y0))
        walls[3] = rect_poly((x0 - t, y0 - t - e, x0, y1 + t + e))
        w = rng.range(3, 8)
        Q = [(x0 - t, y1), (x1, y0 - t), (x1 + w, y0 - t), (x0 - t, y1 + w)]
        Q = Q if convex_ccw(Q) else Q[::-1]
        if not convex_ccw(Q):
            return None, []
        walls[2] = Q
        inner = [(x, y) for x in range(x0 + 1, x1) for y in range(y0 + 1, y1) if not inside_closed(Q, (x, y)) and cross(Q[0], Q[1], (x, y)) != 0
                 and all(abs(cross(a, b, (x, y))) >= max(abs(b[0] - a[0]), abs(b[1] - a[1])) for a, b in edges(Q))]
    if not inner:
        return None, []
    tags.append(kind)
    H = _Hist(rng, rect_only, R)
    ops = []
    shapes = {}
    order = rng.shuffle(sorted(walls))
    idmap = {}
    ids = rng.shuffle([1, 2, 3, 4, 5, 6])[:len(walls)]
    for wname, i in zip(order, ids):
        idmap[wname] = i
        shapes[i] = walls[wname]
        ops.append(('A', i, walls[wname]))
    wb = (x0 - t - e - 1, y0 - t - e - 1, x1 + t + e + 9, y1 + t + e + 9)

    def outside_point():
        for _ in range(200):
            p = (rng.range(wb[0] - 25, wb[2] + 25), rng.range(wb[1] - 25, wb[3] + 25))
            if not (wb[0] <= p[0] <= wb[2] and wb[1] <= p[1] <= wb[3]) and not any(in_any_bbox([Pg], p) for Pg in shapes.values()):
                return p
        return None
    # 0-2 shapes outside, away from the walls and from each other
    nid = 7
    for _ in range(rng.range(0, 2)):
        for _ in range(30):
            p = outside_point()
            if p is None:
                break
            bx = (p[0], p[1], p[0] + rng.range(2, 8), p[1] + rng.range(2, 8))
            if box_sep(bx, wb, 2) and all(box_sep(bx, bbox(shapes[j]), 2) for j in shapes if j >= 7):
                Pn = rect_poly(bx) if rect_only or rng.chance(1, 2) else poly_in_box(rng, bx)
                shapes[nid] = Pn; ops.append(('A', nid, Pn)); nid += 1
                break
    inp = rng.choice(inner)
    outp = outside_point()
    if outp is None:
        return None, []
    conns = {100: (outp, inp) if rng.chance(1, 2) else (inp, outp)}
    ops.append(('C', 100, conns[100][0], conns[100][1]))
    if rng.chance(1, 3):
        q1, q2 = outside_point(), (rng.choice(inner) if rng.chance(1, 2) else outside_point())
        if q1 and q2 and q1 != q2 and q2 != inp:
            conns[101] = (q1, q2); ops.append(('C', 101, q1, q2)); tags.append('second_conn')
    ops = rng.shuffle(ops[:len(ops) - len(conns)]) + ops[len(ops) - len(conns):]
    ops.append(('P',))

    def still_closed_change():
        k = rng.below(3)
        far = [j for j in shapes if j >= 7]
        if k == 0 and far:
            j = rng.choice(far)
            for _ in range(20):
                dx, dy = rng.range(-4, 4), rng.range(-4, 4)
                nb = bbox([(x + dx, y + dy) for x, y in shapes[j]])
                if (dx or dy) and box_sep(nb, wb, 2) and all(box_sep(nb, bbox(shapes[m]), 2) for m in far if m != j) and \
                        not any(in_any_bbox([rect_poly(nb)], p) for c in conns.values() for p in c):
                    ops.append(('M', j, dx, dy)); shapes[j] = [(x + dx, y + dy) for x, y in shapes[j]]
                    return 'closed_move_far'
        if k == 1:
            p = outside_point()
            which = 0 if conns[100][0] != inp else 1
            if p is not None and p != conns[100][1 - which]:
                ops.append(('E', 100, which, p)); conns[100] = (p, inp) if which == 0 else (inp, p)
                return 'closed_move_outer_end'
        if k == 2:
            q = rng.choice(inner)
            which = 0 if conns[100][0] == inp else 1
            if q != inp and 101 not in conns:
                ops.append(('E', 100, which, q)); conns[100] = (q, conns[100][1]) if which == 0 else (conns[100][0], q)
                return 'closed_move_inner_end'
        return None
    if rng.chance(2, 5):
        tg = still_closed_change()
        if tg:
            if tg == 'closed_move_inner_end':
                inp = [p for p in conns[100] if p in inner][0]
            tags.append(tg); ops.append(('P',))

    def open_wall(wname):
        i = idmap[wname]
        P0 = shapes[i]
        how = rng.choice(['delete', 'move_away', 'shrink', 'slide'])
        if how == 'delete':
            ops.append(('D', i)); del shapes[i]
            return how, None
        if how == 'move_away':
            dx, dy = rng.choice([(0, 1), (0, -1), (1, 0), (-1, 0)])
            m = rng.range(60, 120)
            ops.append(('M', i, dx * m, dy * m)); shapes[i] = [(x + dx * m, y + dy * m) for x, y in P0]
            return how, (i, P0)
        b = bbox(P0)
        horizontal = (b[2] - b[0]) >= (b[3] - b[1])
        if len(P0) != 4 or P0 != rect_poly(b):
            ops.append(('D', i)); del shapes[i]
            return 'delete', None
        L = (b[2] - b[0]) if horizontal else (b[3] - b[1])
        if how == 'shrink':
            cut = rng.range(max(2, L // 3), max(2, (2 * L) // 3))          # the wall keeps `cut` of its length at one end: the rest is an opening
            if rng.chance(1, 2):
                nb = (b[0], b[1], b[0] + cut, b[3]) if horizontal else (b[0], b[1], b[2], b[1] + cut)
            else:
                nb = (b[2] - cut, b[1], b[2], b[3]) if horizontal else (b[0], b[3] - cut, b[2], b[3])
            ops.append(('T', i, rect_poly(nb))); shapes[i] = rect_poly(nb)
            return how, (i, P0)
        sl = rng.range(max(3, L // 2), L) * rng.choice([-1, 1])
        dx, dy = (sl, 0) if horizontal else (0, sl)
        ops.append(('M', i, dx, dy)); shapes[i] = [(x + dx, y + dy) for x, y in P0]
        return how, (i, P0)
    wname = rng.choice(sorted(walls))
    how, undo = open_wall(wname)
    tags.append('open_' + how)
    ops.append(('P',))
    if undo is not None and rng.chance(1, 4):
        # close it again, then open another wall
        i, P0 = undo
        ops.append(('T', i, P0)); shapes[i] = P0; ops.append(('P',))
        others = [w_ for w_ in sorted(walls) if w_ != wname]
        how2, _ = open_wall(rng.choice(others))
        tags.append('reclose_open_' + how2)
        ops.append(('P',))
    elif rng.chance(1, 4):
        p = outside_point()
        which = 0 if conns[100][0] not in inner else 1
        if p is not None and conns[100][which] not in inner and p != conns[100][1 - which]:
            ops.append(('E', 100, which, p)); ops.append(('P',)); tags.append('then_move_outer_end')
    # final validity: endpoints never on / in a shape; at every dump the pocket is either closed or open by at least one unit (no zero-width seams)
    shapes2, conns2 = {}, {}
    region = (wb[0] - 2, wb[1] - 2, wb[2] - 6, wb[3] - 6)
    inner_set = set(inner)
    states = []
    for o in ops:
        if o[0] == 'P':
            for (a_, b_) in conns2.values():
                if a_ == b_ or any(inside_closed(Pg, a_) or inside_closed(Pg, b_) for Pg in shapes2.values()):
                    return None, []
                for q in (a_, b_):
                    if q in inner_set:
                        st = pocket_open_state(shapes2, q, region)
                        if st == 'seam':
                            return None, []
                        states.append(st)
        else:
            shapes2, conns2 = hist_apply(shapes2, conns2, o)
    if 'closed' in states and 'open' in states[states.index('closed'):]:
        tags.append('closed_then_open')
    return ops, tags


def gen_zbend_scene(rng):
    """-> (polys, conns) or None.  Orthogonal scenes for the unifying nudging pre-step: 2-3 connectors whose routes are forced into Z-bends (H-V-H
    after the symmetry) with their middle segments in one corridor region.  All middle segments are bounded on one side by the same shape L; on
    the other side connector 1 is bounded by a small extra shape N next to its end row (narrow channel [a, a+w]), the others only by the far
    shape Rb (wide channel [a, b]); the spans of the middle segments overlap.  Coordinates are multiples of 5; 8 symmetries."""
    g = 5
    sym = rng.choice(SYMS); off = (g * rng.range(20, 40), g * rng.range(20, 40))
    a = 0
    w = g * rng.range(2, 8)                               # narrow channel width
    nw = g * rng.range(2, 12)                             # N's width
    b = a + w + nw + g * rng.range(4, 40)                 # Rb's near side
    lw, rw = g * rng.range(6, 24), g * rng.range(6, 20)
    n_y0 = 0; n_h = g * rng.range(4, 14)                  # N spans rows [0, n_h]
    gap1 = g * rng.range(4, 30)
    l_y0 = n_h + gap1; l_h = g * rng.range(6, 24)         # L below N (rows grow downwards in the template)
    r_y1 = l_y0 + g * rng.range(-6, 6); r_h = g * rng.range(8, 24)
    r_y0 = r_y1 - r_h
    if r_y0 <= n_h - g * 2 and rng.chance(1, 2):
        return None
    Lb = (a - lw, l_y0, a, l_y0 + l_h)
    Nb = (a + w, n_y0, a + w + nw, n_h)
    Rb = (b, r_y0, b + rw, r_y1)
    boxes = [Rb, Lb, Nb]
    bottom = max(l_y0 + l_h, r_y1) + g * rng.range(6, 50)
    conns = []
    # connector 1: from under Rb (x within Rb's columns, row below everything) to just left of the channel at a row inside N's rows
    s1 = (b + g * rng.range(1, max(1, rw // g - 1)), bottom)
    d1 = (a - g * rng.range(1, 4), n_y0 + g * rng.range(1, max(1, n_h // g - 1)))
    conns.append((s1, d1))
    for k in range(rng.range(1, 2)):
        sk = (b + g * rng.range(1, max(1, rw // g - 1)), bottom - g * rng.range(1, 12) * (k + 1))
        lo, hi = n_h + g, l_y0 - g
        if hi < lo:
            return None
        dk = (a - g * rng.range(1, 5), g * rng.range(lo // g, hi // g))
        conns.append((sk, dk))
    for _ in range(rng.range(0, 1)):
        bx = (g * rng.range(-60, 80), g * rng.range(-40, 100))
        boxes.append((bx[0], bx[1], bx[0] + g * rng.range(3, 12), bx[1] + g * rng.range(3, 12)))
    # validity in template coordinates: boxes separated by >= 5, endpoints outside every closed box by >= 5, distinct
    for i in range(len(boxes)):
        for j in range(i + 1, len(boxes)):
            if not box_sep(boxes[i], boxes[j], g):
                return None
    pts = [p for c in conns for p in c]
    if len(set(pts)) != len(pts):
        return None
    for p in pts:
        for bx in boxes:
            if bx[0] - g < p[0] < bx[2] + g and bx[1] - g < p[1] < bx[3] + g:
                return None
    polys = [_xf_rect(sym, 1, off, bx) for bx in boxes]
    cs = [(_xf(sym, 1, off, s), _xf(sym, 1, off, d)) for s, d in conns]
    if rng.chance(1, 2):
        cs = [(d, s) for s, d in cs]
    return polys, cs


def parse_hist_ops(strs):
    """inverse of hist_op_str (script lines 'R ..' / 'X' / 'O ..' are skipped)"""
    ops = []
    for s in strs:
        t = s.split()
        if not t:
            continue
        if t[0] in ('A', 'T'):
            k = int(t[2]); ops.append((t[0], int(t[1]), [(int(t[3 + 2 * j]), int(t[4 + 2 * j])) for j in range(k)]))
        elif t[0] == 'M':
            ops.append(('M', int(t[1]), int(t[2]), int(t[3])))
        elif t[0] == 'D':
            ops.append(('D', int(t[1])))
        elif t[0] == 'C':
            ops.append(('C', int(t[1]), (int(t[2]), int(t[3])), (int(t[4]), int(t[5]))))
        elif t[0] == 'E':
            ops.append(('E', int(t[1]), int(t[2]), (int(t[3]), int(t[4]))))
        elif t[0] == 'Y':
            ops.append(('Y', int(t[1]), int(t[2])))
        elif t[0] == 'P':
            ops.append(('P',))
    return ops


def sweep_computed_edge_last(ops, trans, u, v, xid):
    """Classifier predicate of the known finding sweep_border_chord, evaluated on a failing history: was the visibility edge u-v last
    (re)computed by the rotational sweep (visibility.cpp vertexSweep) while shape `xid` was already active - rather than tested by
    Router::newBlockingShape(xid) or re-checked by EdgeInf::checkVis / firstBlocker afterwards?
    Order of events as in Router::processActions: per transaction all moved / deleted shapes leave (their blocked edges are re-checked with
    firstBlocker), then moved shapes (by id), then added shapes (by id) are activated - newBlockingShape(shape) over the existing edges, then a
    sweep from each of its vertices -, then connector end changes get their sweep when the connector is routed; with transactions off every op is
    its own transaction.  The edge u-v is swept whenever a shape owning u or v as a vertex is activated or a connector end at u or v is set.
    True iff the latest sweep of u-v is later than the last activation of xid and later than the last re-check (a shape whose old polygon the
    segment passed through was moved or deleted)."""
    u, v = (F(u[0]), F(u[1])), (F(v[0]), F(v[1]))
    groups, cur = [], []
    for o in ops:
        if o[0] == 'P':
            if cur:
                groups.append(cur)
            cur = []
        elif trans:
            cur.append(o)
        else:
            groups.append([o])
    shapes, ends = {}, {}
    act, endt = {}, {}              # id -> time of last activation ; (cid, which) -> time of last sweep from that end
    recheck = (-1, 0, 0)
    for g, grp in enumerate(groups):
        before = dict(shapes)
        added, moved, deleted, endch = set(), set(), set(), set()
        for o in grp:
            if o[0] == 'A':
                shapes[o[1]] = list(o[2]); added.add(o[1])
            elif o[0] == 'T':
                shapes[o[1]] = list(o[2]); moved.add(o[1])
            elif o[0] == 'M':
                shapes[o[1]] = [(x + o[2], y + o[3]) for x, y in shapes[o[1]]]; moved.add(o[1])
            elif o[0] == 'D':
                shapes.pop(o[1], None); deleted.add(o[1])
            elif o[0] == 'C':
                ends[(o[1], 0)] = o[2]; ends[(o[1], 1)] = o[3]; endch.add((o[1], 0)); endch.add((o[1], 1))
            elif o[0] == 'E':
                ends[(o[1], o[2])] = o[3]; endch.add((o[1], o[2]))
        moved -= added
        for i in (moved | deleted):
            if i != xid and i in before and through_interior(before[i], u, v):
                recheck = max(recheck, (g, 0, i))
        for i in moved:
            if i in shapes:
                act[i] = (g, 1, i)
        for i in added:
            if i in shapes:
                act[i] = (g, 2, i)
        for k in endch:
            endt[k] = (g, 3, k[0])
    if xid not in act:
        return False
    sweeps = [act[i] for i, P in shapes.items() if i != xid and i in act and any((F(p[0]), F(p[1])) in (u, v) for p in P)]
    sweeps += [endt[k] for k, p in ends.items() if (F(p[0]), F(p[1])) in (u, v)]
    if not sweeps:
        return False
    return max(sweeps) > act[xid] and max(sweeps) > recheck


def classify_border_chords(drv, polys, ids, route, offs, ops, trans):
    """-> 'degenerate_chord' (F-b: every offending segment is a degenerate chord that the code's own per-shape test does not block),
    'sweep_border_chord' (every offending segment is a degenerate chord; those the per-shape test DOES block - two end-point touches - were
    last computed by the rotational sweep with the shape already active) or None (not a known finding).  polys[k] has shape id ids[k]."""
    if not offs or offs == [(-1, -1, 0)] or not all(o[2] == 1 for o in offs):
        return None
    qs = []
    for (seg, shp, dg) in offs:
        if seg + 1 >= len(route) or shp >= len(polys):
            return None
        qs.append('BLK %s %s %s' % (tok_poly(polys[shp]), tok_pt(route[seg]), tok_pt(route[seg + 1])))
    ans = [a.split() for a in run_driver(drv, qs)]
    if all(a[0] == '0' for a in ans):
        return 'degenerate_chord'
    for (seg, shp, dg), a in zip(offs, ans):
        if a[0] == '1' and not sweep_computed_edge_last(ops, trans, route[seg], route[seg + 1], ids[shp]):
            return None
    return 'sweep_border_chord'


# ------------------------------------------------------------------------------------------ shapeBufferDistance > 0 in histories (DESIGN 9.20, seeded change C06-8)
# With shapeBufferDistance b > 0 the obstacle the router works with is Obstacle::routingPolygon() = the shape grown by b.  For an axis-parallel rectangle in
# libavoid orientation that is exactly the rectangle grown by b on every side (PolygonInterface::offsetPolygon: unit normals, R = 1, mitred corner), so the
# oracles of a buffered history (scene validity, route_ok, reference optimum) are those of the history of the GROWN rectangles; only rectangles are used.
def is_rect(P):
    return len(P) == 4 and sorted(tuple(p) for p in P) == sorted(rect_poly(bbox(P)))


def inflate_rect(P, b):
    """the routing polygon of rectangle P under shapeBufferDistance b (same vertex order)"""
    if b == 0:
        return list(P)
    x0, y0, x1, y1 = bbox(P)
    return [(p[0] + (b if p[0] == x1 else -b), p[1] + (b if p[1] == y1 else -b)) for p in P]


def inflate_shapes(shapes, b):
    return shapes if b == 0 else {i: inflate_rect(P, b) for i, P in shapes.items()}


def buffered_ops(ops, S, b):
    """scale every coordinate of a rectangles-only history by S and shrink every rectangle by b on each side (needs S > b): the routing polygons of the
    result under shapeBufferDistance b are the S-scaled rectangles of `ops`, so every generator's validity invariant carries over to the buffered world"""
    out = []
    for o in ops:
        if o[0] in ('A', 'T'):
            x0, y0, x1, y1 = bbox(o[2])
            if not is_rect(o[2]):
                return None
            out.append((o[0], o[1], rect_poly((x0 * S + b, y0 * S + b, x1 * S - b, y1 * S - b))))
        elif o[0] == 'M':
            out.append(('M', o[1], o[2] * S, o[3] * S))
        elif o[0] == 'C':
            out.append(('C', o[1], (o[2][0] * S, o[2][1] * S), (o[3][0] * S, o[3][1] * S)))
        elif o[0] == 'E':
            out.append(('E', o[1], o[2], (o[3][0] * S, o[3][1] * S)))
        else:
            out.append(o)
    return out


def gen_bufzone_history(rng, b, rect_only=True):
    """-> (ops, tags).  Family "bufzone" (shapeBufferDistance b > 0): a connector routed first; then a rectangle is added / moved (relative, absolute) /
    grown so that its BUFFER ZONE - not its body - lies across the connector's current straight route (body at distance 1 .. b-1 from the segment, both ends
    outside the grown rectangle); variants: bystander shapes, then moved away again, then moved so that the body blocks.  Every visibility edge the connector uses
    must be re-checked against the routing polygon (Router::processActions -> newBlockingShape(routingPolygon()))."""
    tags = []
    L = 40 * b
    for _ in range(60):
        s = (rng.range(0, L // 4), rng.range(0, L))
        d = (rng.range(3 * L // 4, L), rng.range(0, L))
        if rng.chance(1, 3):
            d = (d[0], s[1])                                         # axis-parallel route
        if rng.chance(1, 4):
            s, d = (s[1], s[0]), (d[1], d[0])
        if rng.chance(1, 2):
            s, d = d, s
        t = rng.range(25, 75)
        m = (s[0] + (d[0] - s[0]) * t // 100, s[1] + (d[1] - s[1]) * t // 100)
        w, h = rng.range(2, 6 * b), rng.range(2, 6 * b)
        x0 = m[0] - rng.range(-b, w + b); y0 = m[1] - rng.range(-b, h + b)
        near = rect_poly((x0, y0, x0 + w, y0 + h))
        if through_interior(inflate_rect(near, 1), s, d) or not through_interior(inflate_rect(near, b), s, d):
            continue
        gb = inflate_rect(near, b)
        if inside_closed(gb, s) or inside_closed(gb, d):
            continue
        break
    else:
        return None, []
    ops = []
    nid = 2
    shapes = {}
    # bystanders: rectangles far from the near rectangle and from the line's ends (validity is re-checked by the caller's simulate())
    for _ in range(rng.below(3)):
        for _ in range(20):
            bx, by = rng.range(-L // 4, L + L // 4), rng.range(-L // 4, L + L // 4)
            Bp = rect_poly((bx, by, bx + rng.range(2, 5 * b), by + rng.range(2, 5 * b)))
            gB = inflate_rect(Bp, b)
            if box_sep(bbox(gB), bbox(gb), 1) and all(box_sep(bbox(gB), bbox(inflate_rect(Q, b)), 1) for Q in shapes.values()) and \
                    not in_any_bbox([gB], s) and not in_any_bbox([gB], d):
                shapes[nid] = Bp; ops.append(('A', nid, Bp)); nid += 1
                break
    how = rng.choice(['add', 'move', 'moveabs', 'grow', 'endpoint'])
    tags.append(how)
    far_dx, far_dy = (rng.choice([-1, 1]) * rng.range(2 * L, 3 * L), rng.range(-b, b)) if rng.chance(1, 2) else (rng.range(-b, b), rng.choice([-1, 1]) * rng.range(2 * L, 3 * L))
    far = [(x + far_dx, y + far_dy) for x, y in near]
    if how == 'add':
        ops += [('C', 100, s, d), ('P',), ('A', 1, near), ('P',)]
    elif how == 'move':
        ops += [('A', 1, far), ('C', 100, s, d), ('P',), ('M', 1, -far_dx, -far_dy), ('P',)]
    elif how == 'moveabs':
        ops += [('A', 1, far), ('C', 100, s, d), ('P',), ('T', 1, near), ('P',)]
    elif how == 'grow':
        # a small rectangle inside `near` on the side away from the line whose own buffer zone does not reach the line
        x0, y0, x1, y1 = bbox(near)
        small = None
        for _ in range(20):
            sx0 = rng.range(x0, x1 - 1); sy0 = rng.range(y0, y1 - 1)
            c = rect_poly((sx0, sy0, rng.range(sx0 + 1, x1), rng.range(sy0 + 1, y1)))
            if not through_interior(inflate_rect(c, b + 1), s, d):
                small = c
                break
        if small is None:
            tags[-1] = 'add'
            ops += [('C', 100, s, d), ('P',), ('A', 1, near), ('P',)]
        else:
            ops += [('A', 1, small), ('C', 100, s, d), ('P',), ('T', 1, near), ('P',)]
    else:
        # the shape is there first; the connector is brought onto the line by endpoint moves in a later transaction
        s0 = (s[0] + far_dx, s[1] + far_dy); d0 = (d[0] + far_dx, d[1] + far_dy)
        ops += [('A', 1, near), ('C', 100, s0, d0), ('P',), ('E', 100, 0, s), ('E', 100, 1, d), ('P',)]
    if rng.chance(1, 2):
        tags.append('+away')
        ops += [('M', 1, far_dx, far_dy), ('P',)]
        if rng.chance(1, 2):
            tags.append('+back')
            ops += [('M', 1, -far_dx, -far_dy), ('P',)]
    elif rng.chance(1, 2):
        # slide along the line: the buffer zone still lies across it
        tags.append('+slide')
        ux, uy = d[0] - s[0], d[1] - s[1]
        k = rng.range(-10, 10)
        ops += [('M', 1, ux * k // 100, uy * k // 100), ('P',)]
    return ops, tags


def buffered_history_valid(ops, b):
    """every intermediate scene of a rectangles-only history is valid in the sense of plain_scene_valid for the GROWN rectangles (C03's twin of checks/c06.py simulate(buf=b))"""
    shapes, conns = {}, {}
    for o in ops:
        if o[0] == 'P':
            continue
        if o[0] in ('A', 'T') and not is_rect(o[2]):
            return False
        if (o[0] == 'A' and o[1] in shapes) or (o[0] in ('M', 'T', 'D') and o[1] not in shapes) or (o[0] == 'E' and o[1] not in conns):
            return False
        shapes, conns = hist_apply(shapes, conns, o)
        if not plain_scene_valid(inflate_shapes(shapes, b), conns):
            return False
    return True


# ------------------------------------------------------------------------------------------ dual-mode routers and routing-type switches (DESIGN 9.20, seeded change C03-8)
# Router(PolyLineRouting | OrthogonalRouting) = harness mode 2; op ('Y', cid, type) = ConnRef::setRoutingType (1 poly-line, 2 orthogonal).  New connectors of a
# dual-mode router are poly-line (Router::validConnType).  Rectangles only, endpoints outside every bounding box: both routing types then see the same obstacles.
def conn_types_after(ops):
    """{cid: 1|2} after the op list (dual-mode router)"""
    ty = {}
    for o in ops:
        if o[0] == 'C':
            ty[o[1]] = 1
        elif o[0] == 'Y':
            ty[o[1]] = o[2]
    return ty


def gen_typeswitch_history(rng, rect_only=True, R=40):
    """-> (ops, tags).  Family "typeswitch": 2-5 rectangles, 1-3 connectors across them, each given an initial routing type before the first transaction (left
    poly-line, or switched to orthogonal right after creation); then 2-5 transactions each of which switches the type of 1+ connectors (both directions), alone or
    together with an endpoint move (before / after the switch), a shape move, a shape add or delete, a there-and-back double switch; every connector's endpoints are
    thus (re)set under one type and routed under the other."""
    H = _Hist(rng, True, R)
    tags = []
    H.add_shapes(rng.range(2, 5))
    H.add_conns(rng.range(1, 3))
    if not H.conns or not H.shapes:
        return None, []
    ty = {c: 1 for c in H.conns}

    def switch(c):
        ty[c] = 3 - ty[c]
        H.ops.append(('Y', c, ty[c]))

    def move_end(c):
        for _ in range(30):
            p = free_point(rng, list(H.shapes.values()), R, use_bbox=True)
            if H.try_op(('E', c, rng.below(2), p)):
                return True
        return False

    for c in sorted(H.conns):
        if rng.chance(2, 3):
            switch(c)
    tags.append('init:' + ''.join('po'[ty[c] - 1] for c in sorted(ty)))
    H.P()
    for _ in range(rng.range(2, 5)):
        c = rng.choice(sorted(H.conns))
        how = rng.choice(['alone', 'alone', 'end_then_switch', 'switch_then_end', 'with_move', 'with_add', 'with_delete', 'double', 'all', 'end_only'])
        tags.append(how + ':' + ('to_poly' if ty[c] == 2 else 'to_orth'))
        if how == 'alone':
            switch(c)
        elif how == 'end_then_switch':
            move_end(c); switch(c)
        elif how == 'switch_then_end':
            switch(c); move_end(c)
        elif how == 'with_move':
            i = rng.choice(sorted(H.shapes))
            for _ in range(20):
                if H.try_op(('M', i, rng.range(-12, 12), rng.range(-12, 12))):
                    break
            switch(c)
        elif how == 'with_add':
            switch(c); H.add_shapes(1)
        elif how == 'with_delete':
            if len(H.shapes) > 1:
                H.try_op(('D', rng.choice(sorted(H.shapes))))
            switch(c)
        elif how == 'double':
            switch(c); switch(c)
            if rng.chance(1, 2):
                move_end(c)
        elif how == 'all':
            for cc in sorted(H.conns):
                switch(cc)
        else:
            move_end(c)                     # endpoints re-set under the current type; a later transaction switches
        H.P()
    return H.ops, tags


def inject_type_switches(rng, ops, p=(1, 3)):
    """insert setRoutingType ops for existing connectors at random places of a history (after each op with probability p)"""
    out, ty = [], {}
    for o in ops:
        out.append(o)
        if o[0] == 'C':
            ty[o[1]] = 1
        if ty and rng.chance(*p):
            c = rng.choice(sorted(ty))
            ty[c] = 3 - ty[c]
            out.append(('Y', c, ty[c]))
            if o[0] == 'P' and rng.chance(1, 2):
                out.append(('P',))          # a transaction that only switches a type
    if out[-1] != ('P',):
        out.append(('P',))
    return out


# ------------------------------------------------------------------------------------------ shared non-exclusive pin scenes (C03, DESIGN 9.20, seeded change C03-7)
def gen_sharedpin_scene(rng):
    """-> (polys, conns, script) or None.  Orthogonal router; a target rectangle with ONE non-exclusive pin of class 2 (setExclusive(false) or ConnDirAll), off-centre
    along its side (fraction 1/4, 3/4, 1/8, 3/8), inside offset 5 / 10, direction = the side's outward direction or all; 2-4 connectors from free points on all
    sides of the target, none in line with the pin, all with ConnEnd(target, 2) as destination; 1-3 obstacles between sources and target.  conns = (source, pin
    position): route_ok demands that the route ends exactly at the pin and stays out of every shape (the target contains the pin: exempt)."""
    w, h = rng.choice([80, 96, 120, 160]), rng.choice([40, 64, 80])
    x0, y0 = 300 + rng.range(-8, 8) * 5, 300 + rng.range(-8, 8) * 5
    x1, y1 = x0 + w, y0 + h
    fnum = rng.choice([1, 3, 1, 3, 5, 7])
    fden = 4 if fnum in (1, 3) and rng.chance(2, 3) else 8
    ins = rng.choice([5, 10])
    side = rng.choice('TBLR')
    f = fnum / float(fden)
    if side == 'T':
        xo, yo, pos, dirs = f, 0.0, (x0 + w * fnum // fden, y0 + ins), 1
    elif side == 'B':
        xo, yo, pos, dirs = f, 1.0, (x0 + w * fnum // fden, y1 - ins), 2
    elif side == 'L':
        xo, yo, pos, dirs = 0.0, f, (x0 + ins, y0 + h * fnum // fden), 4
    else:
        xo, yo, pos, dirs = 1.0, f, (x1 - ins, y0 + h * fnum // fden), 8
    if (w * fnum) % fden or (h * fnum) % fden:
        return None
    allflag = rng.chance(1, 4)
    excl = -1 if allflag and rng.chance(1, 2) else 0
    target = rect_poly((x0, y0, x1, y1))
    polys = [target]
    cx, cy = (x0 + x1) // 2, (y0 + y1) // 2
    srcs = []
    for sd in rng.shuffle(['L', 'R', 'T', 'B', 'L', 'R'])[:rng.range(2, 4)]:
        far = rng.range(30, 56) * 5
        off = rng.range(-12, 12) * 5
        p = {'L': (x0 - far, cy + off), 'R': (x1 + far, cy + off), 'T': (cx + off, y0 - far), 'B': (cx + off, y1 + far)}[sd]
        if p[0] == pos[0] or p[1] == pos[1] or p in srcs:
            continue
        srcs.append(p)
        if len(polys) < 4 and rng.chance(3, 4):
            mx, my = (p[0] + cx) // 2 // 5 * 5, (p[1] + cy) // 2 // 5 * 5
            ob = (mx - 20, my - 60, mx + 20, my + 60) if sd in 'LR' else (mx - 60, my - 20, mx + 60, my + 20)
            if all(box_sep(ob, bbox(Q), 30) for Q in polys) and not any(ob[0] - 5 <= q[0] <= ob[2] + 5 and ob[1] - 5 <= q[1] <= ob[3] + 5 for q in srcs):
                polys.append(rect_poly(ob))
    srcs = [p for p in srcs if not in_any_bbox(polys, p, margin=5)]
    if len(srcs) < 2:
        return None
    pen, nudge = rng.choice([(10, 0), (50, 0), (10, 4)])
    L = ['R 1 %s 0.0 %s 1' % (repr(float(pen)), repr(float(nudge)))]
    for i, P in enumerate(polys):
        L.append('A %d %s' % (i + 1, fmt_poly(P)))
    L.append('N 1 2 %r %r %r %d %d' % (xo, yo, float(ins), 15 if allflag else dirs, excl))
    for i, p in enumerate(srcs):
        L.append('Q %d %d %d 1 2' % (100 + i, p[0], p[1]))
    L += ['P', 'X']
    return polys, [(p, pos) for p in srcs], L, pen, nudge
