"""Shared machinery of the libavoid routing checks C03 / C04 / C06 (DESIGN 5.3, 5.4, 5.6):
scene and history generators, the script protocol of harness/c03_route.cpp, the query protocol of the
extracted model driver extract/c03_driver.ml, exact integer geometry for generation-time filtering.
Not a check itself (mkmanifest / warm only look at cNN.py)."""
import os, math
from fractions import Fraction as F
from vlib import common as C

PICO = 10 ** 12


# ------------------------------------------------------------------------------------------ exact helpers (ints / Fractions)
def cross(o, a, b):
    return (a[0] - o[0]) * (b[1] - o[1]) - (a[1] - o[1]) * (b[0] - o[0])


def edges(P):
    n = len(P)
    return [(P[i - 1], P[i]) for i in range(n)]


def inside_strict(P, q):
    return all(cross(a, b, q) > 0 for a, b in edges(P))


def inside_closed(P, q):
    return all(cross(a, b, q) >= 0 for a, b in edges(P))


def convex_ccw(P):
    if len(P) < 3:
        return False
    for a, b in edges(P):
        for q in P:
            if q != a and q != b and cross(a, b, q) <= 0:
                return False
    return True


def through_interior(P, u, v):
    """some point of the open segment uv is strictly inside the convex polygon P (Cyrus-Beck, exact)"""
    lo, hi = F(0), F(1)
    dx, dy = v[0] - u[0], v[1] - u[1]
    for a, b in edges(P):
        c0 = cross(a, b, u)
        c1 = (b[0] - a[0]) * dy - dx * (b[1] - a[1])
        if c1 > 0:
            lo = max(lo, F(-c0, c1))
        elif c1 < 0:
            hi = min(hi, F(-c0, c1))
        elif c0 <= 0:
            return False
        if lo >= hi:
            return False
    return lo < hi


def proper_cross(a, b, c, d):
    return cross(a, b, c) * cross(a, b, d) < 0 and cross(c, d, a) * cross(c, d, b) < 0


def degenerate_chord(P, a, b):
    """Python twin of SegPolyModel.degenerate_chord (used only to steer generators; classification of a failing
    case is done by the extracted Coq predicate)"""
    if inside_strict(P, a) or inside_strict(P, b):
        return False
    if any(proper_cross(a, b, s1, s2) for s1, s2 in edges(P)):
        return False
    return through_interior(P, a, b)


def scene_has_degenerate_chord(polys, points):
    """is there a pair of graph vertices (corners of different shapes, or free points) whose segment is a degenerate
    chord of some shape?  The generic-position streams reject such scenes (DESIGN 3.5)."""
    verts = [(p, None) for p in points]
    for i, P in enumerate(polys):
        verts += [(p, i) for p in P]
    n = len(verts)
    for j, P in enumerate(polys):
        xs = [p[0] for p in P]; ys = [p[1] for p in P]
        bx0, bx1, by0, by1 = min(xs), max(xs), min(ys), max(ys)
        for a in range(n):
            u, ou = verts[a]
            for b in range(a + 1, n):
                v, ov = verts[b]
                if ou == j and ov == j:
                    continue
                if max(u[0], v[0]) < bx0 or min(u[0], v[0]) > bx1 or max(u[1], v[1]) < by0 or min(u[1], v[1]) > by1:
                    continue
                # necessary: the line uv passes through a vertex of P, or u / v lies on P's boundary
                if not any(cross(u, v, w) == 0 for w in P):
                    if not ((inside_closed(P, u) and not inside_strict(P, u)) or (inside_closed(P, v) and not inside_strict(P, v))):
                        continue
                if degenerate_chord(P, u, v):
                    return True
    return False


# ------------------------------------------------------------------------------------------ generators
def box_sep(a, b, gap):
    return a[2] + gap <= b[0] or b[2] + gap <= a[0] or a[3] + gap <= b[1] or b[3] + gap <= a[1]


def poly_in_box(rng, b, kinds=None):
    """a strictly convex polygon with integer vertices inside box b=(x0,y0,x1,y1), libavoid orientation"""
    x0, y0, x1, y1 = b
    w, h = x1 - x0, y1 - y0
    k = rng.below(10) if kinds is None else kinds
    if k < 5:
        return [(x1, y0), (x1, y1), (x0, y1), (x0, y0)]
    if k < 7:
        # triangles
        t = rng.below(6)
        mx = x0 + rng.range(0, w); my = y0 + rng.range(0, h)
        cands = [[(x1, y0), (x1, y1), (x0, y1)], [(x1, y0), (x0, y1), (x0, y0)], [(x1, y0), (mx, y1), (x0, y0)],
                 [(x1, y0), (x1, y1), (x0, my)], [(x1, my), (x0, y1), (x0, y0)], [(x1, y1), (x0, y1), (mx, y0)]]
        P = cands[t]
    elif k < 8:
        # one vertex on each side
        P = [(x0 + rng.range(1, max(1, w - 1)), y0), (x1, y0 + rng.range(1, max(1, h - 1))),
             (x0 + rng.range(1, max(1, w - 1)), y1), (x0, y0 + rng.range(1, max(1, h - 1)))]
    else:
        # rectangle with cut corners (5..8 vertices)
        ca, cb = (w - 1) // 2, (h - 1) // 2
        P = []
        corners = [((x1, y0), (-1, 0), (0, 1)), ((x1, y1), (0, -1), (-1, 0)), ((x0, y1), (1, 0), (0, -1)), ((x0, y0), (0, 1), (1, 0))]
        for (c, din, dout) in corners:
            if ca >= 1 and cb >= 1 and rng.chance(1, 2):
                a = rng.range(1, ca) if din[0] != 0 else rng.range(1, cb)
                bb = rng.range(1, ca) if dout[0] != 0 else rng.range(1, cb)
                P.append((c[0] + din[0] * a, c[1] + din[1] * a))
                P.append((c[0] + dout[0] * bb, c[1] + dout[1] * bb))
            else:
                P.append(c)
    if convex_ccw(P):
        return P
    if convex_ccw(P[::-1]):
        return P[::-1]
    return [(x1, y0), (x1, y1), (x0, y1), (x0, y0)]


def bbox(P):
    xs = [p[0] for p in P]; ys = [p[1] for p in P]
    return (min(xs), min(ys), max(xs), max(ys))


def gen_boxes(rng, ns, R, gap, maxw=12, existing=()):
    boxes = list(existing)
    out = []
    tries = 0
    while len(out) < ns and tries < 300:
        tries += 1
        x = rng.range(0, R - 1); y = rng.range(0, R - 1); w = rng.range(2, maxw - 1); h = rng.range(2, maxw - 1)
        b = (x, y, x + w, y + h)
        if all(box_sep(b, o, gap) for o in boxes):
            boxes.append(b); out.append(b)
    return out


def in_any_bbox(polys, p, margin=0):
    for P in polys:
        b = bbox(P)
        if b[0] - margin <= p[0] <= b[2] + margin and b[1] - margin <= p[1] <= b[3] + margin:
            return True
    return False


def free_point(rng, polys, R, margin=0, avoid=(), use_bbox=False):
    """integer point outside every shape (closed), or - with margin > 0 or use_bbox - outside every shape's bounding box
    grown by `margin`; not in `avoid`"""
    for _ in range(1000):
        p = (rng.range(-5, R + 14), rng.range(-5, R + 14))
        if p in avoid:
            continue
        ok = True
        for P in polys:
            b = bbox(P)
            if margin > 0 or use_bbox:
                if b[0] - margin <= p[0] <= b[2] + margin and b[1] - margin <= p[1] <= b[3] + margin:
                    ok = False; break
            elif inside_closed(P, p):
                ok = False; break
        if ok:
            return p
    return (-7 - rng.below(5), -7 - rng.below(5))


def gen_scene(rng, nmax=8, R=40, gap=1, buf=0, nconn=None, rect_only=False, use_bbox=False):
    """generic-position scene: 1..nmax convex shapes whose boxes are separated by gap + 2 buf, endpoints in free space
    (outside the buffered boxes).  Returns (polys, conns)."""
    ns = rng.range(1, nmax)
    boxes = gen_boxes(rng, ns, R, gap + 2 * buf)
    polys = [poly_in_box(rng, b, 0 if rect_only else None) for b in boxes]
    nc = nconn if nconn is not None else rng.range(1, 3)
    conns = []
    for _ in range(nc):
        # prefer endpoint pairs whose straight segment is blocked (a route with bends), 3 attempts
        for attempt in range(3):
            s = free_point(rng, polys, R, margin=buf, use_bbox=use_bbox)
            d = free_point(rng, polys, R, margin=buf, avoid=(s,), use_bbox=use_bbox)
            if s != d and any(through_interior(P, s, d) for P in polys):
                break
        if s != d:
            conns.append((s, d))
    return polys, conns


def gen_degenerate_scene(rng, R=24, use_bbox=False):
    """degenerate stream: touching shapes, collinear edges, chords through vertices, endpoints aligned with shape
    diagonals and sides (still strictly outside every shape)."""
    kind = rng.below(4)
    polys = []
    if kind == 0:
        # a dense arena of boxes snapped to a coarse lattice: many shared sides and corners (gap 0)
        cells = [(i, j) for i in range(4) for j in range(4)]
        cells = rng.shuffle(cells)[:rng.range(2, 7)]
        for (i, j) in cells:
            w = rng.choice([3, 6]); h = rng.choice([3, 6])
            polys.append(poly_in_box(rng, (6 * i, 6 * j, 6 * i + w, 6 * j + h), rng.choice([0, 0, 5, 6, 9])))
    elif kind == 1:
        # touching row / staircase
        x = 0; y = 0
        for _ in range(rng.range(2, 5)):
            w = rng.range(2, 6); h = rng.range(2, 6)
            polys.append(poly_in_box(rng, (x, y, x + w, y + h), rng.choice([0, 0, 0, 5, 9])))
            if rng.chance(1, 2):
                x += w
            else:
                x += w; y += h
    else:
        boxes = gen_boxes(rng, rng.range(1, 5), R, 0, maxw=9)
        polys = [poly_in_box(rng, b, rng.choice([0, 0, 0, 5, 6, 7, 9])) for b in boxes]
    # drop shapes whose interiors overlap an earlier one (interior-disjoint scenes only)
    kept = []
    for P in polys:
        b = bbox(P)
        if all(box_sep(b, bbox(Q), 0) for Q in kept):
            kept.append(P)
    polys = kept
    conns = []
    for _ in range(rng.range(1, 3)):
        mode = rng.below(3)
        s = d = None
        if mode == 0 and polys:
            # endpoints on the line through two shape vertices (chords through vertices)
            P = rng.choice(polys); Q = rng.choice(polys)
            a = rng.choice(P); b = rng.choice(Q)
            if a != b:
                k1, k2 = rng.range(1, 3), rng.range(1, 3)
                s = (a[0] - k1 * (b[0] - a[0]), a[1] - k1 * (b[1] - a[1]))
                d = (b[0] + k2 * (b[0] - a[0]), b[1] + k2 * (b[1] - a[1]))
                g = math.gcd(abs(b[0] - a[0]), abs(b[1] - a[1])) or 1
                ux, uy = (b[0] - a[0]) // g, (b[1] - a[1]) // g
                s = (a[0] - k1 * ux, a[1] - k1 * uy); d = (b[0] + k2 * ux, b[1] + k2 * uy)
        elif mode == 1 and polys:
            # endpoints collinear with a shape side
            P = rng.choice(polys); i = rng.below(len(P)); a, b = P[i - 1], P[i]
            g = math.gcd(abs(b[0] - a[0]), abs(b[1] - a[1])) or 1
            ux, uy = (b[0] - a[0]) // g, (b[1] - a[1]) // g
            s = (a[0] - rng.range(1, 6) * ux, a[1] - rng.range(1, 6) * uy)
            d = (b[0] + rng.range(1, 6) * ux, b[1] + rng.range(1, 6) * uy)
        if s is None or any(inside_closed(P, s) for P in polys) or any(inside_closed(P, d) for P in polys) or s == d or \
                (use_bbox and (in_any_bbox(polys, s) or in_any_bbox(polys, d))):
            s = free_point(rng, polys, R, use_bbox=use_bbox)
            d = free_point(rng, polys, R, avoid=(s,), use_bbox=use_bbox)
        if s != d and abs(s[0]) < 200 and abs(s[1]) < 200 and abs(d[0]) < 200 and abs(d[1]) < 200:
            conns.append((s, d))
    return polys, conns


# ------------------------------------------------------------------------------------------ harness protocol
def build_harness_retry(name, libs, flavor):
    """build_lib deletes object directories of other source hashes, so a concurrently running check on a different tree
    (VERIF_REPO scratch copy) can remove the archive between our build and our link: retry"""
    last = None
    for _ in range(4):
        try:
            return C.build_harness(name, libs, flavor)
        except RuntimeError as e:
            last = e
    raise last


def harness():
    return build_harness_retry('c03_route', ['libavoid'], 'exc')


def fmt_poly(P):
    return '%d %s' % (len(P), ' '.join('%d %d' % (p[0], p[1]) for p in P))


def scene_script(polys, conns, mode=0, pen=0, buf=0, nudge=0, trans=1, ids=None):
    """one fresh router: add every shape (ids 1..), every connector (ids 100..), process once"""
    L = ['R %d %s %s %s %d' % (mode, repr(float(pen)), repr(float(buf)), repr(float(nudge)), trans)]
    for i, P in enumerate(polys):
        L.append('A %d %s' % (ids[i] if ids else i + 1, fmt_poly(P)))
    for i, (s, d) in enumerate(conns):
        L.append('C %d %d %d %d %d' % (100 + i, s[0], s[1], d[0], d[1]))
    L += ['P', 'X']
    return L


def run_harness(exe, lines, timeout=600):
    """returns a list of runs; a run = {'dumps': [dump...], 'exc': str|None};
    dump = {'ret','empty','shapes':{id:poly},'bshapes':{id:poly},'ends':{cid:(s,d)},'disp':{cid:pts},'route':{cid:pts}}"""
    rc, out, err, dt = C.sh([exe], input='\n'.join(lines) + '\n', timeout=timeout)
    runs, cur, dump = [], None, None
    for line in out.split('\n'):
        t = line.split()
        if not t:
            continue
        if t[0] == 'R':
            cur = {'dumps': [], 'exc': None}
            runs.append(cur)
        elif t[0] == 'EXC':
            if cur is not None:
                cur['exc'] = line[4:].strip()
        elif t[0] == 'P':
            dump = {'ret': int(t[1]), 'empty': int(t[2]), 'shapes': {}, 'bshapes': {}, 'ends': {}, 'disp': {}, 'route': {}}
            cur['dumps'].append(dump)
        elif t[0] in ('S', 'B', 'D', 'O'):
            n = int(t[2])
            pts = [(float(t[3 + 2 * i]), float(t[4 + 2 * i])) for i in range(n)]
            raw = ' '.join(t[3:])
            key = {'S': 'shapes', 'B': 'bshapes', 'D': 'disp', 'O': 'route'}[t[0]]
            dump[key][int(t[1])] = pts
            if t[0] == 'D':
                dump.setdefault('disp_raw', {})[int(t[1])] = raw
        elif t[0] == 'K':
            dump['ends'][int(t[1])] = ((float(t[2]), float(t[3])), (float(t[4]), float(t[5])))
    return runs, rc, err


# ------------------------------------------------------------------------------------------ model driver protocol
def driver():
    return C.ocaml_build('c03', 'C03.v', 'c03_driver.ml', 'c03_model.ml')


def ztok(n):
    return ('-' if n < 0 else '') + bin(abs(n))[2:]


def qtok(x):
    f = F(x)      # exact for ints and for binary64 floats
    return ztok(f.numerator) + '/' + ztok(f.denominator)


def tok_pt(p):
    return qtok(p[0]) + ' ' + qtok(p[1])


def tok_poly(P):
    return '%d %s' % (len(P), ' '.join(tok_pt(p) for p in P))


def tok_shapes(S):
    return '%d %s' % (len(S), ' '.join(tok_poly(P) for P in S))


def q_chk(shapes, s, d, route):
    return 'CHK %s %s %s %s' % (tok_shapes(shapes), tok_pt(s), tok_pt(d), tok_poly(route))


def q_deg(P, a, b):
    return 'DEG %s %s %s' % (tok_poly(P), tok_pt(a), tok_pt(b))


def q_plain(shapes, s, d):
    return 'PLAIN %s %s %s' % (tok_shapes(shapes), tok_pt(s), tok_pt(d))


def q_taut(pen, shapes, s, d):
    return 'TAUT %d %s %s %s' % (int(pen) * PICO, tok_shapes(shapes), tok_pt(s), tok_pt(d))


def run_driver(exe, queries, timeout=1200):
    if not queries:
        return []
    rc, out, err, dt = C.sh([exe], input='\n'.join(queries) + '\n', timeout=timeout)
    ans = out.split('\n')
    if ans and ans[-1] == '':
        ans.pop()
    if rc != 0 or len(ans) != len(queries):
        raise RuntimeError('model driver failed rc=%s answers=%d/%d %s' % (rc, len(ans), len(queries), err[-500:]))
    return ans


def parse_bits_q(t):
    a, b = t.split('/')
    neg = a.startswith('-')
    n = int(a.lstrip('-'), 2)
    return F(-n if neg else n, int(b, 2))


def parse_route_answer(a):
    """'route cost n x y ..' -> (cost_pico:int, [(Fraction,Fraction)...]) ; 'nopath' -> None ; 'fail' -> 'fail'"""
    t = a.split()
    if t[0] == 'route':
        n = int(t[2])
        pts = [(parse_bits_q(t[3 + 2 * i]), parse_bits_q(t[4 + 2 * i])) for i in range(n)]
        return int(t[1]), pts
    if t[0] == 'nopath':
        return None
    return 'fail'


def parse_chk(a):
    """'ok' -> [] ; 'bad seg:shape:degen ..' -> [(seg, shape, degen)]"""
    t = a.split()
    if t[0] == 'ok':
        return []
    return [tuple(int(x) for x in w.split(':')) for w in t[1:]] or [(-1, -1, 0)]


# ------------------------------------------------------------------------------------------ costs of implementation routes
def poly_cost(pts, pen):
    """length + pen per bend (2 pen for a reversal) of a polyline given as float points"""
    L = sum(math.hypot(pts[i][0] - pts[i + 1][0], pts[i][1] - pts[i + 1][1]) for i in range(len(pts) - 1))
    b = 0
    for i in range(1, len(pts) - 1):
        p, u, v = pts[i - 1], pts[i], pts[i + 1]
        cr = (u[0] - p[0]) * (v[1] - p[1]) - (v[0] - p[0]) * (u[1] - p[1])
        if cr != 0:
            b += 1
        elif (u[0] - p[0]) * (v[0] - u[0]) + (u[1] - p[1]) * (v[1] - u[1]) < 0:
            b += 2
    return L + pen * b, b


def orth_cost(pts, pen):
    n = len(pts)
    L = sum(abs(pts[i][0] - pts[i + 1][0]) + abs(pts[i][1] - pts[i + 1][1]) for i in range(n - 1))

    def dirn(a, b):
        return (int(b[0] > a[0]) - int(b[0] < a[0]), int(b[1] > a[1]) - int(b[1] < a[1]))
    ds = [dirn(pts[i], pts[i + 1]) for i in range(n - 1) if pts[i] != pts[i + 1]]
    return L + pen * sum(1 for i in range(len(ds) - 1) if ds[i] != ds[i + 1])


def is_orthogonal(pts):
    return all(pts[i][0] == pts[i + 1][0] or pts[i][1] == pts[i + 1][1] for i in range(len(pts) - 1))
