"""Shared machinery of the libavoid routing checks C03 / C04 / C06 (DESIGN 5.3, 5.4, 5.6):
scene and history generators, the script protocol of harness/c03_route.cpp, the query protocol of the
extracted model driver extract/c03_driver.ml, exact integer geometry for generation-time filtering.
Not a check itself (mkmanifest / warm only look at cNN.py)."""
import os, math
from fractions import Fraction as F
from vlib import common as C

PICO = 10 ** 12


# ------------------------------------------------------------------------------------------ exact helpers (ints / Fractions)
def cross(o, a, b):
    return (a[0] - o[0]) * (b[1] - o[1]) - (a[1] - o[1]) * (b[0] - o[0])


def edges(P):
    n = len(P)
    return [(P[i - 1], P[i]) for i in range(n)]


def inside_strict(P, q):
    return all(cross(a, b, q) > 0 for a, b in edges(P))


def inside_closed(P, q):
    return all(cross(a, b, q) >= 0 for a, b in edges(P))


def convex_ccw(P):
    if len(P) < 3:
        return False
    for a, b in edges(P):
        for q in P:
            if q != a and q != b and cross(a, b, q) <= 0:
                return False
    return True


def through_interior(P, u, v):
    """some point of the open segment uv is strictly inside the convex polygon P (Cyrus-Beck, exact)"""
    lo, hi = F(0), F(1)
    dx, dy = v[0] - u[0], v[1] - u[1]
    for a, b in edges(P):
        c0 = cross(a, b, u)
        c1 = (b[0] - a[0]) * dy - dx * (b[1] - a[1])
        if c1 > 0:
            lo = max(lo, F(-c0, c1))
        elif c1 < 0:
            hi = min(hi, F(-c0, c1))
        elif c0 <= 0:
            return False
        if lo >= hi:
            return False
    return lo < hi


def proper_cross(a, b, c, d):
    return cross(a, b, c) * cross(a, b, d) < 0 and cross(c, d, a) * cross(c, d, b) < 0


def degenerate_chord(P, a, b):
    """Python twin of SegPolyModel.degenerate_chord (used only to steer generators; classification of a failing
    case is done by the extracted Coq predicate)"""
    if inside_strict(P, a) or inside_strict(P, b):
        return False
    if any(proper_cross(a, b, s1, s2) for s1, s2 in edges(P)):
        return False
    return through_interior(P, a, b)


def scene_has_degenerate_chord(polys, points):
    """is there a pair of graph vertices (corners of different shapes, or free points) whose segment is a degenerate
    chord of some shape?  The generic-position streams reject such scenes (DESIGN 3.5)."""
    verts = [(p, None) for p in points]
    for i, P in enumerate(polys):
        verts += [(p, i) for p in P]
    n = len(verts)
    for j, P in enumerate(polys):
        xs = [p[0] for p in P]; ys = [p[1] for p in P]
        bx0, bx1, by0, by1 = min(xs), max(xs), min(ys), max(ys)
        for a in range(n):
            u, ou = verts[a]
            for b in range(a + 1, n):
                v, ov = verts[b]
                if ou == j and ov == j:
                    continue
                if max(u[0], v[0]) < bx0 or min(u[0], v[0]) > bx1 or max(u[1], v[1]) < by0 or min(u[1], v[1]) > by1:
                    continue
                # necessary: the line uv passes through a vertex of P, or u / v lies on P's boundary
                if not any(cross(u, v, w) == 0 for w in P):
                    if not ((inside_closed(P, u) and not inside_strict(P, u)) or (inside_closed(P, v) and not inside_strict(P, v))):
                        continue
                if degenerate_chord(P, u, v):
                    return True
    return False


# ------------------------------------------------------------------------------------------ generators
def box_sep(a, b, gap):
    return a[2] + gap <= b[0] or b[2] + gap <= a[0] or a[3] + gap <= b[1] or b[3] + gap <= a[1]


def poly_in_box(rng, b, kinds=None):
    """a strictly convex polygon with integer vertices inside box b=(x0,y0,x1,y1), libavoid orientation"""
    x0, y0, x1, y1 = b
    w, h = x1 - x0, y1 - y0
    k = rng.below(10) if kinds is None else kinds
    if k < 5:
        return [(x1, y0), (x1, y1), (x0, y1), (x0, y0)]
    if k < 7:
        # triangles
        t = rng.below(6)
        mx = x0 + rng.range(0, w); my = y0 + rng.range(0, h)
        cands = [[(x1, y0), (x1, y1), (x0, y1)], [(x1, y0), (x0, y1), (x0, y0)], [(x1, y0), (mx, y1), (x0, y0)],
                 [(x1, y0), (x1, y1), (x0, my)], [(x1, my), (x0, y1), (x0, y0)], [(x1, y1), (x0, y1), (mx, y0)]]
        P = cands[t]
    elif k < 8:
        # one vertex on each side
        P = [(x0 + rng.range(1, max(1, w - 1)), y0), (x1, y0 + rng.range(1, max(1, h - 1))),
             (x0 + rng.range(1, max(1, w - 1)), y1), (x0, y0 + rng.range(1, max(1, h - 1)))]
    else:
        # rectangle with cut corners (5..8 vertices)
        ca, cb = (w - 1) // 2, (h - 1) // 2
        P = []
        corners = [((x1, y0), (-1, 0), (0, 1)), ((x1, y1), (0, -1), (-1, 0)), ((x0, y1), (1, 0), (0, -1)), ((x0, y0), (0, 1), (1, 0))]
        for (c, din, dout) in corners:
            if ca >= 1 and cb >= 1 and rng.chance(1, 2):
                a = rng.range(1, ca) if din[0] != 0 else rng.range(1, cb)
                bb = rng.range(1, ca) if dout[0] != 0 else rng.range(1, cb)
                P.append((c[0] + din[0] * a, c[1] + din[1] * a))
                P.append((c[0] + dout[0] * bb, c[1] + dout[1] * bb))
            else:
                P.append(c)
    if convex_ccw(P):
        return P
    if convex_ccw(P[::-1]):
        return P[::-1]
    return [(x1, y0), (x1, y1), (x0, y1), (x0, y0)]


def bbox(P):
    xs = [p[0] for p in P]; ys = [p[1] for p in P]
    return (min(xs), min(ys), max(xs), max(ys))


def gen_boxes(rng, ns, R, gap, maxw=12, existing=()):
    boxes = list(existing)
    out = []
    tries = 0
    while len(out) < ns and tries < 300:
        tries += 1
        x = rng.range(0, R - 1); y = rng.range(0, R - 1); w = rng.range(2, maxw - 1); h = rng.range(2, maxw - 1)
        b = (x, y, x + w, y + h)
        if all(box_sep(b, o, gap) for o in boxes):
            boxes.append(b); out.append(b)
    return out


def in_any_bbox(polys, p, margin=0):
    for P in polys:
        b = bbox(P)
        if b[0] - margin <= p[0] <= b[2] + margin and b[1] - margin <= p[1] <= b[3] + margin:
            return True
    return False


def free_point(rng, polys, R, margin=0, avoid=(), use_bbox=False):
    """integer point outside every shape (closed), or - with margin > 0 or use_bbox - outside every shape's bounding box
    grown by `margin`; not in `avoid`"""
    for _ in range(1000):
        p = (rng.range(-5, R + 14), rng.range(-5, R + 14))
        if p in avoid:
            continue
        ok = True
        for P in polys:
            b = bbox(P)
            if margin > 0 or use_bbox:
                if b[0] - margin <= p[0] <= b[2] + margin and b[1] - margin <= p[1] <= b[3] + margin:
                    ok = False; break
            elif inside_closed(P, p):
                ok = False; break
        if ok:
            return p
    return (-7 - rng.below(5), -7 - rng.below(5))


def gen_scene(rng, nmax=8, R=40, gap=1, buf=0, nconn=None, rect_only=False, use_bbox=False):
    """generic-position scene: 1..nmax convex shapes whose boxes are separated by gap + 2 buf, endpoints in free space
    (outside the buffered boxes).  Returns (polys, conns)."""
    ns = rng.range(1, nmax)
    boxes = gen_boxes(rng, ns, R, gap + 2 * buf)
    polys = [poly_in_box(rng, b, 0 if rect_only else None) for b in boxes]
    nc = nconn if nconn is not None else rng.range(1, 3)
    conns = []
    for _ in range(nc):
        # prefer endpoint pairs whose straight segment is blocked (a route with bends), 3 attempts
        for attempt in range(3):
            s = free_point(rng, polys, R, margin=buf, use_bbox=use_bbox)
            d = free_point(rng, polys, R, margin=buf, avoid=(s,), use_bbox=use_bbox)
            if s != d and any(through_interior(P, s, d) for P in polys):
                break
        if s != d:
            conns.append((s, d))
    return polys, conns


def gen_degenerate_scene(rng, R=24, use_bbox=False):
    """degenerate stream: touching shapes, collinear edges, chords through vertices, endpoints aligned with shape
    diagonals and sides (still strictly outside every shape)."""
    kind = rng.below(4)
    polys = []
    if kind == 0:
        # a dense arena of boxes snapped to a coarse lattice: many shared sides and corners (gap 0)
        cells = [(i, j) for i in range(4) for j in range(4)]
        cells = rng.shuffle(cells)[:rng.range(2, 7)]
        for (i, j) in cells:
            w = rng.choice([3, 6]); h = rng.choice([3, 6])
            polys.append(poly_in_box(rng, (6 * i, 6 * j, 6 * i + w, 6 * j + h), rng.choice([0, 0, 5, 6, 9])))
    elif kind == 1:
        # touching row / staircase
        x = 0; y = 0
        for _ in range(rng.range(2, 5)):
            w = rng.range(2, 6); h = rng.range(2, 6)
            polys.append(poly_in_box(rng, (x, y, x + w, y + h), rng.choice([0, 0, 0, 5, 9])))
            if rng.chance(1, 2):
                x += w
            else:
                x += w; y += h
    else:
        boxes = gen_boxes(rng, rng.range(1, 5), R, 0, maxw=9)
        polys = [poly_in_box(rng, b, rng.choice([0, 0, 0, 5, 6, 7, 9])) for b in boxes]
    # drop shapes whose interiors overlap an earlier one (interior-disjoint scenes only)
    kept = []
    for P in polys:
        b = bbox(P)
        if all(box_sep(b, bbox(Q), 0) for Q in kept):
            kept.append(P)
    polys = kept
    conns = []
    for _ in range(rng.range(1, 3)):
        mode = rng.below(3)
        s = d = None
        if mode == 0 and polys:
            # endpoints on the line through two shape vertices (chords through vertices)
            P = rng.choice(polys); Q = rng.choice(polys)
            a = rng.choice(P); b = rng.choice(Q)
            if a != b:
                k1, k2 = rng.range(1, 3), rng.range(1, 3)
                s = (a[0] - k1 * (b[0] - a[0]), a[1] - k1 * (b[1] - a[1]))
                d = (b[0] + k2 * (b[0] - a[0]), b[1] + k2 * (b[1] - a[1]))
                g = math.gcd(abs(b[0] - a[0]), abs(b[1] - a[1])) or 1
                ux, uy = (b[0] - a[0]) // g, (b[1] - a[1]) // g
                s = (a[0] - k1 * ux, a[1] - k1 * uy); d = (b[0] + k2 * ux, b[1] + k2 * uy)
        elif mode == 1 and polys:
            # endpoints collinear with a shape side
            P = rng.choice(polys); i = rng.below(len(P)); a, b = P[i - 1], P[i]
            g = math.gcd(abs(b[0] - a[0]), abs(b[1] - a[1])) or 1
            ux, uy = (b[0] - a[0]) // g, (b[1] - a[1]) // g
            s = (a[0] - rng.range(1, 6) * ux, a[1] - rng.range(1, 6) * uy)
            d = (b[0] + rng.range(1, 6) * ux, b[1] + rng.range(1, 6) * uy)
        if s is None or any(inside_closed(P, s) for P in polys) or any(inside_closed(P, d) for P in polys) or s == d or \
                (use_bbox and (in_any_bbox(polys, s) or in_any_bbox(polys, d))):
            s = free_point(rng, polys, R, use_bbox=use_bbox)
            d = free_point(rng, polys, R, avoid=(s,), use_bbox=use_bbox)
        if s != d and abs(s[0]) < 200 and abs(s[1]) < 200 and abs(d[0]) < 200 and abs(d[1]) < 200:
            conns.append((s, d))
    return polys, conns


# ------------------------------------------------------------------------------------------ harness protocol
def build_harness_retry(name, libs, flavor):
    """build_lib deletes object directories of other source hashes, so a concurrently running check on a different tree
    (VERIF_REPO scratch copy) can remove the archive between our build and our link: retry"""
    last = None
    for _ in range(4):
        try:
            return C.build_harness(name, libs, flavor)
        except RuntimeError as e:
            last = e
    raise last


def harness():
    return build_harness_retry('c03_route', ['libavoid'], 'exc')


def fmt_poly(P):
    return '%d %s' % (len(P), ' '.join('%d %d' % (p[0], p[1]) for p in P))


def scene_script(polys, conns, mode=0, pen=0, buf=0, nudge=0, trans=1, ids=None):
    """one fresh router: add every shape (ids 1..), every connector (ids 100..), process once"""
    L = ['R %d %s %s %s %d' % (mode, repr(float(pen)), repr(float(buf)), repr(float(nudge)), trans)]
    for i, P in enumerate(polys):
        L.append('A %d %s' % (ids[i] if ids else i + 1, fmt_poly(P)))
    for i, (s, d) in enumerate(conns):
        L.append('C %d %d %d %d %d' % (100 + i, s[0], s[1], d[0], d[1]))
    L += ['P', 'X']
    return L


def run_harness(exe, lines, timeout=600):
    """returns a list of runs; a run = {'dumps': [dump...], 'exc': str|None};
    dump = {'ret','empty','shapes':{id:poly},'bshapes':{id:poly},'ends':{cid:(s,d)},'disp':{cid:pts},'route':{cid:pts}}"""
    rc, out, err, dt = C.sh([exe], input='\n'.join(lines) + '\n', timeout=timeout)
    runs, cur, dump = [], None, None
    for line in out.split('\n'):
        t = line.split()
        if not t:
            continue
        if t[0] == 'R':
            cur = {'dumps': [], 'exc': None}
            runs.append(cur)
        elif t[0] == 'EXC':
            if cur is not None:
                cur['exc'] = line[4:].strip()
        elif t[0] == 'P':
            dump = {'ret': int(t[1]), 'empty': int(t[2]), 'shapes': {}, 'bshapes': {}, 'ends': {}, 'disp': {}, 'route': {}}
            cur['dumps'].append(dump)
        elif t[0] in ('S', 'B', 'D', 'O'):
            n = int(t[2])
            pts = [(float(t[3 + 2 * i]), float(t[4 + 2 * i])) for i in range(n)]
            raw = ' '.join(t[3:])
            key = {'S': 'shapes', 'B': 'bshapes', 'D': 'disp', 'O': 'route'}[t[0]]
            dump[key][int(t[1])] = pts
            if t[0] == 'D':
                dump.setdefault('disp_raw', {})[int(t[1])] = raw
        elif t[0] == 'K':
            dump['ends'][int(t[1])] = ((float(t[2]), float(t[3])), (float(t[4]), float(t[5])))
        elif t[0] == 'N':
            # hyperedge runs: junction id -> live flag, position(), recommendedPosition()
            dump.setdefault('juncs', {})[int(t[1])] = {'live': t[2] == '1', 'pos': (float(t[3]), float(t[4])), 'rec': (float(t[5]), float(t[6]))}
        elif t[0] == 'G':
            # hyperedge runs: connector id -> its two ends, ('J', jid) or ('P', x, y)
            i, ends = 2, []
            for _ in range(2):
                if t[i] == 'J':
                    ends.append(('J', int(t[i + 1]))); i += 2
                else:
                    ends.append(('P', float(t[i + 1]), float(t[i + 2]))); i += 3
            dump.setdefault('hends', {})[int(t[1])] = ends
    return runs, rc, err


# ------------------------------------------------------------------------------------------ model driver protocol
def driver():
    return C.ocaml_build('c03', 'C03.v', 'c03_driver.ml', 'c03_model.ml')


def ztok(n):
    return ('-' if n < 0 else '') + bin(abs(n))[2:]


def qtok(x):
    f = F(x)      # exact for ints and for binary64 floats
    return ztok(f.numerator) + '/' + ztok(f.denominator)


def tok_pt(p):
    return qtok(p[0]) + ' ' + qtok(p[1])


def tok_poly(P):
    return '%d %s' % (len(P), ' '.join(tok_pt(p) for p in P))


def tok_shapes(S):
    return '%d %s' % (len(S), ' '.join(tok_poly(P) for P in S))


def q_chk(shapes, s, d, route):
    return 'CHK %s %s %s %s' % (tok_shapes(shapes), tok_pt(s), tok_pt(d), tok_poly(route))


def q_clr(shapes, route):
    """segs_clear over ALL shapes (no containment exemption): hyperedge scenes"""
    return 'CLR %s %s' % (tok_shapes(shapes), tok_poly(route))


def q_deg(P, a, b):
    return 'DEG %s %s %s' % (tok_poly(P), tok_pt(a), tok_pt(b))


def q_plain(shapes, s, d):
    return 'PLAIN %s %s %s' % (tok_shapes(shapes), tok_pt(s), tok_pt(d))


def q_taut(pen, shapes, s, d):
    return 'TAUT %d %s %s %s' % (int(pen) * PICO, tok_shapes(shapes), tok_pt(s), tok_pt(d))


def run_driver(exe, queries, timeout=1200):
    if not queries:
        return []
    rc, out, err, dt = C.sh([exe], input='\n'.join(queries) + '\n', timeout=timeout)
    ans = out.split('\n')
    if ans and ans[-1] == '':
        ans.pop()
    if rc != 0 or len(ans) != len(queries):
        raise RuntimeError('model driver failed rc=%s answers=%d/%d %s' % (rc, len(ans), len(queries), err[-500:]))
    return ans


def parse_bits_q(t):
    a, b = t.split('/')
    neg = a.startswith('-')
    n = int(a.lstrip('-'), 2)
    return F(-n if neg else n, int(b, 2))


def parse_route_answer(a):
    """'route cost n x y ..' -> (cost_pico:int, [(Fraction,Fraction)...]) ; 'nopath' -> None ; 'fail' -> 'fail'"""
    t = a.split()
    if t[0] == 'route':
        n = int(t[2])
        pts = [(parse_bits_q(t[3 + 2 * i]), parse_bits_q(t[4 + 2 * i])) for i in range(n)]
        return int(t[1]), pts
    if t[0] == 'nopath':
        return None
    return 'fail'


def parse_chk(a):
    """'ok' -> [] ; 'bad seg:shape:degen ..' -> [(seg, shape, degen)]"""
    t = a.split()
    if t[0] == 'ok':
        return []
    return [tuple(int(x) for x in w.split(':')) for w in t[1:]] or [(-1, -1, 0)]


# ------------------------------------------------------------------------------------------ costs of implementation routes
def poly_cost(pts, pen):
    """length + pen per bend (2 pen for a reversal) of a polyline given as float points"""
    L = sum(math.hypot(pts[i][0] - pts[i + 1][0], pts[i][1] - pts[i + 1][1]) for i in range(len(pts) - 1))
    b = 0
    for i in range(1, len(pts) - 1):
        p, u, v = pts[i - 1], pts[i], pts[i + 1]
        cr = (u[0] - p[0]) * (v[1] - p[1]) - (v[0] - p[0]) * (u[1] - p[1])
        if cr != 0:
            b += 1
        elif (u[0] - p[0]) * (v[0] - u[0]) + (u[1] - p[1]) * (v[1] - u[1]) < 0:
            b += 2
    return L + pen * b, b


def orth_cost(pts, pen):
    n = len(pts)
    L = sum(abs(pts[i][0] - pts[i + 1][0]) + abs(pts[i][1] - pts[i + 1][1]) for i in range(n - 1))

    def dirn(a, b):
        return (int(b[0] > a[0]) - int(b[0] < a[0]), int(b[1] > a[1]) - int(b[1] < a[1]))
    ds = [dirn(pts[i], pts[i + 1]) for i in range(n - 1) if pts[i] != pts[i + 1]]
    return L + pen * sum(1 for i in range(len(ds) - 1) if ds[i] != ds[i + 1])


def is_orthogonal(pts):
    return all(pts[i][0] == pts[i + 1][0] or pts[i][1] == pts[i + 1][1] for i in range(len(pts) - 1))


# ------------------------------------------------------------------------------------------ "contains" history family (C03 / C06)
# Histories in which a free connector endpoint lies STRICTLY INSIDE a shape (Router::contains lists the shape for that endpoint
# and ignores it as a blocker), the shape is then moved / resized / deleted away from the endpoint (or another shape comes to
# contain it), and finally something makes the router compute new visibility edges for that endpoint.  Property C03 exempts a
# shape only while it contains an endpoint in the CURRENT scene; C06 quantifies over all legal histories.
# Ops are the tuples of checks/c06.py:  ('A', id, poly) ('M', id, dx, dy) ('T', id, poly) ('D', id) ('C', cid, s, d)
# ('E', cid, which, p) ('P',)
def hist_op_str(o):
    if o[0] == 'A' or o[0] == 'T':
        return '%s %d %s' % (o[0], o[1], fmt_poly(o[2]))
    if o[0] == 'M':
        return 'M %d %d %d' % (o[1], o[2], o[3])
    if o[0] == 'D':
        return 'D %d' % o[1]
    if o[0] == 'C':
        return 'C %d %d %d %d %d' % (o[1], o[2][0], o[2][1], o[3][0], o[3][1])
    if o[0] == 'E':
        return 'E %d %d %d %d' % (o[1], o[2], o[3][0], o[3][1])
    return 'P'


def hist_apply(shapes, conns, o):
    """sequential semantics of one op (Python twin of ActionQueueModel.seq_step); returns new dicts"""
    shapes, conns = dict(shapes), dict(conns)
    if o[0] in ('A', 'T'):
        shapes[o[1]] = list(o[2])
    elif o[0] == 'M':
        shapes[o[1]] = [(x + o[2], y + o[3]) for x, y in shapes[o[1]]]
    elif o[0] == 'D':
        del shapes[o[1]]
    elif o[0] == 'C':
        conns[o[1]] = (o[2], o[3])
    elif o[0] == 'E':
        s, d = conns[o[1]]
        conns[o[1]] = (s, o[3]) if o[2] else (o[3], d)
    return shapes, conns


def point_place(polys, p):
    """'free' (outside every closed bounding box), 'inside' (strictly inside some shape) or 'edge' (anything else: on a
    boundary, or inside the bounding box but not strictly inside the shape)"""
    if any(inside_strict(P, p) for P in polys):
        return 'inside'
    return 'edge' if in_any_bbox(polys, p) else 'free'


def contains_scene_valid(shapes, conns, generic=True):
    """boxes separated by >= 1; every endpoint free or strictly inside a shape; distinct endpoints; no degenerate chord"""
    polys = list(shapes.values())
    bs = [bbox(P) for P in polys]
    for i in range(len(bs)):
        for j in range(i + 1, len(bs)):
            if not box_sep(bs[i], bs[j], 1):
                return False
    pts = []
    for (s, d) in conns.values():
        if s == d or point_place(polys, s) == 'edge' or point_place(polys, d) == 'edge':
            return False
        pts += [s, d]
    if generic and scene_has_degenerate_chord(polys, sorted(set(pts))):
        return False
    return True


def rect_poly(b):
    return [(b[2], b[1]), (b[2], b[3]), (b[0], b[3]), (b[0], b[1])]


def gen_contains_history(rng, rect_only=False, R=40):
    """-> (ops, tags): a directed history of the family above; tags = the variant choices (evidence histogram)"""
    ops, shapes, conns, tags = [], {}, {}, []

    def try_op(o):
        s2, c2 = hist_apply(shapes, conns, o)
        if contains_scene_valid(s2, c2):
            ops.append(o)
            shapes.clear(); shapes.update(s2); conns.clear(); conns.update(c2)
            return True
        return False

    def P():
        if ops and ops[-1] != ('P',):
            ops.append(('P',))

    def new_box(maxw=11, minw=4):
        x = rng.range(0, R - 1); y = rng.range(0, R - 1)
        return (x, y, x + rng.range(minw, maxw), y + rng.range(minw, maxw))

    def mkpoly(b):
        return rect_poly(b) if rect_only or rng.chance(3, 5) else poly_in_box(rng, b)

    def inner_point(Pg):
        b = bbox(Pg)
        c = [(x, y) for x in range(b[0] + 1, b[2]) for y in range(b[1] + 1, b[3]) if inside_strict(Pg, (x, y))]
        return rng.choice(c) if c else None

    # --- transaction 1: shape S (id 1) with the source endpoint of connector 100 strictly inside it; 0-2 other shapes
    for _ in range(60):
        Sg = mkpoly(new_box())
        p = inner_point(Sg)
        if p is not None and try_op(('A', 1, Sg)):
            break
    else:
        return None, None
    nid = 2
    for _ in range(rng.range(0, 2)):
        for _ in range(20):
            if try_op(('A', nid, mkpoly(new_box(9, 2)))):
                nid += 1
                break
    q = None
    qmode = rng.below(5)
    for _ in range(60):
        polys = list(shapes.values())
        if qmode == 0 and len(shapes) > 1:
            q = inner_point(shapes[rng.choice([i for i in sorted(shapes) if i != 1])])      # both ends inside (different) shapes
        elif qmode == 1:
            q = inner_point(shapes[1])                                                       # both ends inside S
        else:
            qmode = 2
            q = free_point(rng, polys, R, use_bbox=True)
        if q is not None and q != p and try_op(('C', 100, p, q) if rng.chance(3, 4) else ('C', 100, q, p)):
            break
        qmode = 2
    else:
        return None, None
    inside_end = 0 if conns[100][0] == p else 1
    tags.append('q_' + ['in_other', 'in_same', 'free', 'free', 'free'][qmode])
    if rng.chance(1, 3):
        for _ in range(20):
            polys = list(shapes.values())
            a = free_point(rng, polys, R, use_bbox=True); b = free_point(rng, polys, R, avoid=(a,), use_bbox=True)
            if try_op(('C', 101, a, b)):
                break
    P()

    def cur_p():
        return conns[100][inside_end]

    def cur_q():
        return conns[100][1 - inside_end]

    def move_between(i):
        """move shape i so that it straddles the segment from the inside endpoint towards the other endpoint (not containing either)"""
        b = bbox(shapes[i]); pp, qq = cur_p(), cur_q()
        for _ in range(40):
            t_num = rng.range(2, 8)
            cx = pp[0] + (qq[0] - pp[0]) * t_num // 10 + rng.range(-1, 1); cy = pp[1] + (qq[1] - pp[1]) * t_num // 10 + rng.range(-1, 1)
            dx = cx - (b[0] + b[2]) // 2; dy = cy - (b[1] + b[3]) // 2
            if (dx or dy) and not inside_closed(rect_poly((b[0] + dx, b[1] + dy, b[2] + dx, b[3] + dy)), pp) and try_op(('M', i, dx, dy)):
                return True
        return False

    def move_random(i, away_from=None):
        for _ in range(40):
            dx, dy = rng.range(-18, 18), rng.range(-18, 18)
            if away_from is not None:
                b = bbox(shapes[i])
                if inside_closed(rect_poly((b[0] + dx, b[1] + dy, b[2] + dx, b[3] + dy)), away_from):
                    continue
            if (dx or dy) and try_op(('M', i, dx, dy)):
                return True
        return False

    def resize_away(i):
        """new polygon with the same vertex count (Obstacle::setNewPoly asserts it) that no longer contains the inside endpoint"""
        k = len(shapes[i]); pp = cur_p()
        for _ in range(60):
            if rng.chance(1, 2):
                # shrink: a sub-box of the current box that leaves the endpoint out
                b = bbox(shapes[i])
                x0 = rng.range(b[0], b[2] - 2); x1 = rng.range(x0 + 2, b[2]); y0 = rng.range(b[1], b[3] - 2); y1 = rng.range(y0 + 2, b[3])
                nb = (x0, y0, x1, y1)
            else:
                nb = new_box()
            Pn = rect_poly(nb) if k == 4 and (rect_only or rng.chance(1, 2)) else poly_in_box(rng, nb)
            if rect_only and Pn != rect_poly(nb):
                continue
            if len(Pn) == k and not inside_closed(rect_poly(nb), pp) and try_op(('T', i, Pn)):
                return True
        return False

    def cover(i=None):
        """shape i (or a new shape) comes to contain the inside endpoint strictly"""
        pp = cur_p()
        for _ in range(60):
            if i is None:
                w, h = rng.range(4, 10), rng.range(4, 10)
                x0 = pp[0] - rng.range(1, w - 1); y0 = pp[1] - rng.range(1, h - 1)
                Pn = mkpoly((x0, y0, x0 + w, y0 + h))
                if inside_strict(Pn, pp) and try_op(('A', nid, Pn)):
                    return True
            else:
                b = bbox(shapes[i]); g = inner_point(shapes[i])
                if g is None:
                    return False
                dx, dy = pp[0] - g[0], pp[1] - g[1]
                if (dx or dy) and try_op(('M', i, dx, dy)):
                    return True
        return False

    # --- transaction 2: S leaves the endpoint
    away = rng.below(10)
    ok = False
    if away < 5:
        ok = move_between(1); tags.append('away_move_between')
    elif away < 6:
        ok = move_random(1, away_from=cur_p()); tags.append('away_move_random')
    elif away < 8:
        ok = resize_away(1); tags.append('away_resize')
    else:
        ok = try_op(('D', 1)); tags.append('away_delete')
    if not ok:
        return None, None
    P()
    # --- optional middle transactions
    for _ in range(rng.range(0, 2)):
        mid = rng.below(6)
        done = False
        if mid == 0 and 1 in shapes:
            done = cover(1)                                   # S moved back over the endpoint ...
            if done:
                tags.append('mid_back_over')
                P()
                (move_between(1) or move_random(1, away_from=cur_p()))       # ... and away again
        elif mid == 1:
            others = [i for i in sorted(shapes) if i != 1]
            if others:
                done = cover(rng.choice(others))              # a different shape moved onto the endpoint
                if done:
                    tags.append('mid_other_onto')
        elif mid == 2 and len(shapes) < 6:
            done = cover(None)                                # a new shape added around the endpoint
            if done:
                nid += 1
                tags.append('mid_new_onto')
        elif mid == 3 and 1 in shapes:
            done = move_between(1)
            if done:
                tags.append('mid_move_between_again')
        elif mid == 4 and len(shapes) > 1:
            cand = [i for i in sorted(shapes) if not inside_strict(shapes[i], cur_p())]
            if cand:
                done = try_op(('D', rng.choice(cand)))
                if done:
                    tags.append('mid_delete')
        if done:
            P()
    # --- trigger: something that makes the router compute new visibility edges for the (former) inside endpoint
    for _ in range(rng.range(1, 2)):
        trg = rng.below(10)
        done = False
        if trg < 4:
            qq = cur_q()
            for _ in range(30):
                nq = (qq[0] + rng.range(-3, 3), qq[1] + rng.range(-3, 3)) if rng.chance(2, 3) else free_point(rng, list(shapes.values()), R, use_bbox=True)
                if nq != qq and try_op(('E', 100, 1 - inside_end, nq)):
                    done = True; tags.append('trigger_other_end')
                    break
        elif trg < 6:
            pp = cur_p()
            for _ in range(30):
                np_ = (pp[0] + rng.range(-2, 2), pp[1] + rng.range(-2, 2))
                if np_ != pp and try_op(('E', 100, inside_end, np_)):
                    done = True; tags.append('trigger_same_end')
                    break
        elif trg < 8 and shapes:
            cand = [i for i in sorted(shapes) if not inside_strict(shapes[i], cur_p())]
            if cand:
                done = move_random(rng.choice(cand), away_from=cur_p())
                if done:
                    tags.append('trigger_move_shape')
        elif len(shapes) < 7:
            for _ in range(30):
                if try_op(('A', nid, mkpoly(new_box(8, 2)))):
                    nid += 1; done = True; tags.append('trigger_add_shape')
                    break
        if done:
            P()
    P()
    return ops, tags


# ------------------------------------------------------------------------------------------ hyperedge scene family (C03)
# A free JunctionRef with 3-5 orthogonal connectors to free terminal points, rectangular obstacles near the trunks.
# scene = {'shapes': [poly..] (ids 1..), 'junction': (x, y), 'fixed': 0/1, 'terms': [(x, y)..], 'rev': [0/1..] (connector written
#          terminal -> junction), 'opt': 0 none / 1 improveHyperedgeRoutesMovingJunctions / 2 ...MovingAddingAndDeletingJunctions,
#          'pen', 'buf', 'nudge', 'kind'}
SYMS = [(1, 0, 0, 1), (-1, 0, 0, 1), (1, 0, 0, -1), (-1, 0, 0, -1), (0, 1, 1, 0), (0, -1, 1, 0), (0, 1, -1, 0), (0, -1, -1, 0)]


def hyper_script(sc):
    L = ['R 1 %s %s %s 1' % (repr(float(sc['pen'])), repr(float(sc['buf'])), repr(float(sc['nudge']))),
         'O improveMoving %d' % (1 if sc['opt'] == 1 else 0), 'O improveAddDel %d' % (1 if sc['opt'] == 2 else 0)]
    for i, P in enumerate(sc['shapes']):
        L.append('A %d %s' % (i + 1, fmt_poly(P)))
    j = sc['junction']
    L.append('J 50 %d %d %d' % (j[0], j[1], sc['fixed']))
    for i, t in enumerate(sc['terms']):
        if sc['rev'][i]:
            L.append('H %d P %d %d J 50' % (100 + i, t[0], t[1]))
        else:
            L.append('H %d J 50 P %d %d' % (100 + i, t[0], t[1]))
    L += ['P', 'X']
    return L


def _sym_apply(sym, off, p):
    a, b, c, d = sym
    return (a * p[0] + b * p[1] + off[0], c * p[0] + d * p[1] + off[1])


def _sym_box(sym, off, b):
    p, q = _sym_apply(sym, off, (b[0], b[1])), _sym_apply(sym, off, (b[2], b[3]))
    return (min(p[0], q[0]), min(p[1], q[1]), max(p[0], q[0]), max(p[1], q[1]))


def hyper_scene_valid(boxes, j, terms, margin):
    pts = [j] + list(terms)
    if len(set(pts)) != len(pts):
        return False
    for i in range(len(boxes)):
        if boxes[i][2] - boxes[i][0] < 10 or boxes[i][3] - boxes[i][1] < 10:
            return False
        for k in range(i + 1, len(boxes)):
            if not box_sep(boxes[i], boxes[k], 10):
                return False
    for p in pts:
        for b in boxes:
            if b[0] - margin <= p[0] <= b[2] + margin and b[1] - margin <= p[1] <= b[3] + margin:
                return False
    return True


def gen_hyper_scene(rng, kind=None):
    """kind 'corridor': one branch has to squeeze between two obstacles next to the column / row of its terminal while most
    other branches pull the trunk the same way (trunk segments that become collinear and merge during the improvement);
    kind 'random': junction in the middle, terminals and obstacles at random (multiples of 5)."""
    kind = kind or ('corridor' if rng.chance(1, 2) else 'random')
    opt = rng.choice([0, 1, 1, 1, 2, 2])
    pen = rng.choice([10, 50, 50])
    nudge = rng.choice([0, 0, 4])
    buf = rng.choice([0, 0, 0, 4])
    margin = 6 + buf
    for _ in range(200):
        if kind == 'corridor':
            g = 5
            j = (0, 0)
            # the "behind the obstacle" terminal: up-left of the junction
            tx = -g * rng.range(8, 30); ty = -g * rng.range(24, 50)
            xw = g * rng.range(4, 8)                         # half width of X
            X = (tx - xw, ty + g * rng.range(2, 6), tx + g * rng.range(2, 8), 0)
            X = (X[0], X[1], X[2], X[1] + g * rng.range(6, 16))
            if X[3] > -g * 6:
                continue
            gapw = g * rng.range(3, 9)                       # corridor between X and W
            W = (X[2] + gapw, ty - g * rng.range(2, 8), 0, 0)
            W = (W[0], W[1], max(W[0] + 20, g * rng.range(2, 12)), ty + g * rng.range(6, 14))
            boxes = [X, W]
            terms = [(tx, ty)]
            # branches that pull the trunk towards the terminal's column: far away on the same side, beyond the junction's row
            for _k in range(rng.range(2, 3)):
                terms.append((tx - g * rng.range(10, 40), g * rng.range(8, 40)))
            # 0-1 branch on the other side
            if rng.chance(3, 4):
                terms.append((g * rng.range(8, 20), g * rng.range(-2, 2) if rng.chance(1, 2) else 0))
            for _k in range(rng.range(0, 1)):
                bx = g * rng.range(-60, 40); by = g * rng.range(-60, 60)
                boxes.append((bx, by, bx + g * rng.range(4, 14), by + g * rng.range(4, 14)))
        else:
            g = 5
            j = (0, 0)
            nt = rng.range(3, 5)
            terms = []
            for _k in range(nt):
                terms.append((g * rng.range(-50, 50), g * rng.range(-50, 50)))
            boxes = []
            for _k in range(rng.range(1, 4)):
                if rng.chance(1, 2) and terms:
                    # near the straight leg between the junction and a terminal
                    t = rng.choice(terms); f = rng.range(2, 8)
                    cx, cy = t[0] * f // 10 + g * rng.range(-6, 6), t[1] * f // 10 + g * rng.range(-6, 6)
                else:
                    cx, cy = g * rng.range(-45, 45), g * rng.range(-45, 45)
                w, h = g * rng.range(2, 10), g * rng.range(2, 10)
                boxes.append((cx - w, cy - h, cx + w, cy + h))
        sym = rng.choice(SYMS)
        off = (200 + 5 * rng.range(-4, 4), 200 + 5 * rng.range(-4, 4))
        boxes = [_sym_box(sym, off, b) for b in boxes]
        j2 = _sym_apply(sym, off, j)
        terms = [_sym_apply(sym, off, t) for t in terms]
        if not hyper_scene_valid(boxes, j2, terms, margin):
            continue
        # a fixed junction is an obstacle of the orthogonal sweep whose rectangle has half-width min(1, idealNudgingDistance): with
        # idealNudgingDistance 0 it is empty and the sweep asserts (begin < finish, orthogonal.cpp:672) - outside this family
        fixed = 1 if nudge > 0 and rng.chance(1, 4) else 0
        return {'kind': kind, 'shapes': [rect_poly(b) for b in boxes], 'junction': j2, 'fixed': fixed,
                'terms': terms, 'rev': [1 if rng.chance(1, 4) else 0 for _ in terms], 'opt': opt, 'pen': pen, 'buf': buf, 'nudge': nudge}
    return None


# ------------------------------------------------------------------------------------------ selective-reroute test (C06 / C04 classifier)
def selective_reroute_flags(poly, start, end, conndist):
    """Float twin of Router::markPolylineConnectorsNeedingReroutingForDeletedObstacle (router.cpp) for ONE obstacle (its polygon
    before it was moved / deleted) and one polyline connector (route ends start/end, cached route length conndist): does some edge's
    estimate fall below conndist?  Mirrors the code as written at /repo aa23288: crossing point of the straight segment when start and end
    lie on opposite sides of the edge's line, reflection formula x = (b c + a d)/(b + d) otherwise, and `start`/`end` being overwritten by
    their rotated images in the branch for sloped edges and then reused for the following edges."""
    sx, sy = float(start[0]), float(start[1])
    ex, ey = float(end[0]), float(end[1])
    n = len(poly)
    opp = True      # /repo aa23288: crossing point when the route's ends straddle the edge's line (a tree without it is reported, not classified)
    for i in range(n):
        p1 = (float(poly[i][0]), float(poly[i][1])); p2 = (float(poly[(i + 1) % n][0]), float(poly[(i + 1) % n][1]))
        vertical = False
        if p1[1] == p2[1]:
            offy = p1[1]; a = sx; b = sy - offy; c = ex; d = ey - offy
            mn, mx = min(p1[0], p2[0]), max(p1[0], p2[0])
        elif p1[0] == p2[0]:
            vertical = True
            offy = p1[0]; a = sy; b = sx - offy; c = ey; d = ex - offy
            mn, mx = min(p1[1], p2[1]), max(p1[1], p2[1])
        else:
            npx, npy = p2[0] - p1[0], p2[1] - p1[1]
            nsx, nsy = sx - p1[0], sy - p1[1]
            nex, ney = ex - p1[0], ey - p1[1]
            theta = 0 - math.atan2(npy, npx)
            cosv, sinv = math.cos(theta), math.sin(theta)
            r2x = cosv * npx - sinv * npy
            sx, sy = cosv * nsx - sinv * nsy, cosv * nsy + sinv * nsx          # overwrites start / end, as the C++ does
            ex, ey = cosv * nex - sinv * ney, cosv * ney + sinv * nex
            offy = 0.0; a = sx; b = sy - offy; c = ex; d = ey - offy
            mn, mx = min(0.0, r2x), max(0.0, r2x)
        if opp and b * d < 0:
            x = ((abs(b) * c) + (a * abs(d))) / (abs(b) + abs(d))
            x = min(mx, max(mn, x))
            xp = (offy, x) if vertical else (x, offy)
            if math.hypot(sx - xp[0], sy - xp[1]) + math.hypot(xp[0] - ex, xp[1] - ey) < conndist:
                return True
            continue
        if (b + d) == 0:
            d = d * -1
        if b == 0 and d == 0:
            if (a < mn and c < mn) or (a > mx and c > mx):
                x = a
            else:
                continue
        else:
            x = ((b * c) + (a * d)) / (b + d)
        x = min(mx, max(mn, x))
        # xp is built from the ORIGINAL p1, p2 test (p1.x == p2.x), in the current (possibly rotated) frame of start / end
        xp = (offy, x) if vertical else (x, offy)
        est = math.hypot(sx - xp[0], sy - xp[1]) + math.hypot(xp[0] - ex, xp[1] - ey)
        if est < conndist:
            return True
    return False


def polyline_length(pts):
    return sum(math.hypot(pts[i][0] - pts[i + 1][0], pts[i][1] - pts[i + 1][1]) for i in range(len(pts) - 1))


def reroute_test_silent(ops_between, trans, shapes_before, route):
    """classifier predicate of the known finding selective_reroute_not_flagged: for every shape moved / resized / deleted by the ops
    between two dumps, the selective-reroute test as coded (twin above, with the polygon the shape had when the router processed the
    change and the real length of the unchanged route) flags nothing.  shapes_before: {id: poly} at the previous dump.  With
    transactions on, the router sees each changed shape once, with its polygon at the previous dump; with transactions off every op is
    processed on its own, with the polygon left by the ops before it.  Returns None if no shape left its place (not this finding)."""
    L = polyline_length(route)
    start, end = route[0], route[-1]
    cur = {i: list(P) for i, P in shapes_before.items()}
    tested = 0
    seen = set()
    for o in ops_between:
        if o[0] in ('M', 'T', 'D') and o[1] in cur:
            old = cur[o[1]] if not trans else shapes_before.get(o[1])
            if old is not None and not (trans and o[1] in seen):
                seen.add(o[1])
                tested += 1
                if selective_reroute_flags(old, start, end, L):
                    return False
        if o[0] in ('A', 'T'):
            cur[o[1]] = list(o[2])
        elif o[0] == 'M' and o[1] in cur:
            cur[o[1]] = [(x + o[2], y + o[3]) for x, y in cur[o[1]]]
        elif o[0] == 'D':
            cur.pop(o[1], None)
    return True if tested else None


# ------------------------------------------------------------------------------------------ directed history families (C03 / C06)
# Added for the seeded changes C03-4 (a move that leaves the polygon unchanged), C06-4 (add + move + RELATIVE move of one shape in
# one transaction) and C05-2 / C03-3 (transactions that contain only deletions / only additions / only endpoint changes).
def plain_scene_valid(shapes, conns, generic=True):
    """boxes separated by >= 1, endpoints outside every closed bounding box and distinct, no degenerate chord between graph vertices
    (= checks/c06.py scene_valid for the default family)"""
    polys = list(shapes.values())
    bs = [bbox(P) for P in polys]
    for i in range(len(bs)):
        for j in range(i + 1, len(bs)):
            if not box_sep(bs[i], bs[j], 1):
                return False
    pts = []
    for (s, d) in conns.values():
        if s == d or in_any_bbox(polys, s) or in_any_bbox(polys, d):
            return False
        pts += [s, d]
    if generic and scene_has_degenerate_chord(polys, sorted(set(pts))):
        return False
    return True


class _Hist(object):
    """op list under construction; every op is kept only if the scene after it is valid (so the intermediate scenes of one
    transaction are valid too, which is what checks/c06.py simulate() demands)"""
    def __init__(self, rng, rect_only, R):
        self.rng, self.rect_only, self.R = rng, rect_only, R
        self.ops, self.shapes, self.conns, self.nid, self.ncid = [], {}, {}, 1, 100

    def try_op(self, o):
        s2, c2 = hist_apply(self.shapes, self.conns, o)
        if plain_scene_valid(s2, c2):
            self.ops.append(o)
            self.shapes, self.conns = s2, c2
            return True
        return False

    def P(self):
        if self.ops and self.ops[-1] != ('P',):
            self.ops.append(('P',))

    def new_poly(self, maxw=11, minw=3):
        x = self.rng.range(0, self.R - 1); y = self.rng.range(0, self.R - 1)
        b = (x, y, x + self.rng.range(minw, maxw), y + self.rng.range(minw, maxw))
        return rect_poly(b) if self.rect_only or self.rng.chance(1, 2) else poly_in_box(self.rng, b)

    def add_shapes(self, n):
        added = []
        for _ in range(n):
            for _ in range(40):
                if self.try_op(('A', self.nid, self.new_poly())):
                    added.append(self.nid); self.nid += 1
                    break
        return added

    def across_points(self, Pg):
        """two free points on opposite sides of shape Pg whose straight segment passes through its interior"""
        rng, b = self.rng, bbox(Pg)
        polys = list(self.shapes.values())
        for _ in range(30):
            if rng.chance(1, 2):
                s = (b[0] - rng.range(1, 12), rng.range(b[1], b[3])); d = (b[2] + rng.range(1, 12), rng.range(b[1], b[3]))
            else:
                s = (rng.range(b[0], b[2]), b[1] - rng.range(1, 12)); d = (rng.range(b[0], b[2]), b[3] + rng.range(1, 12))
            if rng.chance(1, 2):
                s, d = d, s
            if not in_any_bbox(polys, s) and not in_any_bbox(polys, d) and through_interior(Pg, s, d):
                return s, d
        return None

    def add_conns(self, n, p_across=(3, 4)):
        for _ in range(n):
            for _ in range(30):
                polys = list(self.shapes.values())
                sd = None
                if self.shapes and self.rng.chance(*p_across):
                    sd = self.across_points(self.shapes[self.rng.choice(sorted(self.shapes))])
                if sd is None:
                    s = free_point(self.rng, polys, self.R, use_bbox=True)
                    sd = (s, free_point(self.rng, polys, self.R, avoid=(s,), use_bbox=True))
                if sd[0] != sd[1] and self.try_op(('C', self.ncid, sd[0], sd[1])):
                    self.ncid += 1
                    break

    def blocking_shapes(self):
        """ids of shapes through whose interior the straight line of some connector passes"""
        return [i for i in sorted(self.shapes) if any(through_interior(self.shapes[i], s, d) for (s, d) in self.conns.values())]


def gen_noop_move_history(rng, rect_only=False, R=40):
    """-> (ops, tags).  Route connectors that detour round shapes, then transactions whose moves leave a shape's polygon unchanged:
    'zero' M i 0 0; 'cancel' M i dx dy; M i -dx -dy; 'cancel3' three relative moves summing to zero; 'samepoly' T i <its polygon>;
    'there_and_back' T i <elsewhere>; T i <its polygon>.  1 in 3 transactions also carries a real change of something else."""
    H = _Hist(rng, rect_only, R)
    H.add_shapes(rng.range(1, 5))
    if not H.shapes:
        return None, []
    H.add_conns(rng.range(1, 3))
    if not H.conns:
        return None, []
    H.P()
    tags = []
    for _ in range(rng.range(1, 3)):
        cand = H.blocking_shapes()
        i = rng.choice(cand) if cand and rng.chance(4, 5) else rng.choice(sorted(H.shapes))
        v = rng.choice(['zero', 'zero', 'cancel', 'cancel', 'cancel3', 'samepoly', 'there_and_back'])
        ok = False
        for _ in range(30):
            n0 = len(H.ops)
            keep = (dict(H.shapes), dict(H.conns))
            if v == 'zero':
                ok = H.try_op(('M', i, 0, 0))
            elif v == 'samepoly':
                ok = H.try_op(('T', i, list(H.shapes[i])))
            elif v == 'cancel':
                dx, dy = rng.range(-9, 9), rng.range(-9, 9)
                ok = (dx, dy) != (0, 0) and H.try_op(('M', i, dx, dy)) and H.try_op(('M', i, -dx, -dy))
            elif v == 'cancel3':
                dx, dy, ex, ey = rng.range(-7, 7), rng.range(-7, 7), rng.range(-7, 7), rng.range(-7, 7)
                ok = H.try_op(('M', i, dx, dy)) and H.try_op(('M', i, ex, ey)) and H.try_op(('M', i, -dx - ex, -dy - ey))
            else:
                old = list(H.shapes[i])
                dx, dy = rng.range(-12, 12), rng.range(-12, 12)
                ok = (dx, dy) != (0, 0) and H.try_op(('T', i, [(x + dx, y + dy) for x, y in old])) and H.try_op(('T', i, old))
            if ok:
                break
            del H.ops[n0:]
            H.shapes, H.conns = keep
        if not ok:
            continue
        tags.append(v)
        if rng.chance(1, 3):
            k = rng.below(3)
            if k == 0:
                if H.add_shapes(1):
                    tags.append('+add')
            elif k == 1 and len(H.shapes) > 1:
                j = rng.choice([x for x in sorted(H.shapes) if x != i])
                for _ in range(20):
                    if H.try_op(('M', j, rng.range(-10, 10), rng.range(-10, 10))):
                        tags.append('+move_other')
                        break
            else:
                c = rng.choice(sorted(H.conns))
                for _ in range(20):
                    if H.try_op(('E', c, rng.below(2), free_point(rng, list(H.shapes.values()), R, use_bbox=True))):
                        tags.append('+endpoint')
                        break
        H.P()
    if not tags:
        return None, []
    return H.ops, tags


def gen_addmove_history(rng, rect_only=False, R=40):
    """-> (ops, tags).  Within ONE transaction: add a shape, move it 1-2 times (absolute 'T' or relative 'M'), then move it
    RELATIVELY again ('M'); the queue model says relative moves compose on the polygon held by the queued add."""
    H = _Hist(rng, rect_only, R)
    H.add_shapes(rng.range(0, 2))
    H.add_conns(rng.range(1, 2), p_across=(1, 3))
    if not H.conns:
        return None, []
    H.P()
    tags = []
    for _ in range(rng.range(1, 2)):
        ok = False
        for _ in range(40):
            n0 = len(H.ops)
            keep = (dict(H.shapes), dict(H.conns), H.nid)
            i = H.nid
            seq = []
            ok = bool(H.add_shapes(1))
            for _ in range(rng.range(1, 2)):
                if not ok:
                    break
                if rng.chance(1, 2):
                    # absolute move, preferably far (so that a lost move is visible in the routes): onto a connector's line
                    Pn = None
                    c = H.conns[rng.choice(sorted(H.conns))]
                    if rng.chance(2, 3):
                        b = bbox(H.shapes[i]); w, h = b[2] - b[0], b[3] - b[1]
                        mx, my = (c[0][0] + c[1][0]) // 2, (c[0][1] + c[1][1]) // 2
                        ox, oy = mx - w // 2 - b[0] + rng.range(-2, 2), my - h // 2 - b[1] + rng.range(-2, 2)
                        Pn = [(x + ox, y + oy) for x, y in H.shapes[i]]
                    else:
                        for Pc in [H.new_poly() for _ in range(10)]:
                            if len(Pc) == len(H.shapes[i]):
                                Pn = Pc
                                break
                    ok = Pn is not None and H.try_op(('T', i, Pn))
                    seq.append('T')
                else:
                    ok = H.try_op(('M', i, rng.range(-15, 15), rng.range(-15, 15)))
                    seq.append('M')
            if ok:
                ok = False
                for _ in range(10):
                    dx, dy = rng.range(-15, 15), rng.range(-15, 15)
                    if (dx, dy) != (0, 0) and H.try_op(('M', i, dx, dy)):
                        ok = True
                        break
            if ok:
                tags.append('A' + ''.join(seq) + 'M')
                break
            del H.ops[n0:]
            H.shapes, H.conns, H.nid = keep
        if ok and rng.chance(1, 3) and len(H.shapes) > 1:
            j = rng.choice(sorted(H.shapes))
            if H.try_op(('M', j, rng.range(-8, 8), rng.range(-8, 8))):
                tags.append('+M')
        H.P()
    if not tags:
        return None, []
    return H.ops, tags


def gen_homogeneous_history(rng, rect_only=True, R=40):
    """-> (ops, tags).  Route a dense scene, then transactions that each contain ONLY deletions (1-3 shapes), ONLY additions (1-3 shapes,
    preferably across a connector's straight line) or ONLY endpoint changes."""
    H = _Hist(rng, rect_only, R)
    H.add_shapes(rng.range(3, 6))
    H.add_conns(rng.range(1, 3))
    if not H.conns or not H.shapes:
        return None, []
    H.P()
    tags = []
    for _ in range(rng.range(1, 4)):
        kind = rng.choice(['del', 'del', 'add', 'end'])
        done = 0
        if kind == 'del' and H.shapes:
            for _ in range(rng.range(1, 3)):
                cand = H.blocking_shapes()
                if not H.shapes:
                    break
                i = rng.choice(cand) if cand and rng.chance(3, 4) else rng.choice(sorted(H.shapes))
                done += 1 if H.try_op(('D', i)) else 0
        elif kind == 'add':
            for _ in range(rng.range(1, 3)):
                ok = False
                for _ in range(30):
                    Pn = H.new_poly()
                    if rng.chance(2, 3):
                        c = H.conns[rng.choice(sorted(H.conns))]
                        b = bbox(Pn); w, h = b[2] - b[0], b[3] - b[1]
                        t = rng.range(1, 3)
                        mx, my = c[0][0] + (c[1][0] - c[0][0]) * t // 4, c[0][1] + (c[1][1] - c[0][1]) * t // 4
                        ox, oy = mx - w // 2 - b[0], my - h // 2 - b[1]
                        Pn = [(x + ox, y + oy) for x, y in Pn]
                    if H.try_op(('A', H.nid, Pn)):
                        H.nid += 1; ok = True
                        break
                done += 1 if ok else 0
        else:
            for _ in range(rng.range(1, 2)):
                c = rng.choice(sorted(H.conns))
                for _ in range(20):
                    if H.try_op(('E', c, rng.below(2), free_point(rng, list(H.shapes.values()), R, use_bbox=True))):
                        done += 1
                        break
        if done:
            tags.append('%s%d' % (kind, done))
            H.P()
    if not tags:
        return None, []
    return H.ops, tags


# ------------------------------------------------------------------------------------------ C04: "corner reachable both ways round its obstacle"
# Directed scene family for the (previous vertex, vertex) state of libavoid's A* (ANode; seeded change C04-4: PENDING lookup by vertex alone).
# With a segment penalty the continuations validateBendPoint allows at a shape corner depend on the side the corner was reached from, so
# the cheapest arrival at a corner need not be the one the optimal route uses.  Scenes are built so that this is likely (a convex obstacle T
# with a far corner `a`; the target in the wedge that only the arrival from neighbour `c` may turn into; the source nearer to the other
# neighbour `b`; walls whose near ends are hidden behind T and whose far ends are a long way round) and then SELECTED with the extracted
# model: a scene is kept for a penalty iff taut_select reports different optima for route_taut's (previous vertex, vertex) search and for the
# vertex-only search (Avoid/RefRouterVertexOnlyModel.v).
def polys_separated(P, Q, gap=1):
    """exact: some edge line of P or of Q has every vertex of the other polygon at distance >= gap on its outer side"""
    for X, Y in ((P, Q), (Q, P)):
        for a, b in edges(X):
            l2 = (b[0] - a[0]) ** 2 + (b[1] - a[1]) ** 2
            if all(cross(a, b, q) < 0 and cross(a, b, q) ** 2 >= gap * gap * l2 for q in Y):
                return True
    return False


def point_clear(P, q, gap=1):
    """q lies outside the convex polygon P, at distance >= gap from some edge line (outer side)"""
    for a, b in edges(P):
        c = cross(a, b, q)
        if c < 0 and c * c >= gap * gap * ((b[0] - a[0]) ** 2 + (b[1] - a[1]) ** 2):
            return True
    return False


def _unit(v):
    n = math.hypot(v[0], v[1]) or 1.0
    return (v[0] / n, v[1] / n)


def _rnd(rng, lo, hi):
    return lo + (hi - lo) * (rng.below(10001) / 10000.0)


def _corner_wall(rng, P0, Dn, U, a, d, w):
    """a convex quadrilateral ("wall", half-thickness w) through the point P0 lying across the travel direction Dn: its near end stops short
    of the line a-d (the route round corner a must stay free), its far end is a long way off.  Integer vertices; None if degenerate."""
    nx, ny = -Dn[1], Dn[0]
    ad = _unit((d[0] - a[0], d[1] - a[1]))
    sd = (P0[0] - a[0]) * (-ad[1]) + (P0[1] - a[1]) * ad[0]          # signed distance of P0 from the line a-d
    comp = nx * (-ad[1]) + ny * ad[0]
    if abs(comp) < 0.2 or abs(sd) < U / 50.0:
        return None
    if (comp > 0) == (sd > 0):
        nx, ny = -nx, -ny; comp = -comp                               # (nx, ny) now points from P0 towards the line a-d
    reach = abs(sd) / abs(comp)
    near = reach * _rnd(rng, 0.5, 0.97)
    far = _rnd(rng, 0.3, 2.5) * U
    if rng.chance(1, 2):
        c = [(P0[0] + nx * near - Dn[0] * w, P0[1] + ny * near - Dn[1] * w), (P0[0] + nx * near + Dn[0] * w, P0[1] + ny * near + Dn[1] * w),
             (P0[0] - nx * far + Dn[0] * w, P0[1] - ny * far + Dn[1] * w), (P0[0] - nx * far - Dn[0] * w, P0[1] - ny * far - Dn[1] * w)]
    else:
        # axis-parallel rectangle over the same extent
        if abs(Dn[0]) > abs(Dn[1]):
            x0, x1 = P0[0] - w, P0[0] + w
            y0, y1 = sorted((P0[1] + ny * near, P0[1] - ny * far))
        else:
            y0, y1 = P0[1] - w, P0[1] + w
            x0, x1 = sorted((P0[0] + nx * near, P0[0] - nx * far))
        c = [(x1, y0), (x1, y1), (x0, y1), (x0, y0)]
    Pq = [(int(round(x)), int(round(y))) for x, y in c]
    if convex_ccw(Pq):
        return Pq
    if convex_ccw(Pq[::-1]):
        return Pq[::-1]
    return None


def gen_corner_scene(rng):
    """-> (polys, [(s, d)]) or None (construction failed / quick exact pre-tests failed).  polys[0] is the obstacle T."""
    U = rng.choice([40, 60, 100, 200, 400, 600])
    tw = max(4, int(U * _rnd(rng, 0.12, 0.4))); th = max(4, int(U * _rnd(rng, 0.12, 0.4)))
    ox, oy = rng.range(-U, U), rng.range(-U, U)
    T = poly_in_box(rng, (ox, oy, ox + tw, oy + th), rng.choice([0, 0, 5, 5, 6, 6, 7, 8, 9, 9]))
    n = len(T)
    i = rng.below(n)
    a = T[i]
    b, c = (T[i - 1], T[(i + 1) % n]) if rng.chance(1, 2) else (T[(i + 1) % n], T[i - 1])     # b: the cheap side, c: the side that may turn on
    # target: seen from a, inside the wedge between the extension of c->a and the direction a->b (only the arrival from c wraps the corner)
    e1 = _unit((a[0] - c[0], a[1] - c[1])); e2 = _unit((b[0] - a[0], b[1] - a[1]))
    t = _rnd(rng, 0.08, 0.92)
    dv = _unit((e1[0] * (1 - t) + e2[0] * t, e1[1] * (1 - t) + e2[1] * t))
    r = U * _rnd(rng, 0.5, 2.0)
    d = (int(round(a[0] + dv[0] * r)), int(round(a[1] + dv[1] * r)))
    # source: in the wedge of corner a beyond T (a is the one corner of T it cannot see), nearer to b
    al = _rnd(rng, 0.7, 3.0); be = al * _rnd(rng, 0.2, 1.0)
    s = (int(round(a[0] + al * (b[0] - a[0]) + be * (c[0] - a[0]))), int(round(a[1] + al * (b[1] - a[1]) + be * (c[1] - a[1]))))
    polys = [T]
    thin = max(1.0, U * _rnd(rng, 0.02, 0.07))
    thick = rng.chance(1, 2)
    frm_near = rng.chance(3, 4)
    ad = _unit((d[0] - a[0], d[1] - a[1]))
    frm = b
    for k in range(rng.choice([1, 2, 2, 2, 3])):
        tt = _rnd(rng, 0.15, 0.75)
        W = _corner_wall(rng, (frm[0] + (d[0] - frm[0]) * tt, frm[1] + (d[1] - frm[1]) * tt), _unit((d[0] - frm[0], d[1] - frm[1])), U, a, d,
                         thin * (rng.range(2, 5) if thick else 1))
        if W is None:
            return None
        polys.append(W)
        # the next wall stands across the way from this wall's near (or far) end to the target
        frm = (min if frm_near else max)(W, key=lambda p: abs((p[0] - a[0]) * (-ad[1]) + (p[1] - a[1]) * ad[0]))
    if rng.chance(1, 4):
        x = ox + rng.range(-U, U); y = oy + rng.range(-U, U)
        polys.append(poly_in_box(rng, (x, y, x + rng.range(2, max(3, U // 4)), y + rng.range(2, max(3, U // 4))), None))
    for x in range(len(polys)):
        for y in range(x + 1, len(polys)):
            if not polys_separated(polys[x], polys[y], 1):
                return None
    if s == d or not all(point_clear(P, s, 1) and point_clear(P, d, 1) for P in polys):
        return None

    def vis(p, q):
        return not any(through_interior(P, p, q) for P in polys)
    # necessary for the two searches to differ: corner a sees the target, the source sees b, the straight line is blocked
    if not vis(a, d) or not vis(s, b) or vis(s, d):
        return None
    return polys, [(s, d)]


def q_sel(pens, shapes, s, d):
    return 'TAUTSEL %d %s %s %s %s' % (len(pens), ' '.join(str(int(p) * PICO) for p in pens), tok_shapes(shapes), tok_pt(s), tok_pt(d))


def parse_sel(a):
    """'cP cV cP cV ..' -> [(cost_pico | None, cost_pico | None)] per penalty: route_taut's search, vertex-only search"""
    t = a.split()
    f = lambda x: None if x == '-' else int(x)
    return [(f(t[2 * i]), f(t[2 * i + 1])) for i in range(len(t) // 2)]


def run_driver_parallel(exe, queries, jobs=4, timeout=1200):
    """the driver answers line by line without state: split the queries over `jobs` processes"""
    if len(queries) < 4 * jobs:
        return run_driver(exe, queries, timeout)
    from concurrent.futures import ThreadPoolExecutor
    k = (len(queries) + jobs - 1) // jobs
    chunks = [queries[i:i + k] for i in range(0, len(queries), k)]
    with ThreadPoolExecutor(jobs) as ex:
        return [a for r in ex.map(lambda ch: run_driver(exe, ch, timeout), chunks) for a in r]
