"""C02 - VPSC: solve() returns the unique weighted least-squares optimum (DESIGN 5.2).
proof: kkt_sufficient / kkt_ok_sound / kkt_gap_sound / uniqueness / order independence (Vpsc/KKT.v), and the
refutation of "IncSolver::solve always returns the optimum" for the solve() loop before /repo 676ca34 (Vpsc/VpscRefute.v);
tie: V (the proved certificate checker kkt_ok decides optimality of every real solve() result: multipliers come from
the active forest of the REAL solver's final state, never from its stale lm fields; fall-backs: the model's forest,
exact active-set enumeration for n<=5, the proved duality-gap bound) + C (model vs implementation, as in C01).
Histories include re-solves after Variable::weight was changed on the live solver (op W, the pin / lock idiom): the
certificate uses the weights in force at that solve; model Vpsc/VpscModelW.v, invariant preservation Vpsc/VpscWeight.v.
Directed family mean-preserving re-solve (vlib/c01lib.gen_mp_histories, DESIGN 9.19): re-solves after the desired positions of a
block of the RETURNED partition moved with its weighted mean exactly preserved (Block::posn bit-identical, multipliers changed)."""
import os, json
from fractions import Fraction as Fr
from vlib import common as C
from vlib import c01lib as L

PID = 'C02'


def run(tier):
    res = C.Result(PID, tier, 'proof')
    info = C.prove(res, PID)
    res.assumptions = [
        'exact-rational model of binary64; real positions are parsed exactly (hex floats) and compared with the certified optimum to 1e-5 * problem scale',
        'the helpers that propose an optimum (forest solve, leaf elimination, active-set enumeration) are unverified; every proposal is accepted only '
        'if the extracted proved checker kkt_ok returns true']
    L.tools()
    rng = C.SplitMix64(res.seed ^ 0xC02)
    quick = tier == 'quick'
    nid = [0]

    def gen(n, nmax, kind='I', hist=True, weights=False):
        out = []
        for _ in range(n):
            nid[0] += 1
            g = L.gen_instance(rng, nid[0], nmax, kind, hist, weights)
            # C02 is about solve(): make the last op a solve
            if g['ops'][-1][0] == 'F':
                g['ops'][-1] = ('S',)
            out.append(g)
        return out

    sets = []
    corpus2 = L.load_corpus('c02_static_scale.txt')
    if corpus2:
        sets.append(('corpus-static', 'vpsc', corpus2, False))
    corpus = L.load_corpus('c02_cost_stall.txt')
    if corpus:
        sets.append(('corpus', 'vpsc', corpus, True))
        import copy
        c2 = copy.deepcopy(corpus)
        sets.append(('corpus-avoid', 'avoid', c2, True))
    corpus3 = L.load_corpus('c01_weight_histories.txt')
    if corpus3:
        import copy
        sets.append(('corpus-weights', 'vpsc', corpus3, True))
        sets.append(('corpus-weights-avoid', 'avoid', copy.deepcopy(corpus3), True))
    corpus4 = L.load_corpus('c02_mean_preserving.txt')
    if corpus4:
        import copy
        sets.append(('corpus-mean-preserving', 'vpsc', corpus4, True))
        sets.append(('corpus-mean-preserving-avoid', 'avoid', copy.deepcopy(corpus4), True))
    base = gen(1200 if quick else 8000, 12)
    twins = []
    for ins in base:
        if len(ins['ops']) == 1 and rng.chance(1, 3):
            nid[0] += 1
            twins.append(L.perm_twin(rng, ins, nid[0]))
    sets.append(('inc-vpsc', 'vpsc', base + twins, False))
    sets.append(('inc-avoid', 'avoid', gen(600 if quick else 4000, 12), False))
    sets.append(('static-vpsc', 'vpsc', gen(300 if quick else 2000, 12, 'S'), False))
    sets.append(('tiny-enum', 'vpsc', gen(300 if quick else 3000, 5), True))
    # re-solves after Variable::weight was changed on the live solver (pin / unpin idiom; also before the first solve):
    # the certificate is computed with the weights in force at that solve
    sets.append(('inc-vpsc-weights', 'vpsc', gen(300 if quick else 3000, 10, 'I', True, True), False))
    sets.append(('inc-avoid-weights', 'avoid', gen(150 if quick else 1500, 10, 'I', True, True), False))
    sets.append(('tiny-enum-weights', 'vpsc', gen(150 if quick else 1500, 5, 'I', True, True), True))
    # directed family `mean-preserving re-solve` (DESIGN 9.19): after a solve, the desired positions of the variables of blocks of
    # the RETURNED partition move by weighted-zero-sum dyadic perturbations (Block::posn keeps its value bit for bit, the
    # multipliers change), then solve/satisfy again on the same solver; weights / scales != 1, several blocks, up to 3 rounds
    mp_stats = {}
    rng_mp = C.SplitMix64(res.seed ^ 0xC02919)       # its own stream: the other sets see the instances they saw before
    for lab, impl_, cnt in (('mp-resolve-vpsc', 'vpsc', 400 if quick else 4000), ('mp-resolve-avoid', 'avoid', 200 if quick else 2000)):
        mpi, mp_stats[lab] = L.gen_mp_histories(rng_mp, cnt, 7, impl_, nid[0] + 1)
        nid[0] += cnt
        for g in mpi:
            if g['ops'][-1][0] == 'F':
                g['ops'][-1] = ('S',)
        sets.append((lab, impl_, mpi, False))
    sets.append(('inc-vpsc-large', 'vpsc', gen(40 if quick else 500, 40), False))
    if not quick:
        sets.append(('inc-avoid-large', 'avoid', gen(250, 40), False))
        sets.append(('inc-vpsc-vrun', 'vpsc', gen(10, 300, 'I', False), False))
        sets.append(('exhaustive-small', 'vpsc', L.gen_exhaustive(tier), True))
    else:
        off = res.seed % 5
        sets.append(('exhaustive-small', 'vpsc', [e for i, e in enumerate(L.gen_exhaustive(tier)) if e['tag'] == 'exh2' and i % 5 == off], True))

    evals = 0
    stats = {'certified': 0, 'gap_only': 0, 'uncertified': 0}
    srcs = {}
    corr = {'ok': 0, 'tie': 0, 'diff': 0}
    corr_static = {'ok': 0, 'ok_with_tie_flag': 0, 'tie': 0, 'diff': 0}
    viols, diffs, errors, samples = [], [], [], []
    nontrivial = set()
    hist, times = {}, {}
    twin_pairs = twin_bad = 0
    # C02 stationarity of the model's recomputed multipliers (theorems C02_compute_dfdv_stationary / C02_relm_stationary,
    # Vpsc/VpscStationary.v) evaluated by the extracted model on every state it visits during a solve/satisfy op
    stat = {'states_evaluated': 0, 'ops_evaluated': 0, 'ops_with_a_failing_state': 0, 'returns_with_all_blocks_fresh': 0,
            'returns_gap_bound_max': 0.0, 'returns_min_multiplier_min': None, 'returns_min_multiplier_below_minus_1e-4': 0}
    for label, impl, insts, enum in sets:
        real, drv, errs, dts = L.run_batch(insts, impl, tag='c02' + label, enum=enum, kkt=True)
        errors += [str(e) for e in errs]
        times[label] = [round(x, 2) for x in dts]
        for t, c in L.histogram(insts).items():
            hist[label + ':' + t] = c
        byid = {i['id']: i for i in insts}
        for ins in insts:
            rs = real.get(ins['id'], [])
            d = drv.get(ins['id'])
            v, st = L.eval_c02(ins, rs, d, impl)
            for k in ('certified', 'gap_only', 'uncertified'):
                stats[k] += st[k]
            for s, c in st['src'].items():
                srcs[s] = srcs.get(s, 0) + c
            evals += st['certified'] + st['gap_only'] + st['uncertified']
            for r in rs:
                if ins['ops'][r['op']][0] == 'S' and '1' in r['A'] and '1' not in r['U']:
                    nontrivial.add((label, ins['id']))
            for x in v:
                x['set'] = label
                viols.append((ins, x))
            for k, q in sorted(((d or {}).get('q') or {}).items()):
                stat['ops_evaluated'] += 1
                stat['states_evaluated'] += q['states']
                if not q['ok']:
                    stat['ops_with_a_failing_state'] += 1
                    diffs.append({'set': label, 'impl': 'model', 'instance': L.ins_json(ins), 'replay_input': L.replay_text(ins), 'op_index': k,
                                  'detail': 'VpscKktB.kkt_stateb is false on a state the extracted model visits while executing this op: the '
                                            'multipliers recomputed by reset_active_lm + compute_dfdv do not satisfy the stationarity equation at a '
                                            'variable whose block statistics are up to date (contradicts C02_relm_stationary)'})
                mres = ((d or {}).get('m') or {}).get(k) or {}
                if k < len(ins['ops']) and ins['ops'][k][0] == 'S' and '1' not in mres.get('U', '1'):
                    stat['solve_returns_unflagged'] = stat.get('solve_returns_unflagged', 0) + 1
                if q['fresh'] == len(ins['vs']) and k < len(ins['ops']) and ins['ops'][k][0] == 'S' and '1' not in mres.get('U', '1'):
                    # returns of solve() with nothing flagged
                    stat['returns_with_all_blocks_fresh'] += 1
                    if q['gap'] is not None:
                        stat['returns_gap_bound_max'] = max(stat['returns_gap_bound_max'], q['gap'])
                    if q['minlm'] is not None:
                        m0 = stat['returns_min_multiplier_min']
                        stat['returns_min_multiplier_min'] = q['minlm'] if m0 is None else min(m0, q['minlm'])
                        if q['minlm'] < -1e-4:
                            stat['returns_min_multiplier_below_minus_1e-4'] += 1
            if ins['kind'] == 'I':
                s, det = L.eval_corr(ins, rs, d, impl)
                corr[s] += 1
                if s == 'diff':
                    diffs.append({'set': label, 'impl': impl, 'instance': L.ins_json(ins), 'replay_input': L.replay_text(ins), 'detail': det})
            if ins['kind'] == 'S' and impl == 'vpsc' and rs:
                s, det = L.eval_corr_static(ins, rs, d)
                mt = ((d or {}).get('t') or {}).get(rs[0]['op']) or {}
                corr_static['ok_with_tie_flag' if (s == 'ok' and mt.get('tie')) else s] += 1
                if s == 'diff':
                    diffs.append({'set': label, 'impl': impl, 'instance': L.ins_json(ins), 'replay_input': L.replay_text(ins), 'detail': det,
                                  'model': 'Vpsc/StaticModel.v'})
            if 'twin_of' in ins:
                o = byid.get(ins['twin_of'])
                ro, rt = real.get(o['id'], []), rs
                if ro and rt and ro[0]['status'] == 'ok' and rt[0]['status'] == 'ok' and '1' not in ro[0]['U'] and '1' not in rt[0]['U'] \
                        and ins['ops'][0][0] == 'S':
                    twin_pairs += 1
                    vs, cs = L.cons_at(o, 0)
                    sc = L.problem_scale(vs, cs, ro[0]['x'])
                    dev = max(abs(ro[0]['x'][i] - rt[0]['x'][ins['perm'][i]]) for i in range(len(vs)))
                    if dev > Fr(1, 100000) * sc:
                        twin_bad += 1
                        viols.append((ins, {'impl': impl, 'set': label, 'what': 'the result depends on the order in which variables/constraints are supplied',
                                            'instance': L.ins_json(o), 'permuted_instance': L.ins_json(ins), 'replay_input': L.replay_text(o) + L.replay_text(ins),
                                            'got': ro[0]['xf'], 'got_permuted': rt[0]['xf'], 'permutation_new_index_of_old': ins['perm'], 'op_index': 0}))
            if len(samples) < 4 and rs and 3 <= len(ins['vs']) <= 5 and d and d['k'].get(rs[-1]['op']) and '1' in rs[-1]['A']:
                k = rs[-1]['op']
                samples.append({'instance': L.ins_json(ins), 'impl': impl, 'solve_result': rs[-1]['xf'], 'active': rs[-1]['A'],
                                'certified_optimum': [float(x) for x in d['k'][k]['x']], 'certificate_source': d['k'][k]['src'],
                                'verified_gap_bound': d['g'].get(k)})
    # ---- decide
    reported = 0
    known_hits = 0
    rep_by_set = {}
    for ins, v in viols:
        fp = None
        if 'optimum' in v or 'gap_bound' in v:
            try:
                if ins['kind'] == 'S':
                    if L.classify_static_scale(ins, v['op_index'], v['impl']):
                        fp = 'static_scale'
                elif L.classify_cost_stall(ins, v['op_index'], v['impl']):
                    fp = 'cost_stall'
            except Exception as e:
                v['classify_error'] = str(e)
        if fp and res.known_fingerprint(fp):
            known_hits += 1
            res.violation(v, fingerprint=fp)
            continue
        if reported < 3 and rep_by_set.get(v.get('set'), 0) < 2:      # at most 2 per set: a failing corpus does not hide what the generators found
            rep_by_set[v.get('set')] = rep_by_set.get(v.get('set'), 0) + 1
            try:
                small = L.shrink(ins, L.c02_fails(v['impl']), budget=150) if 'twin_of' not in ins else ins
                v['minimised_replay_input'] = L.replay_text(small)
            except Exception as e:
                v['minimise_error'] = str(e)
            res.violation(v, fingerprint=fp)
            reported += 1
    if reported == 0 and (not info['ok'] or diffs or errors):
        res.violation({'what': 'proof obligation or model/implementation correspondence no longer checks; the certificate oracle found no failing '
                               'input on %d real solve() results' % evals,
                       'broken_files': info.get('broken'), 'broken_lemmas': info.get('broken_lemmas'), 'forbidden': info.get('forbidden'),
                       'correspondence_differences': diffs[:3], 'machinery_errors': errors[:5],
                       'coq_log_tail': info['log'][-2500:] if not info['ok'] else ''}, no_input=True)
    res.cov.update({'evaluations': evals, 'distinct_nontrivial': len(nontrivial),
                    'rule': 'one evaluation = one successful solve() of the real solver with no constraint flagged, decided against the kkt_ok-certified '
                            'unique optimum (1e-5 * problem scale); both solvers (IncSolver incl. the libavoid copy, static Solver on DAGs), scaled variables, '
                            're-solve histories (constraints added, desired positions moved, Variable::weight changed - sets *-weights; desired positions moved so that the weighted mean of a block of the returned partition is exactly preserved - sets mp-resolve-*), permuted twins; non-trivial = distinct instances whose optimum has at least one active constraint',
                    'exhaustive': False,
                    'exhaustive_note': 'set exhaustive-small (with the exact active-set enumeration oracle always on): ' +
                                       ('1/5 of the n=2 family, rotating with the seed' if quick else 'the complete n=2 and n=3 families of vlib/c01lib.gen_exhaustive'),
                    'samples': samples, 'traces_validated_against_impl': sum(corr.values()) + sum(corr_static.values()), 'correspondence': corr,
                    'correspondence_static_solver': dict(corr_static, what='extracted Vpsc/StaticModel.v vs vpsc::Solver::solve() on every static instance (partition, active flags, '
                                                        'thrown constraint exactly; positions to 1e-9*scale); tie = differed while the model compared keys closer than 1e-7'),
                    'certificates': dict(stats, sources=srcs, legend='R = multipliers from the real solver\'s active forest, M = from the model\'s, E = enumeration'),
                    'model_stationarity': dict(stat, what='VpscKktB.kkt_stateb (= lm_lenb && stationarityb) evaluated by the extracted model on every state it visits during every '
                                               'solve/satisfy op (n <= 40): the lm vector has one entry per constraint, findMinLM is re-run on the block of every variable and the stationarity residual of '
                                               'KKT.v must be exactly 0 at every variable whose block statistics are the sums over the block (always, except AD '
                                               'between a change of a desired position and the next moveBlocks); gap bound / min multiplier = KKT.kkt_gap and '
                                               'the smallest recomputed multiplier of an active inequality on the states the model returns from solve() with nothing flagged; a failure is '
                                               'reported as a correspondence difference'),
                    'mean_preserving_resolve': dict(mp_stats, what='sets mp-resolve-*: histories built from the block partition the real solver returned; rounds = re-solves '
                                                    'after a perturbation that leaves sum w*a*d of every perturbed block (hence Block::posn) exactly unchanged'),
                    'order_independence_pairs': twin_pairs, 'order_dependent': twin_bad,
                    'known_finding_hits': known_hits, 'input_histogram': hist,
                    'set_times_s(harness,driver)': times, 'machinery_errors': errors[:5]})
    return res.finish()


def replay(path):
    j = json.load(open(path))
    print(json.dumps({k: v for k, v in j.items() if k not in ('replay_input', 'minimised_replay_input')}, indent=1)[:4000])
    txt = j.get('minimised_replay_input') or j.get('replay_input')
    if txt:
        L.tools()
        impl = j.get('impl', 'vpsc')
        ins = L.parse_cpp_instances(txt)
        real, drv, errs, _ = L.run_batch(ins, impl, tag='replay', enum=True)
        bad = 0
        for i in ins:
            print('real:', [(r['op'], r['status'], r['xf'], r['A'], r['U']) for r in real.get(i['id'], [])])
            d = drv.get(i['id']) or {}
            print('certified optimum:', {k: (v['src'], [float(x) for x in v['x']]) if v else None for k, v in d.get('k', {}).items()})
            v, _ = L.eval_c02(i, real.get(i['id'], []), d, impl)
            print('C02 oracle:', ('VIOLATED: ' + v[0]['what']) if v else 'holds')
            bad += len(v)
        return 1 if bad else 0
    return 0


def warm():
    L.tools()


META = {
    'property_id': PID,
    'level_claimed': {
        'category': 'proof',
        'text': 'Coq theorems for every n, m, positive weights, arbitrary scales: a KKT certificate (feasible, multipliers >= 0 on inequalities, zero on '
                'non-tight constraints, stationarity in the code\'s scale convention) implies optimality and uniqueness (kkt_sufficient, kkt_unique); the boolean '
                'checker kkt_ok is sound and complete for those conditions; kkt_gap gives a proved bound obj(x)-obj(y) <= B for any placement x and any multipliers; '
                'the optimum is independent of the constraint order. "IncSolver::solve always returns the optimum" was REFUTED on the faithful model of the loop '
                'before /repo 676ca34 (C02_solve_optimal_refuted_before_fix; witnesses replayed on the real code, now regression inputs in the corpus); for the '
                'current loop it is decided per run by the certificate (C02_solve_certified_partial), not proved for all runs. Proved for all op histories of '
                'the model (second round): the active constraints of every block form a spanning tree, are tight, block statistics are the sums over the block '
                '(C02_active_forest_reachable), and the positions solve() returns are feasible for the unflagged constraints (C02_solve_feasible_history); '
                'both also for histories that change Variable::weight between solves (C02_active_forest_weight_history, C02_solve_feasible_weight_history). '
                'Third round (Vpsc/VpscStationary.v): the stretch lemma - Block::compute_dfdv over the spanning tree of a block leaves the stationarity residual 0 '
                'at every non-root variable for any block position (C02_compute_dfdv_stationary), findMinLM on a block with up-to-date statistics at every '
                'variable of it (C02_find_min_lm_stationary), re-running it on every block at every variable (C02_relm_stationary); hence the explicit duality '
                'gap from the recomputed multipliers alone (C02_relm_gap_bound, C02_relm_optimal) and, under the exit test of splitBlocks (no multiplier below '
                '-tau), obj - optimum <= sum_i (scl_i*tau*deg_i)^2/(4 w_i) (C02_split_blocks_exit_kkt); for every history C02_solve_near_optimal_history_partial. '
                'The boolean form (VpscKktB.kkt_stateb) is evaluated by the extracted model on every state it visits (evidence key model_stationarity). '
                'Fourth round (Vpsc/VpscFresh.v, VpscMinLM.v): the two state hypotheses are invariants - in every reachable state Blocks::m_blocks lists the '
                'undeleted block of every variable and the lm vector has one entry per constraint (C02_reachable_live_lm); moveBlocks makes AB/AD of every owning '
                'block the sums for the current offsets/desired positions and every later step of satisfy keeps that (C02_move_blocks_stats, C02_satisfy_step_stats), '
                'so every returned state is all_fresh (C02_solve_return_fresh) and C02_solve_near_optimal_history holds for EVERY history with no premise on the '
                'returned state. findMinLM returns the minimum multiplier over the active inequalities of its block (C02_find_min_lm_min); a splitBlocks that '
                'splits nothing leaves a state whose STORED multipliers are stationary, >= -1e-4 on active inequalities, with obj - optimum <= '
                'sum_i (scl_i*1e-4*deg_i)^2/(4 w_i) (C02_split_blocks_quiet_kkt); an in-loop satisfy() with splitCnt = 0 does not merge afterwards (its input '
                'already meets the loop exit condition and moveBlocks on up-to-date statistics moves nothing), hence C02_solve_exit_guarantee: solve() either '
                'leaves its loop through the test and then the returned state carries that KKT package, or it gave up after exactly MAXTRIES = 100 in-loop passes. '
                'All of this also for histories that change Variable::weight between solves (Vpsc/VpscStatsW.v: the weight-independent statistics invariant '
                'all_pos; C02_solve_return_fresh_weight_history, C02_solve_near_optimal_weight_history, C02_solve_exit_guarantee_weight_history).',
        'design_ref': 'DESIGN.md 5.2'},
    'level_note': 'Trusted: Coq kernel; extraction + OCaml driver (its optimum-proposing helpers are unverified but every proposal passes the proved kkt_ok); C++ harness; '
                  'exact-rational model of binary64. Not proved: that solve() never gives up after MAXTRIES = 100 passes (in that case only feasibility of the returned '
                  'state is guaranteed: C02_solve_exit_guarantee names the two exits); termination; '
                  'variable-order independence is checked on permuted twins and follows from uniqueness only informally (constraint-order independence is proved). '
                  'Re-solve coverage: besides random moves of single desired positions, the directed family mean-preserving re-solve (sets mp-resolve-*, corpus/c02_mean_preserving.txt, '
                  'DESIGN 9.19) moves the desired positions of whole blocks of the partition the real solver returned by weighted-zero-sum dyadic perturbations, so that '
                  'Block::posn keeps its value bit for bit while the multipliers change sign - the case in which any shortcut keyed on the block position goes wrong; '
                  'weights / scales != 1, several blocks at once, up to 3 rounds, solve() and satisfy() passes, both copies of the solver.',
    'technique': 'Coq proof of a certificate checker (certifying-algorithm validation of every real solve() result) + refutation witness + extracted-model correspondence',
}
