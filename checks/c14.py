"""C14 - libdialect: HOLA returns a clean orthogonal drawing of the same graph (DESIGN 5.14).
Level `other`.  The HOLA pipeline (~18 kLOC) is NOT modelled.  What is proved (Coq): the oracle `hola_ok` is sound
and complete for the declaratively stated output conditions, and the node-padding arithmetic of hola.cpp is the
identity on sizes over Q and yields the padding tolerance.  What is sampled: the real doHOLA, run on random connected
graphs of the families the property names under the option settings it names, plus the shipped hola_* test inputs;
the extracted, verified `hola_ok` decides every run.  A source change in /repo can therefore only show through the
checker rejecting a real output (a concrete graph is then the replay); a broken proof can only come from an edit
of the Coq files."""
import os, re, json, collections, tempfile, time
from fractions import Fraction
from concurrent.futures import ThreadPoolExecutor
from vlib import common as C
from checks import c14gen as G

PID = 'C14'
FLAVOR = 'c14exc'      # assertions as exceptions; a flavour name of its own so that concurrent checks with another
                       # VERIF_REPO do not evict these objects
TOLS = {'size': Fraction(1, 10**6), 'ovl': Fraction(1, 10**6), 'par': Fraction(1, 10**9), 'end': Fraction(1, 10**6),
        'thru': Fraction(1, 10**6), 'sep': Fraction(1, 10**6)}
TOL_ORDER = ['size', 'ovl', 'par', 'end', 'thru', 'sep']
SHIPPED = (['random/v%de%d.tglf' % (10 * i, (10 + d) * i) for d in (0, 1, 2) for i in (1, 2, 3, 4, 5)] +
           ['special/Arpanet19728_input.tglf', 'special/Belnet2004.tglf', 'special/Cernet.tglf', 'special/Claranet.tglf',
            'special/Garr201001.tglf', 'special/Janetlense.tglf', 'special/GtsSlovakia_input.tglf', 'trees/tree02.tglf'])


def hexq(x):
    f = Fraction(x)
    return '%s%x/%x' % ('-' if f < 0 else '', abs(f.numerator), f.denominator)


def fq(s):
    """a "%.17g" token -> the exact rational value of that double"""
    return hexq(Fraction(float(s)))


def parse_dump(out):
    d = {'P': None, 'B': {'N': [], 'E': []}, 'A': {'N': [], 'E': [], 'S': [], 'X': '0'}, 'exc': None, 'T': None}
    for line in out.split('\n'):
        f = line.split()
        if not f:
            continue
        if f[0] == 'EXC':
            d['exc'] = line[4:].strip()
        elif f[0] == 'P':
            d['P'] = (f[1], f[2])
        elif f[0] == 'T':
            d['T'] = float(f[1])
        elif f[0] in ('A', 'B') and len(f) > 2:
            if f[1] == 'N':
                d[f[0]]['N'].append((int(f[2]), f[3], f[4], f[5], f[6]))
            elif f[1] == 'E':
                if f[0] == 'B':
                    d['B']['E'].append((int(f[2]), int(f[3])))
                else:
                    d['A']['E'].append((int(f[2]), int(f[3]), f[5:5 + 2 * int(f[4])]))
            elif f[1] == 'X':
                d['A']['X'] = f[2]
            elif f[1] == 'S':
                d['A']['S'].append((int(f[2]), int(f[3]), int(f[4]), int(f[5]), int(f[6]), int(f[7]), int(f[8]), f[9], int(f[10]), f[11]))
    return d


def driver_input(name, d, tols=TOLS):
    L = ['case ' + name, 'tols ' + ' '.join(hexq(tols[k]) for k in TOL_ORDER), 'scalar ' + fq(d['P'][0])]
    for tag in ('B', 'A'):
        for (i, x, y, w, h) in d[tag]['N']:
            L.append('%s N %d %s %s %s %s' % (tag, i, fq(x), fq(y), fq(w), fq(h)))
    for (s, t) in d['B']['E']:
        L.append('B E %d %d' % (s, t))
    for (s, t, pts) in d['A']['E']:
        L.append('A E %d %d %d %s' % (s, t, len(pts) // 2, ' '.join(fq(p) for p in pts)))
    L.append('A X ' + fq(d['A']['X']))
    for (s, t, xgt, ygt, xst, yst, sx, gx, sy, gy) in d['A']['S']:
        L.append('A S %d %d %d %d %d %d %d %s %d %s' % (s, t, xgt, ygt, xst, yst, sx, fq(gx), sy, fq(gy)))
    L.append('end')
    return '\n'.join(L) + '\n'


def parse_verdict(line):
    v = {'raw': line.strip(), 'E': {}, 'S': [], 'O': []}
    parts = line.strip().split(' | ')
    for kv in parts[0].split()[1:]:
        k, x = kv.split('=')
        v[k] = (x == '1') if k not in ('pad', 'iel') else float(x)
    for p in parts[1:]:
        f = p.split()
        if f[0] == 'E':
            for t in f[1:]:
                i, fl = t.split(':')
                v['E'][int(i)] = fl
        elif f[0] == 'S':
            v['S'] = [int(x) for x in f[1:]]
        elif f[0] == 'O':
            v['O'] = [tuple(int(y) for y in x.split(',')) for x in f[1:]]
    return v


def run_case(exe, drv, case, tmpdir, idx):
    """one doHOLA run + the verified checker on its output"""
    p = os.path.join(tmpdir, 'case%d.txt' % idx)
    with open(p, 'w') as f:
        f.write(G.case_text(case))
    rc, out, err, dt = C.sh([exe, p], timeout=600)
    r = {'rc': rc, 'time': dt, 'stderr': err[-1500:] if rc != 0 else ''}
    if rc != 0:
        r['crash'] = True
        r['dump_head'] = out[:300]
        return r
    d = parse_dump(out)
    r['dump'] = d
    if d['exc'] is not None:
        r['exc'] = d['exc']
        return r
    rc2, vout, verr, dt2 = C.sh([drv], input=driver_input('c%d' % idx, d), timeout=900)
    r['checker_time'] = dt2
    if rc2 != 0 or not vout.strip():
        r['checker_error'] = (verr or vout)[-1500:]
        return r
    r['verdict'] = parse_verdict(vout.strip().split('\n')[-1])
    return r


# ----------------------------------------------------------------------------- diagnosis (floats; never decides)
def fbox(n):
    i, x, y, w, h = n
    x, y, w, h = float(x), float(y), float(w), float(h)
    return (x - w / 2, x + w / 2, y - h / 2, y + h / 2)


def sep_violation(d, s):
    """(amount, description) of the violation of one dumped SepPair by the dumped positions, in floats"""
    A = {n[0]: n for n in d['A']['N']}
    (a, b, xgt, ygt, xst, yst, sx, gx, sy, gy) = s
    if a not in A or b not in A:
        return 1e30, 'unknown node'
    X = float(d['A']['X'])
    worst, desc = 0.0, ''
    for (st, gt, sg, g, k, wk, dim) in ((xst, xgt, sx, float(gx), 1, 3, 'x'), (yst, ygt, sy, float(gy), 2, 4, 'y')):
        if st == 0:
            continue
        cs, ct, ws, wt = float(A[a][k]), float(A[b][k]), float(A[a][wk]), float(A[b][wk])
        c1, w1, c2, w2 = (ct, wt, cs, ws) if sg else (cs, ws, ct, wt)
        dist = (c2 - c1) if gt == 0 else (c2 - w2 / 2) - (c1 + w1 / 2)
        need = g if gt == 0 else g + X
        v = abs(dist - need) if st == 1 else max(0.0, need - dist)
        if v > worst:
            worst, desc = v, '%s %s %s gap %s%g: dist %.6g need %.6g' % (dim, 'EQ' if st == 1 else 'INEQ', 'CENTRE' if gt == 0 else 'BDRY',
                                                                        '-' if sg else '+', g, dist, need)
    return worst, desc


def is_tree(d):
    return len(d['B']['E']) == len(d['B']['N']) - 1


def diagnose(case, r):
    """which conjuncts failed and on what, for the replay file and for the known-finding classifiers"""
    d, v = r['dump'], r['verdict']
    A = {n[0]: n for n in d['A']['N']}
    info = {'failed': [k for k in ('nodes', 'edges', 'sizes', 'overlap', 'routes', 'seps') if not v.get(k)],
            'checker': v['raw'], 'whole_graph_is_tree': is_tree(d)}
    if v['E']:
        info['bad_edges'] = []
        for i, fl in sorted(v['E'].items()):
            s, t, pts = d['A']['E'][i]
            info['bad_edges'].append({'edge': [s, t], 'fails': fl, 'route': [float(x) for x in pts],
                                      'src_box': fbox(A[s]) if s in A else None, 'tgt_box': fbox(A[t]) if t in A else None})
    if v['S']:
        info['bad_seps'] = []
        for i in v['S']:
            amt, desc = sep_violation(d, d['A']['S'][i])
            info['bad_seps'].append({'pair': list(d['A']['S'][i][:2]), 'sep': list(d['A']['S'][i][2:]), 'violation': amt, 'what': desc})
    if v['O']:
        info['overlapping'] = [{'nodes': list(p), 'boxes': [fbox(A[p[0]]), fbox(A[p[1]])]} for p in v['O']]
    return info


def two_core(d):
    """ids left after repeatedly removing degree-<=1 nodes (what dialect::peel leaves as the core)"""
    adj = collections.defaultdict(set)
    for a, b in d['B']['E']:
        adj[a].add(b)
        adj[b].add(a)
    alive = set(n[0] for n in d['B']['N'])
    changed = True
    while changed:
        changed = False
        for v in list(alive):
            if len(adj[v] & alive) <= 1:
                alive.discard(v)
                changed = True
    return alive


def padded_collision(d, pad_side, iel):
    """node pairs in adjacent ranks of a tree layout (centres exactly rankSep*IEL = IEL apart along one axis, hola.cpp:103
    with the default treeLayoutScalar_rankSep = 1) whose final boxes, inflated by the node padding the layout works
    with, overlap with positive area"""
    N = d['A']['N']
    out = []
    for i in range(len(N)):
        for j in range(i + 1, len(N)):
            a, b = N[i], N[j]
            dx, dy = abs(float(a[1]) - float(b[1])), abs(float(a[2]) - float(b[2]))
            if abs(dx - iel) > 1e-6 * iel and abs(dy - iel) > 1e-6 * iel:
                continue
            ba, bb = fbox(a), fbox(b)
            ox = min(ba[1], bb[1]) - max(ba[0], bb[0]) + 2 * pad_side
            oy = min(ba[3], bb[3]) - max(ba[2], bb[2]) + 2 * pad_side
            if ox > 1e-9 and oy > 1e-9:
                out.append((a[0], b[0]))
    return out


def adjacent_rank_pair(d, pair, iel):
    A = {n[0]: n for n in d['A']['N']}
    a, b = A[pair[0]], A[pair[1]]
    dx, dy = abs(float(a[1]) - float(b[1])), abs(float(a[2]) - float(b[2]))
    return abs(dx - iel) <= 1e-6 * iel or abs(dy - iel) <= 1e-6 * iel


def classify(case, r, info):
    """fingerprint of a checker rejection: a predicate on the failing case (KNOWN_FINDINGS.txt), or None when the
    rejection is not explained by a known finding.  Only `overlap`, `routes` and `seps` rejections can be known."""
    d, v = r['dump'], r['verdict']
    opts = case.get('opts', {})
    failed = set(info['failed'])
    if not failed or not failed <= {'overlap', 'routes', 'seps'}:
        return None
    edges = set((min(a, b), max(a, b)) for a, b in d['B']['E'])
    A = {n[0]: n for n in d['A']['N']}
    tree = info['whole_graph_is_tree']
    fps = set()

    def dimkind(bs):
        return bs['what'].split()[1:3]

    if tree:
        coll = padded_collision(d, v['pad'], v['iel'])
        for bs in info.get('bad_seps', []):
            pair = (min(bs['pair']), max(bs['pair']))
            (xgt, ygt, xst, yst, sx, gx, sy, gy) = bs['sep']
            if dimkind(bs) == ['EQ', 'CENTRE'] and pair in edges and 'gap +0:' in bs['what'].replace('gap -0:', 'gap +0:'):
                fps.add('tree_centre_child_alignment')
            elif dimkind(bs) == ['INEQ', 'BDRY'] and adjacent_rank_pair(d, bs['pair'], v['iel']):
                fps.add('tree_rank_collision')
            else:
                return None
        if ('overlap' in failed or 'routes' in failed):
            if not coll:
                return None
            fps.add('tree_rank_collision')
        return sorted(fps) if fps else None
    # graphs with a core
    core = two_core(d)
    for bs in info.get('bad_seps', []):
        if bs['pair'][0] in core and bs['pair'][1] in core:
            fps.add('stale_core_constraint')
        else:
            return None
    pad_side = v['pad']

    def near(a, b):     # boxes inflated by the padding per side overlap
        ba, bb = fbox(A[a]), fbox(A[b])
        return min(ba[1], bb[1]) - max(ba[0], bb[0]) + 2 * pad_side > 0 and min(ba[3], bb[3]) - max(ba[2], bb[2]) + 2 * pad_side > 0

    big_overlap = False
    if 'overlap' in failed:
        for ov in info['overlapping']:
            ba, bb = ov['boxes']
            ox = min(ba[1], bb[1]) - max(ba[0], bb[0])
            oy = min(ba[3], bb[3]) - max(ba[2], bb[2])
            if min(ox, oy) >= 2 * pad_side:
                big_overlap = True
        if big_overlap and len(d['A']['N']) < 60:
            return None
        fps.add('large_graph_overlap' if big_overlap else 'padded_gap_lost')
    if 'routes' in failed:
        chain_like, gap_like, big_routes_ok = True, True, True
        for be in info['bad_edges']:
            s, t = be['edge']
            rt = be['route']
            if s not in A or t not in A or len(rt) < 4:
                return None
            at_centres = abs(rt[0] - float(A[s][1])) < 1e-9 and abs(rt[1] - float(A[s][2])) < 1e-9 and \
                abs(rt[-2] - float(A[t][1])) < 1e-9 and abs(rt[-1] - float(A[t][2])) < 1e-9
            if not (set(be['fails']) <= set('pt') and at_centres and len(rt) >= 6 and opts.get('useACAforLinks', 1) == 0):
                chain_like = False
            pierced = []
            for n in d['A']['N']:
                if n[0] in (s, t):
                    continue
                b = fbox(n)
                for i in range(0, len(rt) - 2, 2):
                    x0, x1 = sorted((rt[i], rt[i + 2]))
                    y0, y1 = sorted((rt[i + 1], rt[i + 3]))
                    if min(x1 - b[0], b[1] - x0, y1 - b[2], b[3] - y0) > 1e-6:
                        pierced.append(n[0])
                        break
            if not (be['fails'] == 't' and pierced and all(near(q, s) or near(q, t) for q in pierced)):
                gap_like = False
            if big_overlap and any(s in ov['nodes'] or t in ov['nodes'] for ov in info['overlapping']):
                continue    # a connector of a node that overlaps another node: consequence of large_graph_overlap
            big_routes_ok = False
        if big_overlap and big_routes_ok:
            pass
        elif chain_like:
            fps.add('chain_bend_unaligned')
        elif gap_like:
            fps.add('padded_gap_lost')
        else:
            return None
    return sorted(fps) if fps else None


def exc_fingerprint(msg):
    a = re.search(r'expression: (.*?)\s+at line (\d+) of (\S+)', msg)
    if a:   # failed COLA_ASSERT
        return 'exception:assert:%s:%s' % (os.path.basename(a.group(3)), a.group(1).strip().replace(' ', '_')[:50])
    m = re.sub(r'\d+', 'N', msg).strip()
    m = re.sub(r'[^A-Za-z]+', '_', m).strip('_').lower()
    return 'exception:' + m[:60]


# ----------------------------------------------------------------------------------------------- case lists
def shipped_cases(tier):
    base = os.path.join(C.COLA, 'libdialect', 'tests', 'graphs')
    out = []
    for rel in SHIPPED:
        p = os.path.join(base, rel)
        if os.path.exists(p):
            out.append({'family': 'shipped', 'name': rel, 'tglf': open(p).read(), 'opts': {}})
    return out


def corpus_cases():
    out = []
    p = os.path.join(C.VERIF, 'corpus', 'c14_cases.json')
    if os.path.exists(p):
        for c in json.load(open(p)):
            c = dict(c)
            c['family'] = 'corpus:' + c.get('family', '?')
            out.append(c)
    return out


def random_cases(rng, n, maxn):
    fams = G.FAMILIES[:5]
    out = []
    for i in range(n):
        out.append(G.gen_case(rng.fork(), fams[i % len(fams)], maxn))
    return out


# ------------------------------------------------------------------------------------------------------ run
def replay_obj(case, r, info, exe):
    d = r.get('dump')
    obj = {'what': 'the verified checker hola_ok rejects the real output of dialect::doHOLA on this graph',
           'family': case.get('family'), 'options': case.get('opts'),
           'graph': {'nodes_id_cx_cy_w_h': case.get('nodes'), 'edges': case.get('edges')} if 'nodes' in case else {'tglf_file': case.get('name')},
           'harness_input': G.case_text(case),
           'diagnosis': info,
           'replay': 'save harness_input to a file f; %s f  dumps before/after; ./check C14 --replay <this file> re-runs harness + checker' % exe}
    if d:
        obj['after'] = {'nodes_id_cx_cy_w_h': [[n[0]] + [float(x) for x in n[1:]] for n in d['A']['N']],
                        'n_edges': len(d['A']['E']), 'n_seps': len(d['A']['S']), 'extraBdryGap': float(d['A']['X'])}
    return obj


def run(tier):
    res = C.Result(PID, tier, 'other')
    info = C.prove(res, PID)
    res.assumptions = ['no model of the HOLA pipeline: the theorems are about the oracle hola_ok and the padding arithmetic only; the implementation is sampled',
                       'the dumped doubles are converted to exact rationals (Fraction(float)) and decided exactly by the extracted checker with the tolerances listed under coverage.tolerances',
                       'generator domain: connected simple graphs (no self-loops, no multi-edges), positive node sizes, pairwise distinct start positions in the main stream']
    t0 = time.time()
    try:
        exe = C.build_harness('c14_hola', C.LIBS, FLAVOR)
    except RuntimeError as e:
        res.violation({'what': 'the libraries / harness do not build from the working tree', 'error': str(e)[-3000:]}, no_input=True)
        return res.finish()
    try:
        drv = C.ocaml_build('c14', 'C14.v', 'c14_driver.ml', 'c14_model.ml')
    except RuntimeError as e:
        res.violation({'what': 'the Coq definitions of the oracle (HolaCheckModel.v / HolaPadding.v) no longer compile or extract; '
                               'nothing can be decided', 'error': str(e)[-3000:], 'broken_lemmas': info.get('broken_lemmas')}, no_input=True)
        return res.finish()
    build_s = time.time() - t0
    rng = C.SplitMix64(res.seed)
    n_random, maxn, n_degen = (1000, 40, 60) if tier == "quick" else (2000, 80, 150)
    cases = corpus_cases() + shipped_cases(tier) + random_cases(rng, n_random, maxn)
    degen = [G.gen_case(rng.fork(), 'degenerate_start', min(maxn, 30)) for _ in range(n_degen)]
    cases += degen
    tmpdir = tempfile.mkdtemp(prefix='c14_', dir=os.path.join(C.BUILD))
    t1 = time.time()
    try:
        with ThreadPoolExecutor(C.NPROC) as ex:
            results = list(ex.map(lambda ic: run_case(exe, drv, ic[1], tmpdir, ic[0]), enumerate(cases)))
    finally:
        import shutil
        shutil.rmtree(tmpdir, ignore_errors=True)
    run_s = time.time() - t1

    cond = collections.Counter()
    fam = collections.Counter()
    optc = collections.Counter()
    excs = collections.Counter()
    known = collections.Counter()
    n_checked = n_ok = n_nodes = n_edges = n_seps = n_segs = 0
    distinct = set()
    samples = []
    new_viol = 0
    end_outside = 0
    for case, r in zip(cases, results):
        fam[case['family'].split(':')[0]] += 1
        o = case.get('opts', {})
        optc['ACA=%s nearalign=%s aspect=%s' % (o.get('useACAforLinks', 1), o.get('do_near_align', 1),
                                                 ['NONE', 'PORTRAIT', 'LANDSCAPE'][o.get('preferredAspectRatio', 2)])] += 1
        if r.get('crash'):
            res.violation({'what': 'the harness process died (signal / abort) inside doHOLA', 'rc': r['rc'], 'stderr': r['stderr'],
                           'harness_input': G.case_text(case), 'family': case['family'], 'options': o})
            new_viol += 1
            continue
        if 'exc' in r:
            excs[r['exc'][:80]] += 1
            fp = exc_fingerprint(r['exc'])
            if res.violation({'what': 'doHOLA threw instead of returning a drawing: ' + r['exc'], 'harness_input': G.case_text(case),
                              'family': case['family'], 'options': o}, fingerprint=fp):
                new_viol += 1
            else:
                known[fp] += 1
            continue
        if 'checker_error' in r:
            res.violation({'what': 'the extracted checker failed to run', 'error': r['checker_error']}, no_input=True)
            new_viol += 1
            continue
        d, v = r['dump'], r['verdict']
        n_checked += 1
        n_nodes += len(d['A']['N'])
        n_edges += len(d['A']['E'])
        n_seps += len(d['A']['S'])
        n_segs += sum(max(0, len(e[2]) // 2 - 1) for e in d['A']['E'])
        for k in ('nodes', 'edges', 'sizes', 'overlap', 'routes', 'seps'):
            if v.get(k):
                cond[k] += 1
        distinct.add((len(d['B']['N']), tuple(sorted(d['B']['E'])), tuple(sorted(o.items()))))
        if len(samples) < 3 and case['family'] in ('core_trees', 'hubs', 'cycle') and len(d['B']['N']) <= 12:
            samples.append({'family': case['family'], 'options': o, 'nodes_id_cx_cy_w_h': case.get('nodes'), 'edges': case.get('edges'),
                            'verdict': v['raw']})
        if v['ok']:
            n_ok += 1
            continue
        dg = diagnose(case, r)
        fps = classify(case, r, dg)
        obj = replay_obj(case, r, dg, exe)
        if fps and all(res.known_fingerprint(f) for f in fps):
            for f in fps:
                res.violation(obj, fingerprint=f)
                known[f] += 1
        else:
            unknown = [f for f in (fps or []) if not res.known_fingerprint(f)]
            if unknown:
                obj['fingerprint_not_listed'] = unknown
            if new_viol < 5:
                res.violation(obj)
            new_viol += 1

    res.cov.update({
        'explanation': 'Level other. PROVED (Coq, all inputs): the oracle hola_ok is sound and complete for the declaratively stated output '
                       'conditions of doHOLA (same node ids, same edge multiset, sizes kept, no positive-area node overlap, every route >=2 '
                       'points / axis-parallel / ends within the padded end-node boxes / through no third node, every returned SepPair holds - '
                       'the C18 meaning at tolerance 0), and the node-padding arithmetic of hola.cpp (inflate by nodePaddingScalar*IEL, deflate '
                       'in layers 1/4 + 3/4) is the identity on sizes over Q and bounds the route-end tolerance. NOT PROVED: anything about the '
                       'HOLA pipeline itself (no model exists). SAMPLED: %d real doHOLA runs (%d drawings checked: %d nodes, %d edges, %d route '
                       'segments, %d separation pairs) decided by the extracted hola_ok; a change in /repo can only show through these runs.'
                       % (len(cases), n_checked, n_nodes, n_edges, n_segs, n_seps),
        'evaluations': len(cases), 'distinct_nontrivial': len(distinct),
        'rule': 'cases = corpus/c14_cases.json + the inputs of the 11 shipped hola_* tests (default options) + random connected simple graphs '
                '(families tree, cycle, core with hanging trees, hubs, random; <= %d nodes; three node-size regimes; random distinct start '
                'positions; options: useACAforLinks, do_near_align, preferredAspectRatio each random, preferConvexTrees / putUlcAtOrigin / '
                'tree growth directions sometimes) + a degenerate-start stream (coincident / collinear / gridded start positions); '
                'distinct_nontrivial = distinct (node count, edge set, options) among the runs that returned a drawing' % maxn,
        'samples': samples,
        'traces_validated_against_impl': n_ok,
        'drawings_checked': n_checked, 'accepted_by_hola_ok': n_ok,
        'per_condition_pass': {k: cond[k] for k in ('nodes', 'edges', 'sizes', 'overlap', 'routes', 'seps')},
        'totals': {'nodes': n_nodes, 'edges': n_edges, 'route_segments': n_segs, 'separation_pairs': n_seps},
        'families': dict(fam), 'option_combinations': dict(optc), 'exceptions': dict(excs),
        'known_finding_cases': dict(known), 'new_rejections': new_viol,
        'tolerances': {k: str(TOLS[k]) for k in TOL_ORDER},
        'timing_s': {'build': round(build_s, 1), 'runs': round(run_s, 1), 'max_single_doHOLA': round(max(r['time'] for r in results), 2)}})
    n_exc = sum(excs.values())
    if n_exc > 0.03 * len(cases):
        res.violation({'what': 'doHOLA ended in an exception / failed assertion on %d of %d runs (more than 3%%); the unchanged tree does so on '
                               'about 1%%' % (n_exc, len(cases)), 'exceptions': dict(excs)}, no_input=True)
        new_viol += 1
    if not info['ok'] and new_viol == 0:
        res.violation({'what': 'a proof obligation of the oracle / padding theorems no longer checks (only an edit of the Coq files can cause '
                               'this); the sampled runs found no rejected drawing', 'broken_files': info.get('broken'),
                       'broken_lemmas': info.get('broken_lemmas'), 'forbidden': info.get('forbidden'), 'coq_log_tail': info['log'][-2500:]},
                      no_input=True)
    return res.finish()


def replay(path):
    r = json.load(open(path))
    print(json.dumps({k: r[k] for k in r if k not in ('harness_input',)}, indent=1)[:6000])
    if 'harness_input' not in r:
        return 0
    exe = C.build_harness('c14_hola', C.LIBS, FLAVOR)
    drv = C.ocaml_build('c14', 'C14.v', 'c14_driver.ml', 'c14_model.ml')
    tmpdir = tempfile.mkdtemp(prefix='c14r_', dir=C.BUILD)
    p = os.path.join(tmpdir, 'case.txt')
    open(p, 'w').write(r['harness_input'])
    rc, out, err, dt = C.sh([exe, p], timeout=600)
    if rc != 0:
        print('harness died rc=%d\n%s' % (rc, err[-2000:]))
        return 1
    d = parse_dump(out)
    if d['exc'] is not None:
        print('EXCEPTION', d['exc'])
        return 1
    rc2, vout, verr, dt2 = C.sh([drv], input=driver_input('replay', d), timeout=900)
    print(vout.strip())
    import shutil
    shutil.rmtree(tmpdir, ignore_errors=True)
    return 0 if ' ok=1 ' in vout else 1


def warm():
    C.build_harness('c14_hola', C.LIBS, FLAVOR)
    C.ocaml_build('c14', 'C14.v', 'c14_driver.ml', 'c14_model.ml')


META = {
    'property_id': PID,
    'level_claimed': {
        'category': 'other',
        'text': 'The theorem covers the oracle and the padding arithmetic; the implementation is sampled. Proved in Coq, for all drawings and '
                'all tolerance settings: the checker hola_ok is sound AND complete for the declaratively stated output conditions of doHOLA '
                '(same node ids; same multiset of (source,target) edges; every node keeps its width and height; no two node rectangles have a '
                'common interior point; every route has >= 2 points, only axis-parallel segments, starts and ends inside-or-on the end nodes\' '
                'boxes inflated by the node padding (either orientation), and no segment contains a point strictly inside a third node; every '
                'returned SepPair holds for the returned centres/sizes, with the C18 meaning SepPairModel.holds at tolerance 0); and the '
                'node-padding arithmetic of hola.cpp:75-78/114/196-200/418-438 (inflate by nodePaddingScalar*IEL, deflate in layers 1/4 and '
                '3/4) is the identity on widths and heights over Q for every node role, with the route-end tolerance padding_per_side derived '
                'from the same formula. NOT proved: anything about the ~18 kLOC HOLA pipeline - no model of it exists; whether doHOLA meets '
                'the conditions is decided only on sampled runs (random connected graphs of the named families and option settings + the inputs '
                'of the 11 shipped hola_* tests), each judged by the extracted verified checker on the exact rational values of the dumped doubles.',
        'design_ref': 'DESIGN.md 5.14'},
    'level_note': 'Trusted: Coq kernel; extraction (ExtrOcamlBasic) and extract/c14_driver.ml; harness/c14_hola.cpp (reads Node/Edge/SepMatrix '
                  'state, SepMatrix::m_sparseLookup via #define private public); Python glue (double -> exact Fraction -> hex rationals, case '
                  'generation, known-finding classifiers which never accept a drawing, they only label a rejection). Tolerances: sizes 1e-6, overlap 1e-6, '
                  'axis-parallel 1e-9 (measured library drift 3e-14), route ends padding_per_side + 1e-6, through-node 1e-6, separation 1e-6 '
                  '(satisfied pairs are within 1e-11, violated ones off by > 0.1). The unchanged tree is NOT clean: seven root causes are '
                  'registered in KNOWN_FINDINGS.txt with classifier predicates (tree centre-child alignment, tree rank collision, stale core '
                  'constraints, chain bend unaligned, padded gap lost, and runtime_error / COLA_ASSERT / char* exceptions escaping doHOLA); a rejection '
                  'outside those predicates is a VIOLATION. A source change is visible only through the sampled runs; a broken proof can only come '
                  'from an edit of the Coq files and is then reported with no failing input. Multi-edges, self-loops and disconnected graphs '
                  'are outside the generator domain, as in the property.',
    'technique': 'Coq soundness+completeness proof of an output checker (verified oracle) + proved padding arithmetic; implementation sampled by running doHOLA',
}
