"""C14 - libdialect: HOLA returns a clean orthogonal drawing of the same graph (DESIGN 5.14).
Level `other`.  The HOLA pipeline (~18 kLOC) is NOT modelled.  What is proved (Coq): the oracle `hola_ok` is sound
and complete for the declaratively stated output conditions, and the node-padding arithmetic of hola.cpp is the
identity on sizes over Q and yields the padding tolerance.  What is sampled: the real doHOLA, run on random connected
graphs of the families the property names under the option settings it names, plus the shipped hola_* test inputs;
the extracted, verified `hola_ok` decides every run.  A source change in /repo can therefore only show through the
checker rejecting a real output (a concrete graph is then the replay); a broken proof can only come from an edit
of the Coq files.
Families added with DESIGN 9.15 (seeded C14-5): `whole_tree` - pure trees (caterpillars, stars, binary trees, ...) under every
defaultTreeGrowthDir with non-square node dimension distributions (aspect ratio up to 12) and the options the whole-tree branch reads;
`core_opts` - graphs with a core under the documented HolaOpts the main stream never sets (checks/c14gen.py)."""
import os, re, json, collections, tempfile, time
from fractions import Fraction
from concurrent.futures import ThreadPoolExecutor
from vlib import common as C
from checks import c14gen as G

PID = 'C14'
FLAVOR = 'c14exc'      # assertions as exceptions; a flavour name of its own so that concurrent checks with another
                       # VERIF_REPO do not evict these objects
TOLS = {'size': Fraction(1, 10**6), 'ovl': Fraction(1, 10**6), 'par': Fraction(1, 10**9), 'end': Fraction(1, 10**6),
        'thru': Fraction(1, 10**6), 'sep': Fraction(1, 10**6)}
TOL_ORDER = ['size', 'ovl', 'par', 'end', 'thru', 'sep']
SHIPPED = (['random/v%de%d.tglf' % (10 * i, (10 + d) * i) for d in (0, 1, 2) for i in (1, 2, 3, 4, 5)] +
           ['special/Arpanet19728_input.tglf', 'special/Belnet2004.tglf', 'special/Cernet.tglf', 'special/Claranet.tglf',
            'special/Garr201001.tglf', 'special/Janetlense.tglf', 'special/GtsSlovakia_input.tglf', 'trees/tree02.tglf'])


def hexq(x):
    f = Fraction(x)
    return '%s%x/%x' % ('-' if f < 0 else '', abs(f.numerator), f.denominator)


def fq(s):
    """a "%.17g" token -> the exact rational value of that double"""
    return hexq(Fraction(float(s)))


def parse_dump(out):
    d = {'P': None, 'B': {'N': [], 'E': []}, 'A': {'N': [], 'E': [], 'S': [], 'X': '0', 'B': []}, 'exc': None, 'T': None, 'L': {}, 'CB': [], 'R': []}
    for line in out.split('\n'):
        f = line.split()
        if not f:
            continue
        if f[0] == 'C' and len(f) == 7 and f[1] == 'B':     # --trace only: AestheticBend (edge src, edge tgt, bend, nbr1, nbr2)
            d['CB'].append(tuple(int(x) for x in f[2:7]))
            continue
        if f[0] == 'R':    # --trace only: a peeled tree (root, members)
            d['R'].append((int(f[1]), [int(x) for x in f[2:]]))
            continue
        if f[0] == 'L':      # --trace only: snapshot of a graph of the pipeline (floats: diagnosis only)
            if len(f) < 3:
                d['L'][f[1]] = None
                continue
            st = d['L'].setdefault(f[1], {'N': {}, 'E': [], 'S': {}, 'X': 0.0})
            if st is None:
                continue
            if f[2] == 'N':
                st['N'][int(f[3])] = tuple(float(x) for x in f[4:8])
            elif f[2] == 'E':
                st['E'].append((int(f[3]), int(f[4]), [float(x) for x in f[6:6 + 2 * int(f[5])]]))
            elif f[2] == 'X':
                st['X'] = float(f[3])
            elif f[2] == 'S':
                a, b = int(f[3]), int(f[4])
                st['S'][(min(a, b), max(a, b))] = (a, b) + tuple(int(x) for x in f[5:10]) + (float(f[10]), int(f[11]), float(f[12]))
            elif f[2] in ('PARSEFAIL', 'NAMES_MISMATCH'):
                d['L'][f[1]] = None
            continue
        if f[0] == 'A' and len(f) > 2 and f[1] == 'B':      # --trace only: aesthetic-bend nodes left on an edge of G
            k = int(f[4])
            d['A']['B'].append((int(f[2]), int(f[3]), [(int(f[5 + 3 * i]), float(f[6 + 3 * i]), float(f[7 + 3 * i])) for i in range(k)]))
            continue
        if f[0] == 'EXC':
            d['exc'] = line[4:].strip()
        elif f[0] == 'P':
            d['P'] = (f[1], f[2])
        elif f[0] == 'T':
            d['T'] = float(f[1])
        elif f[0] in ('A', 'B') and len(f) > 2:
            if f[1] == 'N':
                d[f[0]]['N'].append((int(f[2]), f[3], f[4], f[5], f[6]))
            elif f[1] == 'E':
                if f[0] == 'B':
                    d['B']['E'].append((int(f[2]), int(f[3])))
                else:
                    d['A']['E'].append((int(f[2]), int(f[3]), f[5:5 + 2 * int(f[4])]))
            elif f[1] == 'X':
                d['A']['X'] = f[2]
            elif f[1] == 'S':
                d['A']['S'].append((int(f[2]), int(f[3]), int(f[4]), int(f[5]), int(f[6]), int(f[7]), int(f[8]), f[9], int(f[10]), f[11]))
    return d


def driver_input(name, d, tols=TOLS):
    L = ['case ' + name, 'tols ' + ' '.join(hexq(tols[k]) for k in TOL_ORDER), 'scalar ' + fq(d['P'][0])]
    for tag in ('B', 'A'):
        for (i, x, y, w, h) in d[tag]['N']:
            L.append('%s N %d %s %s %s %s' % (tag, i, fq(x), fq(y), fq(w), fq(h)))
    for (s, t) in d['B']['E']:
        L.append('B E %d %d' % (s, t))
    for (s, t, pts) in d['A']['E']:
        L.append('A E %d %d %d %s' % (s, t, len(pts) // 2, ' '.join(fq(p) for p in pts)))
    L.append('A X ' + fq(d['A']['X']))
    for (s, t, xgt, ygt, xst, yst, sx, gx, sy, gy) in d['A']['S']:
        L.append('A S %d %d %d %d %d %d %d %s %d %s' % (s, t, xgt, ygt, xst, yst, sx, fq(gx), sy, fq(gy)))
    L.append('end')
    return '\n'.join(L) + '\n'


def parse_verdict(line):
    v = {'raw': line.strip(), 'E': {}, 'S': [], 'O': []}
    parts = line.strip().split(' | ')
    for kv in parts[0].split()[1:]:
        k, x = kv.split('=')
        v[k] = (x == '1') if k not in ('pad', 'iel') else float(x)
    for p in parts[1:]:
        f = p.split()
        if f[0] == 'E':
            for t in f[1:]:
                i, fl = t.split(':')
                v['E'][int(i)] = fl
        elif f[0] == 'S':
            v['S'] = [int(x) for x in f[1:]]
        elif f[0] == 'O':
            v['O'] = [tuple(int(y) for y in x.split(',')) for x in f[1:]]
    return v


def run_case(exe, drv, case, tmpdir, idx):
    """one doHOLA run + the verified checker on its output"""
    p = os.path.join(tmpdir, 'case%d.txt' % idx)
    with open(p, 'w') as f:
        f.write(G.case_text(case))
    rc, out, err, dt = C.sh([exe, p], timeout=600)
    r = {'rc': rc, 'time': dt, 'stderr': err[-1500:] if rc != 0 else ''}
    if rc != 0:
        r['crash'] = True
        r['dump_head'] = out[:300]
        return r
    d = parse_dump(out)
    r['dump'] = d
    if d['exc'] is not None:
        r['exc'] = d['exc']
        return r
    rc2, vout, verr, dt2 = C.sh([drv], input=driver_input('c%d' % idx, d), timeout=900)
    r['checker_time'] = dt2
    if rc2 != 0 or not vout.strip():
        r['checker_error'] = (verr or vout)[-1500:]
        return r
    r['verdict'] = parse_verdict(vout.strip().split('\n')[-1])
    if not r['verdict']['ok'] and not is_tree(d):
        # a rejected drawing of a graph with a core: get the pipeline's intermediate graphs for the known-finding classifiers
        rc3, tout, terr, dt3 = C.sh([exe, '--trace', p], timeout=600)
        r['trace_time'] = dt3
        if rc3 == 0:
            r['trace'] = parse_dump(tout)
        else:
            r['trace_error'] = 'rc=%d %s' % (rc3, terr[-300:])
    return r


# ----------------------------------------------------------------------------- diagnosis (floats; never decides)
def fbox(n):
    i, x, y, w, h = n
    x, y, w, h = float(x), float(y), float(w), float(h)
    return (x - w / 2, x + w / 2, y - h / 2, y + h / 2)


def sep_violation(d, s):
    """(amount, description) of the violation of one dumped SepPair by the dumped positions, in floats"""
    A = {n[0]: n for n in d['A']['N']}
    (a, b, xgt, ygt, xst, yst, sx, gx, sy, gy) = s
    if a not in A or b not in A:
        return 1e30, 'unknown node'
    X = float(d['A']['X'])
    worst, desc = 0.0, ''
    for (st, gt, sg, g, k, wk, dim) in ((xst, xgt, sx, float(gx), 1, 3, 'x'), (yst, ygt, sy, float(gy), 2, 4, 'y')):
        if st == 0:
            continue
        cs, ct, ws, wt = float(A[a][k]), float(A[b][k]), float(A[a][wk]), float(A[b][wk])
        c1, w1, c2, w2 = (ct, wt, cs, ws) if sg else (cs, ws, ct, wt)
        dist = (c2 - c1) if gt == 0 else (c2 - w2 / 2) - (c1 + w1 / 2)
        need = g if gt == 0 else g + X
        v = abs(dist - need) if st == 1 else max(0.0, need - dist)
        if v > worst:
            worst, desc = v, '%s %s %s gap %s%g: dist %.6g need %.6g' % (dim, 'EQ' if st == 1 else 'INEQ', 'CENTRE' if gt == 0 else 'BDRY',
                                                                        '-' if sg else '+', g, dist, need)
    return worst, desc


def is_tree(d):
    return len(d['B']['E']) == len(d['B']['N']) - 1


def diagnose(case, r):
    """which conjuncts failed and on what, for the replay file and for the known-finding classifiers"""
    d, v = r['dump'], r['verdict']
    A = {n[0]: n for n in d['A']['N']}
    info = {'failed': [k for k in ('nodes', 'edges', 'sizes', 'overlap', 'routes', 'seps') if not v.get(k)],
            'checker': v['raw'], 'whole_graph_is_tree': is_tree(d)}
    if v['E']:
        info['bad_edges'] = []
        for i, fl in sorted(v['E'].items()):
            s, t, pts = d['A']['E'][i]
            info['bad_edges'].append({'edge': [s, t], 'fails': fl, 'route': [float(x) for x in pts],
                                      'src_box': fbox(A[s]) if s in A else None, 'tgt_box': fbox(A[t]) if t in A else None})
    if v['S']:
        info['bad_seps'] = []
        for i in v['S']:
            amt, desc = sep_violation(d, d['A']['S'][i])
            info['bad_seps'].append({'pair': list(d['A']['S'][i][:2]), 'sep': list(d['A']['S'][i][2:]), 'violation': amt, 'what': desc})
    if v['O']:
        info['overlapping'] = [{'nodes': list(p), 'boxes': [fbox(A[p[0]]), fbox(A[p[1]])]} for p in v['O']]
    return info


def two_core(d):
    """ids left after repeatedly removing degree-<=1 nodes (what dialect::peel leaves as the core)"""
    adj = collections.defaultdict(set)
    for a, b in d['B']['E']:
        adj[a].add(b)
        adj[b].add(a)
    alive = set(n[0] for n in d['B']['N'])
    changed = True
    while changed:
        changed = False
        for v in list(alive):
            if len(adj[v] & alive) <= 1:
                alive.discard(v)
                changed = True
    return alive


# ------------------------------------------------------------------------- known-finding classifiers (floats; label only)
# A classifier is a predicate on ONE rejected drawing that says "this rejection is produced by the mechanism of the
# registered finding".  It is evaluated on the input (graph + options), on the judged drawing, and - for graphs with
# a core - on the library's own intermediate results (core graph, planarised graph P, chains, peeled trees) obtained
# from `c14_hola --trace` (harness/c14_hola.cpp: a verbatim copy of doHOLA that snapshots those graphs).  The traced
# run must reproduce the judged drawing, otherwise nothing about the judged drawing is explained by it and the
# rejection stays a VIOLATION.  Every way out of a classifier returns a reason that is stored in the replay file.
SAME_TOL = 1e-9
# fingerprint -> (denominator: drawings of whole-graph trees / of graphs with a core / of graphs with a core in chain mode,
#                 3 x the largest hits/denominator seen on the unchanged tree over the calibration seeds, absolute slack)
RATE_LIMITS = {     # calibration: VERIF_SEED 1..12 quick, 1..3 thorough on the unchanged tree; per tier (limit, largest rate seen)
    'tree_centre_child_alignment': ('tree', {'quick': 0.55, 'thorough': 0.70}, 0),       # 0.359 / 0.458: more than a third of all trees, so 1.5 x, not 3 x
    'tree_rank_collision': ('tree', {'quick': 0.075, 'thorough': 0.075}, 3),             # 0.024 / 0.024
    'stale_core_constraint': ('core', {'quick': 0.12, 'thorough': 0.30}, 3),             # 0.039 / 0.100 (larger graphs in the thorough tier)
    'chain_bend_unaligned': ('chain', {'quick': 0.035, 'thorough': 0.035}, 3),           # 0.011 / 0.009
    'padded_gap_lost': ('core', {'quick': 0.018, 'thorough': 0.018}, 3),                 # 0.006 / 0.003
    'large_graph_overlap': ('core', {'quick': 0.0045, 'thorough': 0.0045}, 3),           # 0.0015 / 0.0007
}
# the whole_tree family (non-square nodes up to aspect 12, every growth direction) has rates of its own: a tall node in a rank of a N/S tree
# or a wide one in an E/W tree is a rank collision by construction.  Calibration as above (VERIF_SEED 1..12 quick, 1..3 thorough).
RATE_LIMITS_WTREE = {
    'tree_centre_child_alignment': ('wtree', {'quick': 0.30, 'thorough': 0.30}, 3),        # 0.179 (seeds 1..12 quick): 1.5 x + slack, as for the main stream
    'tree_rank_collision': ('wtree', {'quick': 0.42, 'thorough': 0.42}, 3),                # 0.263
}
GROWTH = {0: (1, 1.0), 1: (2, 1.0), 2: (1, -1.0), 3: (2, -1.0)}     # HolaOpts::defaultTreeGrowthDir as the harness numbers it -> (index into an A N tuple, sign)
GENERIC_ASSERT_SITES = {'exception:assert:faces.cpp:u_!=_nullptr'}     # sites named in the text of the catch-all line `exception:assert`
# exception fingerprints that are known only under a predicate on the input (anything else with that fingerprint is a VIOLATION)
EXC_PREDICATES = {
    # hola.cpp:421 core->padAllNodes(-nodePaddingLayer1) also shrinks the Chains' aesthetic-bend nodes (size IEL/8, never padded) by
    # nodePaddingScalar*IEL/4: non-positive size from nodePaddingScalar >= 0.5 on, and only with the chain configuration
    'exception:assert:orthogonal.cpp:begin_<_finish': lambda case: (case.get('opts', {}).get('useACAforLinks', 1) == 0 and
                                                                      float(case.get('opts', {}).get('nodePaddingScalar', 0.25)) >= 0.5),
}
CLUSTER_DESTRESS = ('P_nbr_destress', 'P_near_alignments')          # P->destress(colaOpts) with node clusters, hola.cpp:289 / :301


def pkey(a, b):
    return (min(a, b), max(a, b))


def drawing_diff(dA, dB):
    """largest absolute difference between two dumps of the returned drawing (positions, sizes, route points, gaps); inf
    when they differ in structure"""
    inf = float('inf')
    A = {n[0]: n for n in dA['A']['N']}
    B = {n[0]: n for n in dB['A']['N']}
    if set(A) != set(B) or len(dA['A']['E']) != len(dB['A']['E']) or len(dA['A']['S']) != len(dB['A']['S']):
        return inf
    m = 0.0
    for k in A:
        for j in range(1, 5):
            m = max(m, abs(float(A[k][j]) - float(B[k][j])))
    for a, b in zip(dA['A']['E'], dB['A']['E']):
        if a[:2] != b[:2] or len(a[2]) != len(b[2]):
            return inf
        for x, y in zip(a[2], b[2]):
            m = max(m, abs(float(x) - float(y)))
    for a, b in zip(dA['A']['S'], dB['A']['S']):
        if a[:7] != b[:7] or a[8] != b[8]:
            return inf
        m = max(m, abs(float(a[7]) - float(b[7])), abs(float(a[9]) - float(b[9])))
    return m


def first_difference(dA, dB, first_edges=()):
    A = {n[0]: n for n in dA['A']['N']}
    B = {n[0]: n for n in dB['A']['N']}
    EB = {(e[0], e[1]): e[2] for e in dB['A']['E']}
    for k in sorted(A):
        if k not in B or any(abs(float(A[k][j]) - float(B[k][j])) > SAME_TOL for j in range(1, 5)):
            return 'node %d: judged %s, reference %s' % (k, [float(x) for x in A[k][1:]], [float(x) for x in B[k][1:]] if k in B else None)
    for (a, b, pts) in sorted(dA['A']['E'], key=lambda e: 0 if (e[0], e[1]) in first_edges else 1):     # the rejected routes first
        q = EB.get((a, b))
        if q is None or len(q) != len(pts) or any(abs(float(x) - float(y)) > SAME_TOL for x, y in zip(pts, q)):
            return 'route %d-%d: judged %s, reference %s' % (a, b, [float(x) for x in pts], [float(x) for x in q] if q else None)
    return 'returned constraints differ'


def pierced_nodes(d, s, t, rt):
    """[(segment index, node id)]: nodes other than the ends whose open box meets a segment of the route"""
    out = []
    for n in d['A']['N']:
        if n[0] in (s, t):
            continue
        b = fbox(n)
        for i in range(0, len(rt) - 2, 2):
            x0, x1 = sorted((rt[i], rt[i + 2]))
            y0, y1 = sorted((rt[i + 1], rt[i + 3]))
            if min(x1 - b[0], b[1] - x0, y1 - b[2], b[3] - y0) > 1e-6:
                out.append((i // 2, n[0]))
    return out


def diagonal_segments(rt):
    return [i // 2 for i in range(0, len(rt) - 2, 2) if abs(rt[i] - rt[i + 2]) > 1e-9 and abs(rt[i + 1] - rt[i + 3]) > 1e-9]


def tree_ranks(case, d, iel):
    """rank of every node of a whole-graph tree, read off the returned positions: Tree::symmetricLayout puts rank k
    exactly k*rankSep (= k*IEL, treeLayoutScalar_rankSep = 1) from the root along the growth axis.  Returns
    (rank dict, parent dict, children dict, axis index, transverse index) or None when the drawing is not ranked so."""
    k, sg = GROWTH[int(case.get('opts', {}).get('defaultTreeGrowthDir', 1)) & 3]
    iel = iel * float(case.get('opts', {}).get('treeLayoutScalar_rankSep', 1.0))        # the rank pitch rankSep = treeLayoutScalar_rankSep*IEL
    A = {n[0]: n for n in d['A']['N']}
    g = {i: sg * float(A[i][k]) for i in A}
    g0 = min(g.values())
    rank = {}
    for i in A:
        q = (g[i] - g0) / iel
        if abs(q - round(q)) > 1e-6:
            return None
        rank[i] = int(round(q))
    adj = collections.defaultdict(set)
    for a, b in d['B']['E']:
        adj[a].add(b)
        adj[b].add(a)
    parent, children = {}, collections.defaultdict(list)
    for i in A:
        up = [j for j in adj[i] if rank[j] == rank[i] - 1]
        if len(up) + len([j for j in adj[i] if rank[j] == rank[i] + 1]) != len(adj[i]) or len(up) != (0 if rank[i] == 0 else 1):
            return None
        if up:
            parent[i] = up[0]
            children[up[0]].append(i)
    if sum(1 for i in A if rank[i] == 0) != 1:
        return None
    return rank, parent, children, k, 3 - k


def canon(v, children):
    """canonical form of the rooted subtree at v (rooted-tree isomorphism, what Tree::computeIsomString decides)"""
    return '(' + ''.join(sorted(canon(c, children) for c in children.get(v, []))) + ')'


def classify_tree(case, r, info):
    d, v = r['dump'], r['verdict']
    iel, pad = v['iel'], v['pad']
    tr = tree_ranks(case, d, iel)
    if tr is None:
        return None, 'the returned positions are not in ranks k*rankSep (treeLayoutScalar_rankSep*IEL) along the growth axis'
    rank, parent, children, ax, tv = tr
    A = {n[0]: n for n in d['A']['N']}
    fps = set()

    def padded_overlap(a, b):
        ba, bb = fbox(A[a]), fbox(A[b])
        return min(ba[1], bb[1]) - max(ba[0], bb[0]) + 2 * pad > 1e-9 and min(ba[3], bb[3]) - max(ba[2], bb[2]) + 2 * pad > 1e-9

    # symmetricLayout lays out the PADDED nodes and keeps nodeSep between neighbouring subtrees of a rank: two nodes of the same rank whose
    # padded boxes overlap are not produced by the mechanism of either tree finding (both leave the spacing inside a rank alone), and they
    # make every other symptom of the drawing (routes through nodes, libavoid's straight fallback) ambiguous: nothing is absorbed then
    by_rank = collections.defaultdict(list)
    for i in A:
        by_rank[rank[i]].append(i)
    for rk, members in sorted(by_rank.items()):
        for x in range(len(members)):
            for y in range(x + 1, len(members)):
                if padded_overlap(members[x], members[y]):
                    return None, ('nodes %d and %d of the same rank %d are closer than the node padding allows (their padded boxes overlap); symmetricLayout '
                                  'separates the padded subtrees of a rank by nodeSep' % (members[x], members[y], rk))
    def channel_blocked(s, t):
        if abs(rank[s] - rank[t]) != 1:
            return False
        lo, hi = sorted((float(A[s][tv]), float(A[t][tv])))
        for q in A:
            if q in (s, t) or rank[q] not in (rank[s], rank[t]):
                continue
            e = t if rank[q] == rank[s] else s                  # the end node in the OTHER rank
            gq, ge = float(A[q][ax]), float(A[e][ax])
            reach = (float(A[q][ax + 2]) + float(A[e][ax + 2])) / 2 + 2 * pad - abs(gq - ge)      # > 0: padded extents overlap along the growth axis
            tq, wq = float(A[q][tv]), float(A[q][tv + 2]) / 2 + pad
            if reach > 1e-9 and tq + wq > lo + 1e-9 and tq - wq < hi - 1e-9:
                return True
        return False

    for bs in info.get('bad_seps', []):
        a, b = bs['pair']
        dim, st, gt = bs['what'].split()[0:3]
        zero_gap = 'gap +0:' in bs['what'].replace('gap -0:', 'gap +0:')
        if (st, gt) == ('EQ', 'CENTRE'):
            # Tree::addConstraints aligns a node that has an odd number of children with its median child (by transverse
            # coordinate); symmetricLayout puts a c-tree under the parent only when exactly ONE isomorphism class of
            # c-trees has odd order.  Genuine: the parent's c-trees have >= 2 (hence >= 3) odd-order classes.
            if not zero_gap or dim != 'xy'[tv - 1]:
                return None, 'violated alignment %s is not a transverse centre alignment with gap 0' % bs['what']
            u, c = (a, b) if parent.get(b) == a else (b, a) if parent.get(a) == b else (None, None)
            if u is None:
                return None, 'violated alignment %d-%d does not join a parent and its child' % (a, b)
            ch = sorted(children[u], key=lambda q: float(A[q][tv]))
            if len(ch) % 2 == 0 or ch[(len(ch) - 1) // 2] != c:
                return None, 'violated alignment %d-%d: %d is not the median child of an odd number of children' % (a, b, c)
            cls = collections.Counter(canon(q, children) for q in ch)
            if sum(1 for n in cls.values() if n % 2 == 1) < 2:
                return None, 'violated alignment %d-%d: exactly one isomorphism class of c-trees has odd order, so the median child should be under its parent' % (a, b)
            fps.add('tree_centre_child_alignment')
        elif (st, gt) == ('INEQ', 'BDRY'):
            # rank separation (tallest nodes of neighbouring ranks, gap 0 between boundaries along the growth axis): ranks are
            # exactly IEL apart between centres whatever the node extents
            if dim != 'xy'[ax - 1] or abs(rank[a] - rank[b]) != 1:
                return None, 'violated boundary separation %s is not a separation of neighbouring ranks along the growth axis' % bs['what']
            if (float(A[a][ax + 2]) + float(A[b][ax + 2])) / 2 <= iel * float(case.get('opts', {}).get('treeLayoutScalar_rankSep', 1.0)):
                return None, 'violated rank separation %d-%d although the half extents fit into rankSep' % (a, b)
            fps.add('tree_rank_collision')
        else:
            return None, 'violated constraint %s is neither a centre alignment nor a rank separation' % bs['what']
    for ov in info.get('overlapping', []):
        a, b = ov['nodes']
        if rank[a] == rank[b]:
            return None, 'nodes %d and %d of the same rank overlap' % (a, b)
        fps.add('tree_rank_collision')
    for be in info.get('bad_edges', []):
        s, t = be['edge']
        if not set(be['fails']) <= set('pt') or s not in A or t not in A:
            return None, 'route %d-%d fails %s' % (s, t, be['fails'])
        # the tree is routed with the padded nodes as obstacles: a collision of padded boxes of different ranks either glues
        # the two end nodes together (no orthogonal route, libavoid returns the straight line) or puts a foreign node into
        # the channel of this edge
        rt = be['route']
        end_collides = padded_overlap(s, t) or any(rank[q] != rank[e] and padded_overlap(q, e) for e in (s, t) for q in A if q not in (s, t))
        if len(rt) == 4 and diagonal_segments(rt):
            # libavoid's fallback, the straight line between the end points: it found no orthogonal route because the padded
            # box of an end node collides with a padded box of another rank (what the line then crosses is incidental), or
            # (:channel_blocked) because a THIRD node of one of the two ranks is so long along the growth axis that its padded box
            # reaches the level of the edge's end node in the other rank, and it stands transversely between the two end nodes:
            # the channel between the two ranks, through which the connector must run, is closed
            if not end_collides and not channel_blocked(s, t):
                return None, ('route %d-%d is a straight diagonal but no padded box of another rank collides with its end nodes and no node of the two '
                              'ranks closes the channel between them' % (s, t))
        else:
            if be['fails'] != 't':
                return None, 'route %d-%d fails %s and is not the 2-point fallback' % (s, t, be['fails'])
            for (_, q) in pierced_nodes(d, s, t, rt):
                if not any(rank[q] != rank[e] and padded_overlap(q, e) for e in (s, t)):
                    return None, 'route %d-%d runs through node %d whose padded box does not collide with an end node of another rank' % (s, t, q)
        fps.add('tree_rank_collision')
    return (sorted(fps), None) if fps else (None, 'nothing classified')


def stage_suffix(name):
    return name[3:] if re.match(r'\d\d_', name) else name


def first_overlap_stage(t, a, b):
    """(suffix of the first snapshot of P in which the boxes of a and b overlap, do they stay overlapping until the end,
    suffix of the snapshot before, offset b - a in that snapshot before, offset b - a in the first overlapping one)"""
    seq = []
    for name, st in t['L'].items():
        sfx = stage_suffix(name)
        if st is None or not (sfx.startswith('P_') or sfx == 'planar_graph_P'):
            continue
        if a in st['N'] and b in st['N']:
            na, nb = st['N'][a], st['N'][b]
            ox = min(na[0] + na[2] / 2, nb[0] + nb[2] / 2) - max(na[0] - na[2] / 2, nb[0] - nb[2] / 2)
            oy = min(na[1] + na[3] / 2, nb[1] + nb[3] / 2) - max(na[1] - na[3] / 2, nb[1] - nb[3] / 2)
            seq.append((sfx, ox > 1e-9 and oy > 1e-9, (nb[0] - na[0], nb[1] - na[1])))
    for i, (sfx, o, off) in enumerate(seq):
        if o:
            return sfx, all(x[1] for x in seq[i:]), (seq[i - 1][0] if i else None), (seq[i - 1][2] if i else None), off
    return None, False, None, None, None


def is_turn_image(d0, d1):
    """d1 is d0 turned by 0, 90, 180 or 270 degrees, i.e. nothing but Graph::rotate90 / rotate180 moved the two nodes"""
    return any(abs(d1[0] - x) <= 1e-9 and abs(d1[1] - y) <= 1e-9
               for (x, y) in ((d0[0], d0[1]), (-d0[1], d0[0]), (-d0[0], -d0[1]), (d0[1], -d0[0])))


def classify_core(case, r, info):
    d, v = r['dump'], r['verdict']
    opts = case.get('opts', {})
    failed = set(info['failed'])
    t = r.get('trace')
    if t is None or t.get('exc') is not None:
        return None, 'no trace: c14_hola --trace did not return a drawing (%s)' % (r.get('trace_error') or (t or {}).get('exc'))
    diff = drawing_diff(d, t)
    info['trace_reproduces_drawing_within'] = diff
    if not diff <= SAME_TOL:
        return None, ('the reference pipeline (harness copy of doHOLA, hola.cpp:59-439) does not reproduce the judged drawing (max difference %g; '
                      '%s): the mechanism of no known finding can be established for it'
                      % (diff, first_difference(d, t, set(tuple(be['edge']) for be in info.get('bad_edges', [])))))
    Pf, Cf = t['L'].get('P_final'), t['L'].get('core_final')
    if not Pf or not Cf:
        return None, 'trace has no snapshot of P / core'
    A = {n[0]: n for n in d['A']['N']}
    pad = v['pad']
    fps = set()

    def dropped(a, b):      # a constraint the core carries and the planarised graph does not
        return pkey(a, b) in Cf['S'] and pkey(a, b) not in Pf['S']

    # --- seps: stale_core_constraint
    for bs in info.get('bad_seps', []):
        a, b = bs['pair']
        k = pkey(a, b)
        if k in Pf['S']:
            return None, 'violated constraint %d-%d (%s) is carried by the planarised graph P, whose layout produced the positions' % (a, b, bs['what'])
        if k not in Cf['S']:
            return None, 'violated constraint %d-%d (%s) is not a constraint of the core graph' % (a, b, bs['what'])
        ret = [x for x in d['A']['S'] if pkey(x[0], x[1]) == k][0]
        if tuple(Cf['S'][k][2:7]) != tuple(ret[2:7]):
            return None, 'violated constraint %d-%d (%s) differs from the one the core graph carries' % (a, b, bs['what'])
        fps.add('stale_core_constraint')

    # --- the peeled trees: cluster members are the non-root nodes
    cluster_of = {}
    for ti, (root, members) in enumerate(t.get('R', [])):
        for m in members:
            if m != root:
                cluster_of[m] = ti

    def cluster_overlap(a, b):
        """the boxes of a and b in P are disjoint until one of the destress runs WITH node clusters (hola.cpp:289, :301, or the one
        inside Graph::rotate90 called from :333/:340), overlap after it and stay so; one of the two is a cluster member and the
        other is not in that cluster"""
        sfx, stays, before, off0, off1 = first_overlap_stage(t, a, b)
        if sfx is None:
            return 'the boxes of %d and %d never overlap in P' % (a, b)
        if sfx == 'P_rotation':
            # Graph::rotate90 turns the centres and then runs the same destress with node clusters (graphs.cpp:741-744); it is that
            # destress only if it moved the two nodes: an overlap that the bare quarter turn of non-square nodes leaves behind is not
            if off0 is None or is_turn_image(off0, off1):
                return ('the boxes of %d and %d first overlap in P at stage P_rotation and their offset is the bare turn of the offset before '
                        '(no destress moved them)' % (a, b))
        elif sfx not in CLUSTER_DESTRESS:
            return 'the boxes of %d and %d first overlap in P at stage %s (after %s)' % (a, b, sfx, before)
        if not stays:
            return 'the boxes of %d and %d overlap in P at stage %s but not in every later snapshot' % (a, b, sfx)
        if cluster_of.get(a) is None and cluster_of.get(b) is None:
            return 'neither %d nor %d is a non-root node of a peeled tree' % (a, b)
        if cluster_of.get(a) == cluster_of.get(b):
            return '%d and %d belong to the same tree cluster' % (a, b)
        return None

    big = False
    ov_nodes = set()
    for ov in info.get('overlapping', []):
        a, b = ov['nodes']
        why = cluster_overlap(a, b)
        if why:
            return None, 'overlap: ' + why
        ba, bb = ov['boxes']
        isbig = min(min(ba[1], bb[1]) - max(ba[0], bb[0]), min(ba[3], bb[3]) - max(ba[2], bb[2])) >= 2 * pad
        big = big or isbig
        ov_nodes |= {a, b}
        fps.add('large_graph_overlap' if isbig else 'padded_gap_lost')

    # --- routes
    bends = collections.defaultdict(list)
    for (es, et, bn, n1, n2) in t.get('CB', []):
        bends[pkey(es, et)].append(bn)
    for be in info.get('bad_edges', []):
        s, tt = be['edge']
        rt = be['route']
        if s not in A or tt not in A or len(rt) < 4 or not set(be['fails']) <= set('pt'):
            return None, 'route %d-%d fails %s' % (s, tt, be['fails'])
        pier = pierced_nodes(d, s, tt, rt)
        bn = bends.get(pkey(s, tt))
        if bn:
            # an edge the Chains gave an aesthetic bend: Graph::buildRoutes made centre -> bend node -> centre
            if opts.get('useACAforLinks', 1) != 0 or len(bn) != 1 or len(rt) != 6:
                return None, 'route %d-%d has %d aesthetic bends and %d points' % (s, tt, len(bn), len(rt) // 2)
            b = bn[0]
            cs, ct = (float(A[s][1]), float(A[s][2])), (float(A[tt][1]), float(A[tt][2]))
            if max(abs(rt[0] - cs[0]), abs(rt[1] - cs[1]), abs(rt[4] - ct[0]), abs(rt[5] - ct[1])) > SAME_TOL:
                return None, 'route %d-%d with an aesthetic bend does not start and end at the centres' % (s, tt)
            if b not in Pf['N'] or max(abs(rt[2] - Pf['N'][b][0]), abs(rt[3] - Pf['N'][b][1])) > SAME_TOL:
                return None, ('the bend point (%g, %g) of route %d-%d is not the final position %s of its bend node in P (stale bend point)'
                              % (rt[2], rt[3], s, tt, Pf['N'].get(b, (None, None))[:2]))
            bad_segs = set(diagonal_segments(rt)) | set(i for i, _ in pier)
            for i in bad_segs:
                n = s if i == 0 else tt
                if not dropped(n, b):
                    return None, ('segment %d of route %d-%d is defective although P carries the alignment of node %d with the bend node'
                                  % (i, s, tt, n))
            fps.add('chain_bend_unaligned')
            continue
        if s in ov_nodes or tt in ov_nodes:
            continue        # a connector of a node that overlaps another node (classified above): no clean route exists
        if len(rt) == 4 and diagonal_segments(rt) and set(be['fails']) <= set('pt'):
            # :diagonal_fallback - libavoid's straight 2-point fallback: it found no orthogonal route because the box of an end node, inflated by
            # the padding still on the nodes at the final routing (3/4 of the node padding, hola.cpp:418-430), collides with the box of another node,
            # and the trace establishes the registered mechanism for that pair (first overlap of the padded boxes in P at a destress with node
            # clusters, kept to the end, one a cluster member and the other outside that cluster).  The unpadded boxes need not overlap.
            def final_padded_overlap(a, b):
                ba, bb, g = fbox(A[a]), fbox(A[b]), 1.5 * pad
                return min(ba[1], bb[1]) - max(ba[0], bb[0]) + g > 1e-9 and min(ba[3], bb[3]) - max(ba[2], bb[2]) + g > 1e-9
            hit, whys = None, []
            for e in (s, tt):
                for q in sorted(A):
                    if q in (s, tt) or not final_padded_overlap(q, e):
                        continue
                    why = cluster_overlap(q, e)
                    if why is None:
                        hit = (q, e)
                        break
                    whys.append(why)
                if hit:
                    break
            if hit is None:
                return None, ('route %d-%d is libavoid\'s straight 2-point fallback but no node whose padded box collides with an end node got there by a '
                              'destress with node clusters (%s)' % (s, tt, '; '.join(whys[:3]) or 'no padded box collides with an end node'))
            info.setdefault('diagonal_fallback_pairs', []).append({'edge': [s, tt], 'collides': list(hit)})
            fps.add('padded_gap_lost')
            continue
        if be['fails'] != 't' or not pier:
            return None, 'route %d-%d fails %s without an aesthetic bend and without overlapping end node' % (s, tt, be['fails'])
        for (_, q) in pier:
            whys = [cluster_overlap(q, e) for e in (s, tt)]
            if all(whys):
                return None, 'route %d-%d through node %d: %s' % (s, tt, q, '; '.join(whys))
        fps.add('padded_gap_lost')
    return (sorted(fps), None) if fps else (None, 'nothing classified')


def classify(case, r, info):
    """(fingerprints, None) when every failing item of the rejected drawing satisfies the predicate of a registered known
    finding (KNOWN_FINDINGS.txt), else (None, reason).  Only `overlap`, `routes` and `seps` rejections can be known."""
    failed = set(info['failed'])
    if not failed or not failed <= {'overlap', 'routes', 'seps'}:
        return None, 'conditions %s fail' % sorted(failed)
    if info['whole_graph_is_tree']:
        return classify_tree(case, r, info)
    return classify_core(case, r, info)


def trace_copy_in_sync():
    """is traceHOLA in harness/c14_hola.cpp still the text of doHOLA in the tree under test (apart from the `log` lambda)?
    Informational (coverage.trace_copy_in_sync): when hola.cpp is edited the copy keeps describing the OLD pipeline, rejected
    drawings it does not reproduce are then reported as VIOLATIONs, never absorbed."""
    try:
        src = open(os.path.join(C.COLA, 'libdialect', 'hola.cpp')).read()
        har = open(os.path.join(C.VERIF, 'harness', 'c14_hola.cpp')).read()
        a = src.index('void dialect::doHOLA(Graph &G, const HolaOpts &holaOpts, Logger *logger) {')
        body = src[a:].split('\n')[1:]
        h = har[har.index('static void traceHOLA('):har.index('// ---- end of the copied statements')].split('\n')[1:]
        body = [l for l in body[:len(h) + 2] if 'logger->log(H, name)' not in l]
        h = [l for l in h if 'snap(H, name.c_str())' not in l]
        n = min(len(h), len(body)) - 1
        return h[:n] == body[:n]
    except Exception:
        return False


def exc_fingerprint(msg):
    a = re.search(r'expression: (.*?)\s+at line (\d+) of (\S+)', msg)
    if a:   # failed COLA_ASSERT
        return 'exception:assert:%s:%s' % (os.path.basename(a.group(3)), a.group(1).strip().replace(' ', '_')[:50])
    m = re.sub(r'\d+', 'N', msg).strip()
    m = re.sub(r'[^A-Za-z]+', '_', m).strip('_').lower()
    return 'exception:' + m[:60]


# ----------------------------------------------------------------------------------------------- case lists
def shipped_cases(tier):
    base = os.path.join(C.COLA, 'libdialect', 'tests', 'graphs')
    out = []
    for rel in SHIPPED:
        p = os.path.join(base, rel)
        if os.path.exists(p):
            out.append({'family': 'shipped', 'name': rel, 'tglf': open(p).read(), 'opts': {}})
    return out


def corpus_cases():
    out = []
    p = os.path.join(C.VERIF, 'corpus', 'c14_cases.json')
    if os.path.exists(p):
        for c in json.load(open(p)):
            c = dict(c)
            c['family'] = 'corpus:' + c.get('family', '?')
            out.append(c)
    return out


def random_cases(rng, n, maxn):
    fams = G.FAMILIES[:5]
    out = []
    for i in range(n):
        out.append(G.gen_case(rng.fork(), fams[i % len(fams)], maxn))
    return out


# ------------------------------------------------------------------------------------------------------ run
def replay_obj(case, r, info, exe):
    d = r.get('dump')
    obj = {'what': 'the verified checker hola_ok rejects the real output of dialect::doHOLA on this graph',
           'family': case.get('family'), 'options': case.get('opts'),
           'graph': {'nodes_id_cx_cy_w_h': case.get('nodes'), 'edges': case.get('edges')} if 'nodes' in case else {'tglf_file': case.get('name')},
           'harness_input': G.case_text(case),
           'diagnosis': info,
           'replay': 'save harness_input to a file f; %s f  dumps before/after; ./check C14 --replay <this file> re-runs harness + checker' % exe}
    if d:
        obj['after'] = {'nodes_id_cx_cy_w_h': [[n[0]] + [float(x) for x in n[1:]] for n in d['A']['N']],
                        'n_edges': len(d['A']['E']), 'n_seps': len(d['A']['S']), 'extraBdryGap': float(d['A']['X'])}
    return obj


def compass_spec(x0, y0, x1, y1):
    """the declarative statements of C14_cardinalDirection_spec / C14_compassDirection_spec, on exact rationals"""
    dx, dy = Fraction(x1) - Fraction(x0), Fraction(y1) - Fraction(y0)
    card = (0 if dx > 0 else 2) if abs(dy) <= abs(dx) else (1 if dy > 0 else 3)
    if dx == 0 and dy == 0:
        comp = -1                       # contract: std::runtime_error (not translated, see Dialect/Compass.v)
    elif dx == 0:
        comp = 1 if dy > 0 else 3
    elif dy == 0:
        comp = 0 if dx > 0 else 2
    elif dx > 0:
        comp = 4 if dy > 0 else 7
    else:
        comp = 5 if dy > 0 else 6
    return card, comp


def compass_sweep(res, tier):
    """search for a failing input of the Compass theorems: the compiled Compass::cardinalDirection / compassDirection on a
    lattice of point pairs (3 base points x 3 scales x {-R..R}^2 offsets) against the theorem statements"""
    try:
        exe = C.build_harness('c14_compass', C.LIBS, 'plain')
    except RuntimeError as e:
        res.violation({'what': 'the Compass harness does not build from the working tree', 'error': str(e)[-2000:]}, no_input=True)
        return 1
    R = 4 if tier == 'quick' else 12
    rc, out, err, dt = C.sh([exe, str(R)], timeout=300)
    n = bad = 0
    anti = 0
    table = {}
    for ln in out.split('\n'):
        f = ln.split()
        if len(f) != 6:
            continue
        try:
            x0, y0, x1, y1 = (float(v) for v in f[:4])
            card, comp = int(f[4]), int(f[5])
        except ValueError:
            continue
        n += 1
        table[(x0, y0, x1, y1)] = (card, comp)
        want = compass_spec(x0, y0, x1, y1)
        if (card, comp) != want and bad < 3:
            bad += 1
            res.violation({'what': 'Compass::cardinalDirection / compassDirection of the compiled library differs from the statement of '
                                   'C14_cardinalDirection_spec / C14_compassDirection_spec (Dialect/Compass.v)',
                           'p0': [x0, y0], 'p1': [x1, y1], 'implementation_card_comp': [card, comp], 'theorem_card_comp': list(want),
                           'replay': '%s %d | grep "^%s %s %s %s "' % (exe, R, f[0], f[1], f[2], f[3])})
    # the direction predicates (exhaustive: 8 compass directions, 4 x 4 cardinal pairs) against the statements of
    # C14_card_predicates_algebra / C14_compass_predicates_on_cardinals / _on_diagonals (EAST 0, SOUTH 1, WEST 2, NORTH 3)
    npred = 0
    for ln in out.split('\n'):
        f = ln.split()
        try:
            if f[:1] == ['PRED'] and len(f) == 10:
                d = int(f[1])
                got = [int(v) for v in f[2:]]
                base = [int(d in (3, 1)), int(d in (0, 2)), int(d in (0, 1)), int(d in (3, 2))]
                want = base + (base if d < 4 else [-1] * 4)
            elif f[:1] == ['VSIGN'] and len(f) == 4:
                d = int(f[1])
                got = [float(f[2]), float(f[3])]
                want = list({0: (1, 0), 4: (1, 1), 1: (0, 1), 5: (-1, 1), 2: (-1, 0), 6: (-1, -1), 3: (0, -1), 7: (1, -1)}[d])
            elif f[:1] == ['PAIR'] and len(f) == 5:
                a, b = int(f[1]), int(f[2])
                got = [int(f[3]), int(f[4])]
                want = [int(a % 2 == b % 2), int(a % 2 != b % 2)]
            else:
                continue
        except ValueError:
            continue
        npred += 1
        if got != want and bad < 3:
            bad += 1
            res.violation({'what': 'a Compass direction predicate of the compiled library (ortho.h) differs from the statements of '
                                   'C14_card_predicates_algebra / C14_compass_predicates_on_cardinals / _on_diagonals',
                           'harness_line': ln, 'expected_fields': want, 'replay': '%s %d | grep "^%s"' % (exe, R, ' '.join(f[:3]))})
    if npred != 32:
        res.violation({'what': 'the Compass harness printed %d predicate lines instead of 32' % npred, 'stderr': err[-1500:]}, no_input=True)
        bad += 1
    if rc != 0 or n != 9 * (2 * R + 1) ** 2:
        res.violation({'what': 'the Compass harness did not print the expected %d lines (rc=%s)' % (9 * (2 * R + 1) ** 2, rc),
                       'stderr': err[-1500:]}, no_input=True)
        bad += 1
    res.cov['compass_sweep'] = {'predicate_lines': npred, 'pairs': n, 'mismatches': bad, 'R': R, 'bases': 3, 'scales': [1, 0.125, 1024],
                                'coincident_pairs_expect_runtime_error': 9}
    return bad


def run(tier):
    res = C.Result(PID, tier, 'other')
    info = C.prove(res, PID, gen_modules=['Compass'])
    compass_bad = compass_sweep(res, tier)
    res.assumptions = ['no model of the HOLA pipeline: the theorems are about the oracle hola_ok and the padding arithmetic only; the implementation is sampled',
                       'the dumped doubles are converted to exact rationals (Fraction(float)) and decided exactly by the extracted checker with the tolerances listed under coverage.tolerances',
                       'generator domain: connected simple graphs (no self-loops, no multi-edges), positive node sizes, pairwise distinct start positions in the main stream']
    t0 = time.time()
    try:
        exe = C.build_harness('c14_hola', C.LIBS, FLAVOR)
    except RuntimeError as e:
        res.violation({'what': 'the libraries / harness do not build from the working tree', 'error': str(e)[-3000:]}, no_input=True)
        return res.finish()
    try:
        drv = C.ocaml_build('c14', 'C14.v', 'c14_driver.ml', 'c14_model.ml')
    except RuntimeError as e:
        res.violation({'what': 'the Coq definitions of the oracle (HolaCheckModel.v / HolaPadding.v) no longer compile or extract; '
                               'nothing can be decided', 'error': str(e)[-3000:], 'broken_lemmas': info.get('broken_lemmas')}, no_input=True)
        return res.finish()
    build_s = time.time() - t0
    rng = C.SplitMix64(res.seed)
    n_random, maxn, n_degen = (1000, 40, 60) if tier == "quick" else (2000, 80, 150)
    cases = corpus_cases() + shipped_cases(tier) + random_cases(rng, n_random, maxn)
    # graphs without edges (the smallest connected graph is a single node): doHOLA returns at once and must hand back every node with its
    # original size and position (seeded change C14-8 left the layout padding on them)
    lrng = rng.fork()
    for _ in range(6 if tier == 'quick' else 40):
        cases.append({'family': 'lone_node', 'nodes': [[lrng.below(50), lrng.range(-300, 300), lrng.range(-300, 300), lrng.range(5, 200), lrng.range(5, 200)]],
                      'edges': [], 'opts': G.gen_opts(lrng) if lrng.chance(1, 2) else {'nodePaddingScalar': lrng.choice([0.1, 0.25, 0.5, 1.0])}})
    cases.sort(key=lambda c: 0 if c['family'].startswith('corpus:seeded_demo') else 1)      # stable: the demo inputs of stored seeded changes first
    degen = [G.gen_case(rng.fork(), 'degenerate_start', min(maxn, 30)) for _ in range(n_degen)]
    cases += degen
    # whole-graph trees under every growth direction with non-square nodes (own stream: the cases above are unchanged by it)
    trng = C.SplitMix64(res.seed ^ 0xC14735)
    n_wtree_cases = 224 if tier == 'quick' else 896
    cases += [G.gen_tree_case(trng.fork(), k, 24 if tier == 'quick' else 40) for k in range(n_wtree_cases)]
    # graphs with a core under the documented options the main stream never sets (own stream)
    orng = C.SplitMix64(res.seed ^ 0xC140975)
    cases += [G.gen_core_opts_case(orng.fork(), k, 30 if tier == 'quick' else 50) for k in range(120 if tier == 'quick' else 480)]
    tmpdir = tempfile.mkdtemp(prefix='c14_', dir=os.path.join(C.BUILD))
    t1 = time.time()
    try:
        with ThreadPoolExecutor(C.NPROC) as ex:
            results = list(ex.map(lambda ic: run_case(exe, drv, ic[1], tmpdir, ic[0]), enumerate(cases)))
    finally:
        import shutil
        shutil.rmtree(tmpdir, ignore_errors=True)
    run_s = time.time() - t1

    cond = collections.Counter()
    fam = collections.Counter()
    optc = collections.Counter()
    excs = collections.Counter()
    known = collections.Counter()
    known_objs = collections.defaultdict(list)
    n_checked = n_ok = n_nodes = n_edges = n_seps = n_segs = n_tree = n_core = n_chain = n_wtree = 0
    known_w = collections.Counter()
    known_w_objs = collections.defaultdict(list)
    wt_cov = collections.Counter()
    distinct = set()
    samples = []
    new_viol = 0
    n_unlisted_assert = 0
    end_outside = 0
    for case, r in zip(cases, results):
        fam[case['family'].split(':')[0]] += 1
        o = case.get('opts', {})
        optc['ACA=%s nearalign=%s aspect=%s' % (o.get('useACAforLinks', 1), o.get('do_near_align', 1),
                                                 ['NONE', 'PORTRAIT', 'LANDSCAPE'][o.get('preferredAspectRatio', 2)])] += 1
        if r.get('crash'):
            res.violation({'what': 'the harness process died (signal / abort) inside doHOLA', 'rc': r['rc'], 'stderr': r['stderr'],
                           'harness_input': G.case_text(case), 'family': case['family'], 'options': o})
            new_viol += 1
            continue
        if 'exc' in r:
            excs[r['exc'][:80]] += 1
            fp = exc_fingerprint(r['exc'])
            eobj = {'what': 'doHOLA threw instead of returning a drawing: ' + r['exc'], 'harness_input': G.case_text(case),
                    'family': case['family'], 'options': o}
            if fp in EXC_PREDICATES and not EXC_PREDICATES[fp](case):
                eobj['what'] += '  [the input does not satisfy the predicate under which %s is a known finding]' % fp
                res.violation(eobj)
                new_viol += 1
                continue
            k = res.known_fingerprint(fp)
            exact = any(x['property'] == PID and x['fingerprint'] == fp for x in res.known)
            if k is not None and not exact and fp not in GENERIC_ASSERT_SITES:
                # matched only by the catch-all line `exception:assert`: an assertion site that was never seen on the unchanged
                # tree is tolerated once per run (rare sites keep turning up), a second hit of unlisted sites is reported
                n_unlisted_assert += 1
                if n_unlisted_assert > 1:
                    eobj['what'] += '  [COLA_ASSERT site not listed in KNOWN_FINDINGS.txt; %d unlisted-site failures in this run]' % n_unlisted_assert
                    res.violation(eobj)
                    new_viol += 1
                    continue
            if res.violation(eobj, fingerprint=fp):
                new_viol += 1
            else:
                known[fp] += 1
                known_objs[fp].append(eobj)
            continue
        if 'checker_error' in r:
            res.violation({'what': 'the extracted checker failed to run', 'error': r['checker_error']}, no_input=True)
            new_viol += 1
            continue
        d, v = r['dump'], r['verdict']
        n_checked += 1
        wt = case['family'] == 'whole_tree'
        if wt:
            n_wtree += 1
            wt_cov['dir=%s size=%s' % ('ESWN'[int(o.get('defaultTreeGrowthDir', 1)) & 3], case.get('size_mode'))] += 1
            wt_cov['dir=%s shape=%s' % ('ESWN'[int(o.get('defaultTreeGrowthDir', 1)) & 3], case.get('shape'))] += 1
        elif is_tree(d):
            n_tree += 1
        else:
            n_core += 1
            if o.get('useACAforLinks', 1) == 0:
                n_chain += 1
        n_nodes += len(d['A']['N'])
        n_edges += len(d['A']['E'])
        n_seps += len(d['A']['S'])
        n_segs += sum(max(0, len(e[2]) // 2 - 1) for e in d['A']['E'])
        for k in ('nodes', 'edges', 'sizes', 'overlap', 'routes', 'seps'):
            if v.get(k):
                cond[k] += 1
        distinct.add((len(d['B']['N']), tuple(sorted(d['B']['E'])), tuple(sorted(o.items()))))
        if len(samples) < 3 and case['family'] in ('core_trees', 'hubs', 'cycle') and len(d['B']['N']) <= 12:
            samples.append({'family': case['family'], 'options': o, 'nodes_id_cx_cy_w_h': case.get('nodes'), 'edges': case.get('edges'),
                            'verdict': v['raw']})
        if v['ok']:
            n_ok += 1
            continue
        dg = diagnose(case, r)
        fps, why = classify(case, r, dg)
        if why:
            dg['not_a_known_finding_because'] = why
        obj = replay_obj(case, r, dg, exe)
        if fps and all(res.known_fingerprint(f) for f in fps):
            for f in fps:
                res.violation(obj, fingerprint=f)
                (known_w if wt else known)[f] += 1
                (known_w_objs if wt else known_objs)[f].append(obj)
        else:
            unknown = [f for f in (fps or []) if not res.known_fingerprint(f)]
            if unknown:
                obj['fingerprint_not_listed'] = unknown
            if new_viol < 5:
                res.violation(obj)
            new_viol += 1

    # ---- backstop only (the classifiers above are the predicates): a fingerprint that fires far more often than on the
    # unchanged tree is reported even if every single case satisfies its predicate
    denom = {'tree': n_tree, 'core': n_core, 'chain': n_chain, 'wtree': n_wtree}
    rate_report = {}
    for tag, f, (dk, lim, slack), kn, kobjs in ([('', f, x, known, known_objs) for f, x in sorted(RATE_LIMITS.items())] +
                                                [('whole_tree:', f, x, known_w, known_w_objs) for f, x in sorted(RATE_LIMITS_WTREE.items())]):
        allowed = lim[tier if tier in lim else 'quick'] * denom[dk] + slack
        rate_report[tag + f] = {'hits': kn[f], 'of': denom[dk], 'kind': dk, 'allowed': round(allowed, 1)}
        if kn[f] > allowed:
            objs = kobjs[f]
            last = objs[-1]
            res.violation({'what': 'known-finding rate exceeded: fingerprint %s fired on %d of %d %s drawings; the unchanged tree stays below %.1f '
                                   '(about 3 x the largest rate seen over the calibration seeds + %d)' % (tag + f, kn[f], denom[dk], dk, allowed, slack),
                           'fingerprint_rate': rate_report[tag + f], 'harness_input': last['harness_input'], 'family': last['family'], 'options': last['options'],
                           'graph': last['graph'], 'diagnosis': last['diagnosis'],
                           'more_cases': [o['harness_input'] for o in objs[-6:-1]],
                           'replay': last['replay']})
            new_viol += 1

    exc_allowed = max(4, 0.01 * len(cases))      # unchanged tree: at most 3 hits of one exception fingerprint in 1100 runs
    for f in sorted(known):
        if f.startswith('exception:') and known[f] > exc_allowed:
            last = known_objs[f][-1]
            res.violation({'what': 'known-finding rate exceeded: %s on %d of %d runs (allowed %.0f); %s' % (f, known[f], len(cases), exc_allowed, last['what']),
                           'harness_input': last['harness_input'], 'family': last['family'], 'options': last['options'],
                           'more_cases': [x['harness_input'] for x in known_objs[f][-6:-1]]})
            new_viol += 1

    res.cov.update({
        'known_finding_rates': rate_report, 'trace_copy_in_sync': trace_copy_in_sync(),
        'explanation': 'Level other. PROVED (Coq, all inputs): the oracle hola_ok is sound and complete for the declaratively stated output '
                       'conditions of doHOLA (same node ids, same edge multiset, sizes kept, no positive-area node overlap, every route >=2 '
                       'points / axis-parallel / ends within the padded end-node boxes / through no third node, every returned SepPair holds - '
                       'the C18 meaning at tolerance 0), and the node-padding arithmetic of hola.cpp (inflate by nodePaddingScalar*IEL, deflate '
                       'in layers 1/4 + 3/4) is the identity on sizes over Q and bounds the route-end tolerance. NOT PROVED: anything about the '
                       'HOLA pipeline itself (no model exists). SAMPLED: %d real doHOLA runs (%d drawings checked: %d nodes, %d edges, %d route '
                       'segments, %d separation pairs) decided by the extracted hola_ok; a change in /repo can only show through these runs.'
                       % (len(cases), n_checked, n_nodes, n_edges, n_segs, n_seps),
        'evaluations': len(cases), 'distinct_nontrivial': len(distinct),
        'rule': 'cases = corpus/c14_cases.json + the inputs of the 11 shipped hola_* tests (default options) + random connected simple graphs '
                '(families tree, cycle, core with hanging trees, hubs, random; <= %d nodes; three node-size regimes; random distinct start '
                'positions; options: useACAforLinks, do_near_align, preferredAspectRatio each random, preferConvexTrees / putUlcAtOrigin / '
                'tree growth directions sometimes) + a degenerate-start stream (coincident / collinear / gridded start positions) + the whole_tree family '
                '(coverage.whole_tree_family) + the core_opts family (core_trees / hubs / cycle graphs with peeledTreeRouting, orthoHubAvoidFlatTriangles, treePlacement_favour*, '
                'expansion_*, align_reps, nearAlignScalar_*, routingScalar_*, routingAbs_nudgingDistance, nodePaddingScalar set at random); '
                'distinct_nontrivial = distinct (node count, edge set, options) among the runs that returned a drawing' % maxn,
        'samples': samples,
        'traces_validated_against_impl': n_ok,
        'drawings_checked': n_checked, 'accepted_by_hola_ok': n_ok,
        'per_condition_pass': {k: cond[k] for k in ('nodes', 'edges', 'sizes', 'overlap', 'routes', 'seps')},
        'totals': {'nodes': n_nodes, 'edges': n_edges, 'route_segments': n_segs, 'separation_pairs': n_seps},
        'families': dict(fam), 'option_combinations': dict(optc), 'exceptions': dict(excs),
        'known_finding_cases': dict(known), 'new_rejections': new_viol,
        'whole_tree_family': {'drawings': n_wtree, 'known_finding_cases': dict(known_w), 'direction_x_sizemode_and_shape': dict(wt_cov),
                              'what': 'pure trees (caterpillar, star, binary, path, broom, spider, recursive, double star; <= 24 / 40 nodes) laid out by the whole-tree '
                                      'branch of doHOLA under defaultTreeGrowthDir E, S, W, N in turn; node dimension distributions uniform tall / uniform wide / tall / wide / '
                                      'mixed / square / one big (aspect ratio up to 12); options wholeTreeRouting, preferConvexTrees, treeLayoutScalar_nodeSep / _rankSep, '
                                      'nodePaddingScalar, routingAbs_nudgingDistance, putUlcAtOrigin'},
        'tolerances': {k: str(TOLS[k]) for k in TOL_ORDER},
        'timing_s': {'build': round(build_s, 1), 'runs': round(run_s, 1), 'max_single_doHOLA': round(max(r['time'] for r in results), 2)}})
    n_exc = sum(excs.values())
    if n_exc > 0.03 * len(cases):
        res.violation({'what': 'doHOLA ended in an exception / failed assertion on %d of %d runs (more than 3%%); the unchanged tree does so on '
                               'about 1%%' % (n_exc, len(cases)), 'exceptions': dict(excs)}, no_input=True)
        new_viol += 1
    if not info['ok'] and new_viol == 0 and compass_bad == 0:
        res.violation({'what': 'a proof obligation of the oracle / padding / Compass theorems no longer checks (an edit of the Coq files, or a '
                               'change of Compass::cardinalDirection / compassDirection in ortho.cpp that the translator no longer maps to the '
                               'proved definitions); the sampled runs and the Compass lattice sweep found no failing input',
                       'cpp2v_unsupported': info.get('unsupported'), 'broken_files': info.get('broken'),
                       'broken_lemmas': info.get('broken_lemmas'), 'forbidden': info.get('forbidden'), 'coq_log_tail': info['log'][-2500:]},
                      no_input=True)
    return res.finish()


def replay(path):
    r = json.load(open(path))
    print(json.dumps({k: r[k] for k in r if k not in ('harness_input',)}, indent=1)[:6000])
    if 'harness_input' not in r:
        return 0
    exe = C.build_harness('c14_hola', C.LIBS, FLAVOR)
    drv = C.ocaml_build('c14', 'C14.v', 'c14_driver.ml', 'c14_model.ml')
    tmpdir = tempfile.mkdtemp(prefix='c14r_', dir=C.BUILD)
    p = os.path.join(tmpdir, 'case.txt')
    open(p, 'w').write(r['harness_input'])
    rc, out, err, dt = C.sh([exe, p], timeout=600)
    if rc != 0:
        print('harness died rc=%d\n%s' % (rc, err[-2000:]))
        return 1
    d = parse_dump(out)
    if d['exc'] is not None:
        print('EXCEPTION', d['exc'])
        return 1
    rc2, vout, verr, dt2 = C.sh([drv], input=driver_input('replay', d), timeout=900)
    print(vout.strip())
    import shutil
    shutil.rmtree(tmpdir, ignore_errors=True)
    return 0 if ' ok=1 ' in vout else 1


def warm():
    C.build_harness('c14_hola', C.LIBS, FLAVOR)
    C.build_harness('c14_compass', C.LIBS, 'plain')
    C.ocaml_build('c14', 'C14.v', 'c14_driver.ml', 'c14_model.ml')


META = {
    'property_id': PID,
    'level_claimed': {
        'category': 'other',
        'text': 'The theorems cover the oracle, the padding arithmetic and one translated leaf of the pipeline (Compass); the rest of the implementation is sampled. '
                'Compass (ortho.cpp:52-83, Gen/Compass.v regenerated by tools/cpp2v.py on every run, theorems in Dialect/Compass.v): for ALL rational point pairs '
                'cardinalDirection returns EAST/WEST/SOUTH/NORTH exactly by dominant axis (ties to x) and sign (C14_cardinalDirection_spec, _range), flips when the pair '
                'is reversed unless the points coincide (then WEST both ways: _antisym, _coincident), is translation invariant (_translate); compassDirection on '
                'distinct points is the exact sign pattern of (dx, dy) (C14_compassDirection_spec, _antisym) and agrees with cardinalDirection on cardinal directions, '
                'otherwise cardinalDirection is one of its two cardinal components (C14_compass_cardinal_consistent); the throw for coincident points is '
                'translated as a recorded precondition, proved equivalent to the hypothesis `distinct` (C14_compassDirection_returns_iff_distinct), and also checked by the lattice sweep (compiled functions vs the theorem statements on 9 x (2R+1)^2 pairs, R = 4 / 12), '
                'which is also the search for a failing input when a Compass proof or translation breaks; the direction predicates of ortho.h (isHorizontal/Vertical/Increasing/Decreasing[Card], '
                'sameDimension, arePerpendicular) are translated too: their algebra on the four cardinals, on the diagonals, and their meaning on a computed direction '
                '(C14_card_predicates_algebra, C14_compass_predicates_on_cardinals, _on_diagonals, C14_cardinalDirection_predicates), swept exhaustively; Compass::vectorSigns (a switch, translated as a chain of ifs) '
                'of a computed compass direction is the pair of signs of (dx, dy) (C14_vectorSigns_of_compassDirection). '
                'Oracle and padding: Proved in Coq, for all drawings and '
                'all tolerance settings: the checker hola_ok is sound AND complete for the declaratively stated output conditions of doHOLA '
                '(same node ids; same multiset of (source,target) edges; every node keeps its width and height; no two node rectangles have a '
                'common interior point; every route has >= 2 points, only axis-parallel segments, starts and ends inside-or-on the end nodes\' '
                'boxes inflated by the node padding (either orientation), and no segment contains a point strictly inside a third node; every '
                'returned SepPair holds for the returned centres/sizes, with the C18 meaning SepPairModel.holds at tolerance 0); and the '
                'node-padding arithmetic of hola.cpp:75-78/114/196-200/418-438 (inflate by nodePaddingScalar*IEL, deflate in layers 1/4 and '
                '3/4) is the identity on widths and heights over Q for every node role, with the route-end tolerance padding_per_side derived '
                'from the same formula. NOT proved: anything about the ~18 kLOC HOLA pipeline - no model of it exists; whether doHOLA meets '
                'the conditions is decided only on sampled runs (random connected graphs of the named families and option settings + the inputs '
                'of the 11 shipped hola_* tests), each judged by the extracted verified checker on the exact rational values of the dumped doubles.',
        'design_ref': 'DESIGN.md 5.14'},
    'level_note': 'Trusted: Coq kernel; tools/cpp2v.py + clang JSON AST for the Compass functions (ortho.cpp:52-83, ortho.h:68-128; exact-rational model of '
                  'binary64 comparisons; validated on every run by the lattice / exhaustive predicate sweep of the compiled functions against the theorem statements; '
                  'CompassDir / CardinalDir values outside their enumerators are not modelled); extraction (ExtrOcamlBasic) and extract/c14_driver.ml; harness/c14_hola.cpp, harness/c14_compass.cpp (reads Node/Edge/SepMatrix '
                  'state, SepMatrix::m_sparseLookup via #define private public); Python glue (double -> exact Fraction -> hex rationals, case '
                  'generation, known-finding classifiers which never accept a drawing, they only label a rejection). Tolerances: sizes 1e-6, overlap 1e-6, '
                  'axis-parallel 1e-9 (measured library drift 3e-14), route ends padding_per_side + 1e-6, through-node 1e-6, separation 1e-6 '
                  '(satisfied pairs are within 1e-11, violated ones off by > 0.1). The unchanged tree is NOT clean: the root causes '
                  'registered in KNOWN_FINDINGS.txt (tree centre-child alignment, tree rank collision, stale core constraints, chain bend '
                  'unaligned, cluster-destress overlap = padded gap lost / large graph overlap, and runtime_error / COLA_ASSERT / char* exceptions '
                  'escaping doHOLA) have classifier PREDICATES that establish the mechanism on the failing case: for trees from the input (ranks, '
                  'parent/median child, isomorphism classes of the c-trees, padded collisions of different ranks); for graphs with a core from '
                  'the pipeline\'s own intermediate graphs, obtained by `c14_hola --trace` (a verbatim copy of doHOLA, hola.cpp:59-439, that '
                  'snapshots the core graph, the planarised graph P at every stage, the Chains\' aesthetic bends and the peeled trees without '
                  'a heap allocation - the library\'s results depend on heap layout) and used only when that run reproduces the judged drawing '
                  'to 1e-9: violated constraint in the core\'s SepMatrix and not in P\'s; bend point = final position of the bend node in P '
                  'and the defective segment\'s alignment dropped by the planarisation; first overlap of the pair in P at a destress with node '
                  'clusters between a cluster member and an outsider. A rejection outside those predicates is a VIOLATION (the reason is stored '
                  'in the replay file under diagnosis.not_a_known_finding_because); as a backstop a fingerprint that fires more than 3x as '
                  'often as on the unchanged tree (coverage.known_finding_rates) is a VIOLATION as well. A source change is visible only through the sampled runs; a broken proof can only come '
                  'from an edit of the Coq files and is then reported with no failing input. Multi-edges, self-loops and disconnected graphs '
                  'are outside the generator domain, as in the property. Options: every field of HolaOpts (opts.h) is set by some family - the main stream sets useACAforLinks, '
                  'do_near_align, preferredAspectRatio, preferConvexTrees, putUlcAtOrigin, default/preferredTreeGrowthDir; whole_tree (pure trees, growth direction E/S/W/N in turn, node '
                  'aspect ratio up to 12: uniform tall / uniform wide / tall / wide / mixed / square / one big) adds wholeTreeRouting, treeLayoutScalar_nodeSep/_rankSep, nodePaddingScalar, '
                  'routingAbs_nudgingDistance; core_opts adds peeledTreeRouting, orthoHubAvoidFlatTriangles, treePlacement_favour*, expansion_*, align_reps, nearAlignScalar_*, routingScalar_*. '
                  'The tree classifiers read the rank pitch as treeLayoutScalar_rankSep*IEL, absorb NOTHING when two nodes of one rank have overlapping padded boxes (seeded C14-5), and '
                  'tree_rank_collision has the variant :channel_blocked (a third node of the two ranks closes the channel of a diagonal-fallback edge); whole_tree has known-finding rate limits of its own. '
                  'exception:assert:orthogonal.cpp:begin_<_finish is known only with useACAforLinks=0 and nodePaddingScalar>=0.5 (EXC_PREDICATES).',
    'technique': 'Coq soundness+completeness proof of an output checker (verified oracle) + proved padding arithmetic + Coq proof over cpp2v-regenerated Gallina of the Compass direction functions (lattice sweep as search); HOLA pipeline sampled by running doHOLA',
}
