"""C10 - libavoid nudging: shared paths are separated without moving endpoints (DESIGN 5.10).
proof: Coq theorems about the executable region model of ImproveOrthogonalRoutes::nudgeOrthogonalRoutes
(Avoid/NudgeModel.v: generator of VPSC variables/constraints, the do/while `satisfied` loop with the unsatisfied-range
gap rewriting, write-back), Avoid/Nudge.v, Properties/C10.v; the VPSC solver is a Section parameter with C01's statement
as its hypothesis.
tie: C through hooks H1 + H1b (guarded dump of every nudging region and of every pass's whole segment list in
orthogonal.cpp): the extracted generator must reproduce the real (vs, cs, gapcs, potential constraints) exactly, the
extracted loop steps must reproduce the real satisfied / unsatisfied-range / sepDist / rewritten-gap trace on the real solver
results, with the VPSC model of C01 as solver the final positions to 1e-9; the extracted relations overlaps_with /
should_align_with / can_align_with (Avoid/NudgeRelModel.v, proved symmetric in Avoid/NudgeRel.v) must reproduce every
dumped REL record exactly, the extracted region collection seg_groups must reproduce the regions the code formed, and the
checkpoint-limit oracle cp_limit_ok must accept the limits of every shiftable middle segment (a tree without H1b: relations
only where H1's SEG record determines them, rel=partial, no pass records); COMPLETENESS of every pass (mem=, seeded change
C10-6): the extracted route_members recomputed from the display route of EVERY orthogonal connector (AROUTE records; fixed-route
connectors included) must be exactly the pass's segment list (ASEG records): members_covered + members_only, so that by
C10_members_in_groups every positive-length route segment lying in the shift dimension is in some region;
V: the verified region checker nudge_region_ok on every dumped region and the verified scene checker scene_ok on the real
route() / displayRoute() of every connector; connectors with a user-specified fixed route (scene op F, ConnRef::setFixedRoute;
families 16-18 incl. later transactions with moveShape) are immovable in the scene checker (fixed_kept: displayed as given; their
segments count as stuck / as channel walls, the movable segments overlapping them must end separated)."""
import os, re, json, collections
from concurrent.futures import ThreadPoolExecutor
from vlib import common as C
from checks import c10lib as L

PID = 'C10'
FLAVOR = os.environ.get('C10_FLAVOR', 'exc')
CHUNK = 20


def corpus():
    p = os.path.join(C.VERIF, 'corpus', 'c10_scenes.json')
    if os.path.exists(p):
        return [norm_scene(sc) for sc in json.load(open(p))]
    return []


def norm_scene(sc):
    """a scene read back from JSON (corpus / replay file) in the generator's form"""
    sc = dict(sc)
    sc['cps'] = {int(k): [tuple(q) for q in v] for k, v in sc['cps'].items()}
    sc['boxes'] = [tuple(b) for b in sc['boxes']]
    sc['pins'] = [tuple(b) for b in sc['pins']]
    sc['conns'] = [(c[0], tuple(c[1]), tuple(c[2])) for c in sc['conns']]
    if 'fixed' in sc:
        sc['fixed'] = {int(k): [tuple(q) for q in v] for k, v in sc['fixed'].items()}
    if 'later' in sc:
        sc['later'] = [[tuple(m) for m in ops] for ops in sc['later']]
    if 'boxes0' in sc:                      # a replay file holds one transaction's view of the scene: back to the whole scene
        sc['boxes'] = [tuple(b) for b in sc.pop('boxes0')]
        sc.pop('txn', None)
    return sc


def run_scenes(exe, drv, scenes):
    """-> list of dict(scene, res (parsed harness output), regs (driver verdict per region), sv (scene verdict), err);
    a scene with later transactions gives one entry per transaction (L.scene_views)"""
    chunks = [scenes[i:i + CHUNK] for i in range(0, len(scenes), CHUNK)]

    def one(ch0):
        rc, out, err, dt = C.sh([exe], input=''.join(L.scene_text(s) for s in ch0), timeout=600)
        ch = [v for s in ch0 for v in L.scene_views(s)]
        sp = L.split_scenes(out)
        rs = L.parse_output(out)
        if rc != 0 or len(sp) != len(ch) or len(rs) != len(ch):
            return [{'scene': s, 'err': 'harness rc=%d scenes=%d/%d %s' % (rc, len(sp), len(ch), err[-300:])} for s in ch]
        inp = []
        npass = []
        for s, (dump, _), r in zip(ch, sp, rs):
            inp += L.driver_regions(dump, s, complete=not r['exc'])
            inp += L.driver_scene(s, r)
            npass.append(L.count_passes(dump))
        rc2, o, e, dt2 = C.sh([drv], input='\n'.join(inp) + '\n', timeout=900)
        regs, svs, pvs = L.parse_driver(o)
        if rc2 != 0 or len(svs) != len(ch) or len(regs) != sum(len(r['regions']) for r in rs) or len(pvs) != sum(npass):
            return [{'scene': s, 'err': 'driver rc=%d scenes=%d/%d regions=%d/%d %s' %
                     (rc2, len(svs), len(ch), len(regs), sum(len(r['regions']) for r in rs), e[-300:])} for s in ch]
        out_l, k, kp = [], 0, 0
        for s, r, sv, np_ in zip(ch, rs, svs, npass):
            n = len(r['regions'])
            out_l.append({'scene': s, 'res': r, 'regs': regs[k:k + n], 'sv': sv, 'pvs': pvs[kp:kp + np_], 'err': None})
            k += n
            kp += np_
        return out_l
    with ThreadPoolExecutor(C.NPROC) as ex:
        parts = list(ex.map(one, chunks))
    return [x for p in parts for x in p]


def replay_of(sc):
    return {'scene': sc, 'scene_script': L.scene_text(sc),
            'replay': 'printf "<scene_script>" | build/bin/c10_nudge-%s-*   (then ./check C10 --replay <this file>)' % FLAVOR}


def classify_scene(sc, r, sv, pvs=(), earlier=()):
    """known-finding classifier for a scene-level failure (predicates on the failing case, DESIGN 3.5).  EVERY failing
    clause of the scene checker must be explained by a predicate (every lost checkpoint, every overlapping pair); one
    unexplained item and the scene is reported as a violation."""
    fps = []
    o0, o3 = sc['opts'][0], sc['opts'][3]
    if sv.get('nseg') or sv.get('orth') or sv.get('clear'):
        return []
    if sv.get('fixed'):
        # a fixed route that is not displayed as given: every such connector must be explained by the finding "the middle
        # segments of a fixed route are shiftable NudgingShiftSegments" (a dumped satisfied region moved a NON-fixed
        # segment of that connector, in this or an earlier transaction of the scene (`earlier`); first / last points kept)
        for cid in [int(c) for c in sv['fixed'].split(',') if c]:
            if not L.fixed_route_middle_shifted(sc, r, cid, earlier):
                return []
        fps.append('fixed_route_middle_segment_shifted')
    if sv.get('ends'):
        if o0 != 1:
            return []
        if any(int(c) in sc.get('fixed', {}) for c in sv['ends'].split(',') if c):
            return []           # the end segments of a FIXED route are immovable under that option too (orthogonal.cpp:2178)
        fps.append('final_segment_nudging_moves_ends')
    if sv.get('cps') and o0 == 1:
        fps.append('final_segment_nudging_moves_ends')
    if sv.get('cps') and o0 == 0:
        # every checkpoint that left the route must be explained by one of three predicates:
        #  spur:   it sits at the tip of a collinear spur of route() (the route runs to the checkpoint and straight back),
        #          which Polygon::simplify() removes;
        #  corner: the unifying pass put the adjoining shiftable segment exactly onto the checkpoint's coordinate, after
        #          which the checkpoint no longer limits it;
        #  plain:  it lies on a dumped segment that is `fixed` but carries no checkpoints, and another segment of its
        #          connector was aligned (canAlignWith, 0 gap) onto that segment
        why = []
        for cid in [int(c) for c in sv['cps'].split(',') if c]:
            raw, disp = r['routes'][cid]['O'], r['routes'][cid]['D']
            for p in sc['cps'].get(cid, []):
                if L.on_route_py(raw, p) and not L.on_route_py(disp, p):
                    if L.spur_tip(raw, p):
                        why.append('checkpoint_on_collinear_spur')
                    elif L.cp_at_moved_corner(sc, r['regions'], cid, p):
                        why.append('checkpoint_at_corner_after_unify')
                    elif L.cp_on_plain_fixed_segment(r['regions'], cid, p):
                        why.append('checkpoint_segment_without_checkpoints')
                    else:
                        why.append(None)
        if not why or None in why:
            return []           # an unexplained lost checkpoint: no classifier may absorb the scene
        fps.append(why[0])
    if sv.get('pairs'):
        if any(pv.get('mem') == 'DIFF' for pv in pvs):
            # every explanation of an overlapping pair reads the dumped regions and presupposes that BOTH segments were
            # members of their pass; with a route segment missing from a pass's segment list (mem=DIFF) none applies
            return []
        why = []
        for a, b in (p.split('/') for p in sv['pairs'].split(',') if p):
            a, b = int(a), int(b)
            if o3 == 0 and (L.pair_flagged_shared(r['regions'], a, b) or L.blocked_by_shared_equality(r['regions'], a, b)):
                why.append('shared_path_flag_per_connector_pair')
            elif L.overlap_created_across_dimensions(r, a, b):
                why.append('overlap_created_by_other_dimension')
            elif L.sandwiched(r['regions'], a, b):
                why.append('movable_between_immovable_same_position')
            elif L.order_against_limits(r['regions'], a, b):
                why.append('order_contradicts_channel_limits')
            else:
                why.append(None)
        if not why or None in why:
            return []
        fps.append(why[0])
    return fps


def classify_region(d):
    """known-finding classifier for a region-checker failure, from the driver's component diagnosis"""
    m = re.search(r'why cons\[([\d,]*)\] flagged\[([\d,]*)\] gaps\[([\d,]*)\] vars\[([\d,]*)\] written\[([\d,\-]*)\]', d.get('notes', ''))
    if not m:
        return None
    cons, flagged, gaps, vs, wr = [set(x.split(',')) - {''} for x in m.groups()]
    if cons and cons <= flagged and not gaps and not vs:
        return 'unsat_flag_ignored'
    return None


def exc_fingerprint(exc):
    a = re.search(r'expression: ([^|]*)\|\s*at line (\d+) of ([^|]*)', exc)
    if a:
        return 'assert:%s:%s' % (os.path.basename(a.group(3).strip()), a.group(1).strip()[:60].replace(' ', '_'))
    return 'exception:' + exc[:60].replace(' ', '_')


def run(tier):
    res = C.Result(PID, tier, 'proof')
    if not L.hook_present():
        print('C10: hook H1 missing in %s/cola/libavoid/orthogonal.cpp (tools/hooks/H1.patch not applied): machinery error, '
              'no verdict' % C.REPO, flush=True)
        return 2
    has_b = L.hook_b_present()
    if not has_b:
        print('C10: hook H1b (tools/hooks/H1b.patch) is not in %s: relations compared only where hook H1 determines them '
              '(rel=partial), no region-collection / checkpoint-limit correspondence' % C.REPO, flush=True)
    info = C.prove(res, PID)
    res.assumptions = ['the VPSC solver is a parameter of the region model; its contract (unflagged constraints hold to 1e-10, flags reported) is property C01',
                       'linesort / PtOrderMap ordering, the shared-path set and buildOrthogonalChannelInfo limits are inputs of the model (dumped by hook H1), not modelled; '
                       'the relations overlapsWith / shouldAlignWith / canAlignWith and the region collection ARE modelled and compared exactly (hooks H1 / H1b)',
                       'exact-rational model of binary64 on small dyadic inputs']
    exe = C.build_harness('c10_nudge', ['libavoid'], FLAVOR)
    drv = C.ocaml_build('c10', 'C10.v', 'c10_driver.ml', 'c10_model.ml')
    n = 400 if tier == 'quick' else 4000
    rng = C.SplitMix64(res.seed ^ 0xC10)
    scenes = corpus() + [L.gen_scene(rng.fork(), i) for i in range(n)]
    # fixed-route families 16-18 (seeded change C10-6) from their own stream, after the others (keeps the scenes above)
    nf = 90 if tier == 'quick' else 900
    rngf = C.SplitMix64(res.seed ^ 0xC106)
    scenes += [L.gen_scene(rngf.fork(), n + i, family=16 + i % 3) for i in range(nf)]
    results = run_scenes(exe, drv, scenes)
    st = collections.Counter()
    st['hook_H1b'] = int(has_b)
    errors, corr_diffs, reported = [], [], 0
    rep = collections.Counter()         # reported violations: at most 2 from the corpus and 3 from the generated scenes

    def room(sc):
        return rep['corpus' if str(sc['id']).startswith('corpus') else 'gen'] < (2 if str(sc['id']).startswith('corpus') else 3)

    deferred = []                       # KNOWN-FINDING lines are printed after the VIOLATION lines

    def known(o, fp):
        if res.known_fingerprint(fp):
            deferred.append((o, fp))
        elif room(o['scene']):
            if res.violation(o, fingerprint=fp):
                took(o['scene'])

    def took(sc):
        rep['corpus' if str(sc['id']).startswith('corpus') else 'gen'] += 1
    samples = []
    history = {}
    for x in results:
        sc = x['scene']
        if x.get('err'):
            errors.append(x['err'])
            continue
        r, sv = x['res'], x['sv']
        st['scenes'] += 1
        st['family:%d' % sc.get('family', -1)] += 1
        st['opts:' + ''.join(str(o) for o in sc['opts'])] += 1
        if r['exc'] and not r['exc'].startswith('skipped-after-exception'):
            st['assertion_in_library'] += 1
            st['exc:' + r['exc'][:110]] += 1
        for g, d in zip(r['regions'], x['regs']):
            st['regions'] += 1
            st['regions_unify' if g['unify'] else 'regions_nudge'] += 1
            if len(g['iters']) > 1:
                st['regions_multi_iteration'] += 1
            if g['end'] and not g['end']['sat']:
                st['regions_unsatisfied'] += 1
            if g['end'] and g['end']['sat'] and not g['unify'] and g['end']['sep'] < g['base']:
                st['regions_reduced_sep'] += 1
            if any(any(it.get('unsat', [])) for it in g['iters']):
                st['regions_with_flagged_constraint'] += 1
            st['gen_' + d.get('gen', '?')] += 1
            st['trace_' + d.get('trace', '?')] += 1
            st['chk_' + d.get('chk', '?')] += 1
            st['vpsc_' + d.get('vpsc', '?')] += 1
            st['rel_' + d.get('rel', '?')] += 1
            if d.get('assert', '-') != '-':
                st['model_assert_' + d['assert'].split('@')[0]] += 1
            if d.get('error'):
                errors.append(d['line'])
            if d.get('chk') == '0':
                fp = classify_region(d)
                o = replay_of(sc)
                o.update({'what': 'verified region checker nudge_region_ok fails on a dumped region: a region reported satisfied '
                                  'violates a constraint / a desired position / a channel limit, or an unsatisfied region was written back',
                          'region': L.region_json(g), 'driver': d['line']})
                if fp:
                    st['known:' + fp] += 1
                    known(o, fp)
                elif room(sc):
                    if res.violation(o):
                        reported += 1
                        took(sc)
            elif d.get('gen') == 'DIFF' or d.get('trace') == 'DIFF' or d.get('vpsc') == 'DIFF' or d.get('rel') == 'DIFF':
                corr_diffs.append({'scene_script': L.scene_text(sc), 'driver': d['line'], 'region': L.region_json(g)})
        for pv in x.get('pvs', []):
            st['passes'] += 1
            st['grp_' + pv.get('grp', '?')] += 1
            if pv.get('error'):
                errors.append(pv['line'])
            inner = [c for c in pv.get('cpl', '').split(',') if c and ':inner:' in c]
            st['cpl_corner'] += sum(1 for c in pv.get('cpl', '').split(',') if ':corner:' in c)
            st['cpl_inner'] += len(inner)
            st['mem_' + pv.get('mem', '?')] += 1
            if pv.get('grp') == 'DIFF' or pv.get('mem') == 'DIFF' or (inner and sc['opts'][0] == 0):
                corr_diffs.append({'scene_script': L.scene_text(sc), 'driver': pv['line'],
                                   'what': 'pass-level correspondence (hook H1b): the regions formed by the code differ from the '
                                           'partition the symmetric model computes from the whole segment list, or (mem=DIFF) a '
                                           'positive-length route segment of some connector lying in the shift dimension is in no '
                                           'region / a listed segment is no route segment, or a shiftable '
                                           'segment is not limited by a checkpoint lying inside the adjoining route segment'})
        for cid, given in sc.get('fixed', {}).items():
            st['fixed_route_connectors'] += 1
            raw = r['routes'].get(cid, {}).get('O')
            if not r['exc'] and raw != [tuple(float(v) for v in p) for p in given]:
                errors.append('scene %s: route() of fixed-route connector %d is not the route given to setFixedRoute' % (sc['id'], cid))
        if sc.get('txn'):
            st['later_transactions'] += 1
        if sc.get('later'):
            history.setdefault(sc['id'], [])
        if not r['exc'] and not r['done']:
            errors.append('scene %s: harness output incomplete' % sc['id'])
        if r['exc'] and r['exc'].startswith('skipped-after-exception'):
            st['transactions_skipped_after_exception'] += 1
            continue
        if r['exc']:
            fp = exc_fingerprint(r['exc'])
            st['known:' + fp] += 1
            o = replay_of(sc)
            o.update({'what': 'assertion failure / exception inside processTransaction (no nudging result)', 'exception': r['exc'],
                      'model_asserts': [d.get('assert') for d in x['regs'] if d.get('assert', '-') != '-']})
            if res.known_fingerprint(fp):
                known(o, fp)
            elif room(sc):
                if res.violation(o, fingerprint=fp):
                    reported += 1
                    took(sc)
            continue
        if sv.get('error'):
            errors.append(sv['line'])
        elif sv.get('ok') != '1':
            st['scene_checker_fail'] += 1
            fps = classify_scene(sc, r, sv, x.get('pvs', ()), history.get(sc['id'], []))
            for f in fps:
                st['known:' + f] += 1
            o = replay_of(sc)
            o.update({'what': 'verified scene checker scene_ok fails on the real routes', 'verdict': sv['line'],
                      'routes': {str(k): v for k, v in r['routes'].items()},
                      'pass_correspondence_differences': [pv['line'] for pv in x.get('pvs', ())
                                                          if pv.get('grp') == 'DIFF' or pv.get('mem') == 'DIFF'][:4]})
            if fps:
                known(o, fps[0])
            elif room(sc):
                if res.violation(o):
                    reported += 1
                    took(sc)
        if sc.get('later'):
            history[sc['id']].append(r)         # the results of the earlier transactions of a multi-transaction scene
        if len(samples) < 3 and len(r['regions']) >= 2 and any(len(g['iters']) > 1 for g in r['regions']):
            samples.append({'scene_script': L.scene_text(sc), 'regions': len(r['regions']), 'scene_verdict': sv['line'],
                            'region_verdicts': [d['line'] for d in x['regs']][:6]})
    reported = rep['corpus'] + rep['gen']
    if reported == 0 and (not info['ok'] or corr_diffs or errors):
        res.violation({'what': 'proof obligation or model/implementation correspondence no longer checks; the verified region and scene '
                               'checkers found no failing input on %d scenes / %d regions' % (st['scenes'], st['regions']),
                       'broken_files': info.get('broken'), 'broken_lemmas': info.get('broken_lemmas'), 'forbidden': info.get('forbidden'),
                       'correspondence_differences': corr_diffs[:3], 'n_correspondence_differences': len(corr_diffs),
                       'machinery_errors': errors[:5], 'coq_log_tail': info['log'][-2500:] if not info['ok'] else ''}, no_input=True)
    for (o, fp) in deferred:
        res.violation(o, fingerprint=fp)
    res.cov.update({'evaluations': st['regions'], 'distinct_nontrivial': st['regions_multi_iteration'] + st['regions_reduced_sep'] + st['regions_unsatisfied'],
                    'rule': 'one evaluation = one nudging region (one VPSC problem) of the real library, dumped by hook H1 and replayed on the '
                            'extracted model; scenes from SplitMix64(seed): 1-5 lattice rectangles, 2-5 orthogonal connectors with clustered '
                            'endpoints (free points, pins), random nudging distance, all 32 combinations of the five nudging options, '
                            'checkpoints in three families; family 13/15: 2-3 collinear checkpoints inside one straight segment next to a '
                            'shiftable segment in a channel (with / without the unifying step); family 14: an end segment lying exactly on '
                            'a rectangle edge along which another connector\'s middle segment runs, all id / creation orders; families 16-18 '
                            '(own stream, 90 / 900 scenes): connectors with a fixed route (setFixedRoute) - 16 a fixed route along the centre '
                            'line of 1-3 corridors that Z-connectors\' middle segments are centred onto, 17 a staircase fixed route of 2-5 bends '
                            'with connectors ending on / beside its lines, 18 family 16 + 1-2 later transactions moving a pinned box (one '
                            'evaluation per transaction); directed corpus '
                            'first (corpus/c10_scenes.json); non-trivial = regions needing more than one solve, ending with a reduced '
                            'separation, or ending unsatisfied',
                    'exhaustive': False, 'samples': samples, 'traces_validated_against_impl': st['trace_ok'],
                    'histogram': dict(st), 'machinery_errors': errors[:5]})
    return res.finish()


def replay(path):
    j = json.load(open(path))
    print(json.dumps({k: v for k, v in j.items() if k not in ('region', 'routes')}, indent=1)[:3000])
    if 'scene' in j:
        exe = C.build_harness('c10_nudge', ['libavoid'], FLAVOR)
        drv = C.ocaml_build('c10', 'C10.v', 'c10_driver.ml', 'c10_model.ml')
        bad = False
        for x in run_scenes(exe, drv, [norm_scene(j['scene'])]):
            if x.get('err'):
                print(x['err'])
                return 2
            if x['scene'].get('later'):
                print('--- transaction %d' % x['scene'].get('txn', 0))
            for d in x['regs'] + x.get('pvs', []):
                print(d['line'])
            print(x['sv']['line'])
            bad = bad or x['sv'].get('ok') != '1' or any(d.get('chk') == '0' or d.get('rel') == 'DIFF' for d in x['regs']) \
                or any(pv.get('grp') == 'DIFF' or pv.get('mem') == 'DIFF' for pv in x.get('pvs', []))
        return 1 if bad else 0
    return 0


def warm():
    if L.hook_present():
        C.build_harness('c10_nudge', ['libavoid'], FLAVOR)
    C.ocaml_build('c10', 'C10.v', 'c10_driver.ml', 'c10_model.ml')


META = {
    'property_id': PID,
    'level_claimed': {
        'category': 'proof',
        'text': 'Coq theorems (unbounded: any region, any solver meeting C01\'s contract) over an executable model of the per-region part of '
                'ImproveOrthogonalRoutes::nudgeOrthogonalRoutes: the generator of VPSC variables/constraints (weights and IDs of '
                'orthogonal.cpp:54-62, channel-edge variables), the do/while `satisfied` loop with the unsatisfied-range gap rewriting and '
                'the 10-step reduction, and the write-back. Proved: nudge_gen_wf (indices in range, gaps 0 or base distance, both channel '
                'constraints for every non-fixed segment with finite limits, fixed / nudged-final segments never get freeWeight); '
                'nudge_satisfied_post (satisfied exit => every constraint the solver did not flag holds with its current gap to 1e-10, each gap '
                'is the generated one or a reduced value between the final sepDist and the base distance, final sepDist = base or > 1e-4, every '
                'non-free variable within 1e-4 of its desired position); nudge_channel_post + written_within_limits (limits to 1e-4+1e-10 for '
                'solver positions, exactly for written positions, fixed segments not written); nudge_unsatisfied_noop; nudge_no_new_segments; '
                'C10_model (non-exempt overlapping pair ends >= final sepDist apart unless the solver flagged its constraint); the modelled '
                'relations are symmetric (overlaps_sym, can_align_sym, should_align_sym) and overlaps_with means "the shift ranges share a '
                'point" for properly overlapping extents; the modelled region collection is total, a permutation of the segment list, and '
                'separates regions in both operand orders (seg_groups_separated); cp_limit_keeps (limits accepted by the checkpoint oracle '
                'keep the checkpoint on the adjoining segment); nudge_immovable_member_post (an immovable member - first / last segment, '
                'checkpoint segment, end segment of a FIXED route - of a satisfied nudging-stage region keeps its position exactly and every '
                'non-exempt movable segment overlapping it ends >= the final, possibly reduced, sepDist from it on the side of the '
                'processing order, to 1e-4+1e-10 for solver positions and +d for written positions within limits to d); '
                'pass_members_complete + members_in_groups + groups_disjoint + members_only_sound (every positive-length segment of every '
                'connector\'s display route lying in the shift dimension is an expected member; if the dumped list covers the expected '
                'members each lies in exactly one region of the collection); soundness of the region checker and of the scene checker '
                '(scene_spec now has sp_fixed: a fixed route is displayed as given, and fixed-route segments are immovable); and a refutation: `satisfied` does not imply the constraints because the code never '
                'reads Constraint::unsatisfiable. PARTIAL: the solver is a hypothesis (C01), region grouping / ordering / channel limits are '
                'inputs, whole scenes are only checked (verified checker), not proved.',
        'design_ref': 'DESIGN.md 5.10'},
    'level_note': 'Trusted: Coq kernel; the hand-written models Avoid/NudgeModel.v + Avoid/NudgeRelModel.v tied to the code by hooks H1 / H1b (guarded dump in '
                  'orthogonal.cpp) and an exact correspondence on every run (generated vs/cs/gapcs/potential constraints, per-iteration satisfied / ranges / '
                  'sepDist / rewritten gaps on the real solver results, final positions with the VPSC model of C01 to 1e-9, the three segment relations of '
                  'every REL record, the partition of every pass\'s segment list into regions, the completeness of every pass\'s segment '
                  'list against the routes of all orthogonal connectors incl. fixed routes: mem=); extraction and OCaml/C++/Python '
                  'drivers; exact-rational model of binary64 (weights 0.00001, 0.001 and the 0.0001 tolerance are the exact binary64 values). '
                  'Modelled not verified: VPSC solver (Section hypothesis = property C01). Inputs (dumped data): shared-path '
                  'set, linesort / PtOrderMap order (and its mergeWith under nudgeOrthogonalSegmentsConnectedToShapes), buildOrthogonalChannelInfo; the checkpoint '
                  'limits of buildOrthogonalNudgingSegments are checked by an oracle (cp_limit_ok), not modelled. The scene-level statement (no movable overlap '
                  'in a wide-enough channel, ends / checkpoints / segment count / orthogonality / obstacle-freeness kept) is decided by a verified '
                  'checker on real outputs, i.e. validation. Known findings (KNOWN_FINDINGS.txt) are classified by predicates on the failing case; '
                  'no overlap classifier applies to a scene with a pass whose segment list is incomplete (mem=DIFF), the finding '
                  'final_segment_nudging_moves_ends never to a fixed-route connector. Seeded change C10-6 (fixed-route connectors skipped by '
                  'buildOrthogonalNudgingSegments): caught by corpus-fixed-route-corridor / -min and by families 16-18 (DESIGN 9.13); HEAD finding '
                  'fixed_route_middle_segment_shifted (middle segments of a fixed route are shiftable). Precondition of the membership model: '
                  'segmentPenalty != 0 (all generated scenes).',
    'technique': 'Coq proof over a hand-written region model + hook-based exact correspondence + verified region/scene checkers on real outputs',
}
