"""C05 - libavoid orthogonal: routes axis-parallel and of minimum length+bend cost; the bend estimate never
exceeds the true minimum (DESIGN 5.5).
proof: theorems about Gen/Bends.v (regenerated from makepath.cpp by cpp2v on every run): bends() = closed-form minimum
bend count, lower bound for every non-doubling-back orthogonal path, attained in the free plane, asserts unreachable,
admissibility of the estimatedCostSpecific arithmetic.
tie: translator (T) + exhaustive three-way sweep (compiled Avoid::bends / extracted Gen / extracted spec + brute-force BFS)
+ validation (V): raw orthogonal routes of the real router on scenes of separated rectangles, each checked by the
extracted verified route checker and compared in cost with the extracted grid oracle (sound; optimal over its Hanan-grid graph).
Direction-restricted free endpoints (ConnDirFlags): framed scenes x all 15 x 15 flag combinations x penalties 0.5 / 10 / 50 / 400, decided by
check_path_dirs + oracle_dirs (convention: flags name the side the connector attaches to; no turn at, no move into the source, no move out
of the target); failures explained by libavoid's own search space are the known findings restricted_endpoint_search_space / _route_doubles_back.
Several routings in ONE process with different parameters (DESIGN 9.15): `c05_bends seq` handles a sequence of (scene, segmentPenalty) steps - new Router per
scene and the same Router re-parameterised (setRoutingParameter + processTransaction / makePathInvalid / moveShape), penalties going up and down
(0.5 .. 400) - each step judged by the same verified checker + oracle with the penalty in force; corpus/c05_seq.json first (seeded C05-6)."""
import os, json
from vlib import common as C

PID = 'C05'
PENALTIES = [1, 10, 50]
DIRN = {1: 'N', 2: 'E', 4: 'S', 8: 'W'}


def build_harness_retry(name, libs, flavor, tries=4):
    """the object cache keeps one tree per lib/flavor; a concurrent run on another tree (VERIF_REPO) may evict ours between
    the library build and the link - simply retry"""
    for i in range(tries):
        try:
            return C.build_harness(name, libs, flavor)
        except RuntimeError as e:
            if 'No such file' not in str(e) or i == tries - 1:
                raise


# ------------------------------------------------------------------------------------------ scenes
def rects_sep(a, b, gap):
    return a[2] + gap <= b[0] or b[2] + gap <= a[0] or a[3] + gap <= b[1] or b[3] + gap <= a[1]


def gen_scene(rng, R, nmax=6, smax=11):
    ns = rng.range(1, nmax)
    boxes, tries = [], 0
    while len(boxes) < ns and tries < 200:
        tries += 1
        x, y, w, h = rng.below(R), rng.below(R), rng.range(2, smax), rng.range(2, smax)
        b = (x, y, x + w, y + h)
        if all(rects_sep(b, o, 1) for o in boxes):
            boxes.append(b)
    def free_pt():
        while True:
            p = (rng.range(-5, R + smax + 3), rng.range(-5, R + smax + 3))
            if not any(b[0] <= p[0] <= b[2] and b[1] <= p[1] <= b[3] for b in boxes):
                return p
    def near_pt():
        # a point 1..2 units off a random side of a random box, within the side's extent (forces detours)
        for _ in range(50):
            b = rng.choice(boxes)
            side, off = rng.below(4), rng.range(1, 2)
            if side == 0:
                p = (b[0] - off, rng.range(b[1], b[3]))
            elif side == 1:
                p = (b[2] + off, rng.range(b[1], b[3]))
            elif side == 2:
                p = (rng.range(b[0], b[2]), b[1] - off)
            else:
                p = (rng.range(b[0], b[2]), b[3] + off)
            if not any(o[0] <= p[0] <= o[2] and o[1] <= p[1] <= o[3] for o in boxes):
                return p
        return free_pt()
    def across():
        # endpoints on opposite sides of one box, both within its extent: no 0/1-bend route exists
        for _ in range(50):
            b = rng.choice(boxes)
            if rng.chance(1, 2):
                s = (b[0] - rng.range(1, 3), rng.range(b[1], b[3])); d = (b[2] + rng.range(1, 3), rng.range(b[1], b[3]))
            else:
                s = (rng.range(b[0], b[2]), b[1] - rng.range(1, 3)); d = (rng.range(b[0], b[2]), b[3] + rng.range(1, 3))
            if not any(o[0] <= q[0] <= o[2] and o[1] <= q[1] <= o[3] for o in boxes for q in (s, d)):
                return (s, d) if rng.chance(1, 2) else (d, s)
        return free_pt(), free_pt()
    conns = []
    for _ in range(rng.range(1, 3)):
        if rng.chance(1, 3):
            s, d = across()
        else:
            s = near_pt() if rng.chance(1, 2) else free_pt()
            d = near_pt() if rng.chance(1, 2) else free_pt()
        if s != d:
            conns.append((s, d))
    return boxes, conns


def corridor_scene(rng):
    """structured family: a row/column of boxes with narrow (gap 1..2) corridors, endpoints on opposite sides -
    aimed at the 'only turn beside a shape edge' pruning and at ties between detours"""
    n = rng.range(2, 5)
    boxes, x = [], 0
    for _ in range(n):
        w, h, y = rng.range(2, 6), rng.range(3, 12), rng.range(0, 6)
        boxes.append((x, y, x + w, y + h))
        x += w + rng.range(1, 2)
    def free_pt(lo, hi):
        while True:
            p = (rng.range(lo, hi), rng.range(-3, 20))
            if not any(b[0] <= p[0] <= b[2] and b[1] <= p[1] <= b[3] for b in boxes):
                return p
    conns = []
    for _ in range(rng.range(1, 3)):
        s, d = free_pt(-4, x + 3), free_pt(-4, x + 3)
        if s != d:
            conns.append((s, d))
    if rng.chance(1, 2):
        boxes = [(b[1], b[0], b[3], b[2]) for b in boxes]
        conns = [((s[1], s[0]), (d[1], d[0])) for s, d in conns]
    return boxes, conns


def start_mask(v):
    """libavoid ConnDirFlags (Up 1, Down 2, Left 4, Right 8; y grows downwards) -> mask over N=1,E=2,S=4,W=8 of the first segment"""
    return (1 if v & 1 else 0) | (4 if v & 2 else 0) | (8 if v & 4 else 0) | (2 if v & 8 else 0)


def arrival_mask(v):
    """the connector arrives at an end visible in direction d travelling in the reverse of d"""
    return (4 if v & 1 else 0) | (1 if v & 2 else 0) | (2 if v & 4 else 0) | (8 if v & 8 else 0)


def parse_num(tok):
    """route coordinate printed with %.17g -> exact int, or None when not an integer"""
    try:
        f = float(tok)
    except ValueError:
        return None
    if f != f or f in (float('inf'), float('-inf')) or f != int(f):
        return None
    return int(f)


def run_routes(exe, spec_exe, scenes, pen, scale=1):
    """returns list of per-connector records.  scale: the verified checker / oracle work on integers; coordinates and the penalty are
    multiplied by `scale` for them (scale 2 for segmentPenalty 0.5) and the costs divided again"""
    inp = []
    for boxes, conns in scenes:
        inp.append('S %s %d %d' % (repr(float(pen)), len(boxes), len(conns)))
        for b in boxes:
            inp.append('%d %d %d %d' % b)
        for c in conns:
            s, d = c[0], c[1]
            sv, dv = (c[2], c[3]) if len(c) > 2 else (15, 15)
            inp.append('%d %d %d %d %d %d' % (s + d + (sv, dv)))
        inp.append('E')
    rc, out, err, dt = C.sh([exe, 'routes'], input='\n'.join(inp) + '\n', timeout=900)
    lines = out.split('\n')
    recs, k = [], 0
    for boxes, conns in scenes:
        for c in conns:
            s, d = c[0], c[1]
            sv, dv = (c[2], c[3]) if len(c) > 2 else (15, 15)
            t = lines[k].split() if k < len(lines) else []
            k += 1
            rec = {'boxes': boxes, 'src': s, 'dst': d, 'penalty': pen, 'raw': ' '.join(t), 'src_dirs': sv, 'dst_dirs': dv}
            if not t or t[0] != 'R':
                rec['error'] = 'router raised an exception / no route printed (rc=%s %s)' % (rc, err[-300:])
                recs.append(rec)
                continue
            n = int(t[1])
            toks = t[2:2 + 2 * n]
            rec['route_text'] = [(toks[2 * i], toks[2 * i + 1]) for i in range(n)]
            pts = [(parse_num(toks[2 * i]), parse_num(toks[2 * i + 1])) for i in range(n)]
            rec['route'] = pts
            recs.append(rec)
        k += 1
    # oracle + verified checker on the integer routes
    todo = [r for r in recs if 'route' in r and all(p[0] is not None and p[1] is not None for p in r['route'])]
    oin = []
    ipen = pen * scale
    assert ipen == int(ipen)
    for r in todo:
        f = [int(ipen), len(r['boxes'])]
        for b in r['boxes']:
            f += [v * scale for v in b]
        f += [v * scale for v in list(r['src']) + list(r['dst'])] + [start_mask(r['src_dirs']), arrival_mask(r['dst_dirs']), len(r['route'])]
        for p in r['route']:
            f += [v * scale for v in p]
        oin.append(' '.join(str(v) for v in f))
    rc2, oout, oerr, dt2 = C.sh([spec_exe, 'routes'], input='\n'.join(oin) + '\n', timeout=1800)
    olines = [l for l in oout.split('\n') if l]
    for r, l in zip(todo, olines):
        head, _, path = l.partition('|')
        h = head.split()
        unscale = (lambda v: v) if scale == 1 else (lambda v: v / float(scale) if v >= 0 else v)
        r['oracle_status'], r['oracle_cost'], r['impl_status'], r['impl_cost'] = h[0], unscale(int(h[1])), h[2], unscale(int(h[3]))
        pp = path.split()
        r['oracle_path'] = [(int(pp[2 * i]) // scale, int(pp[2 * i + 1]) // scale) for i in range(len(pp) // 2)]
    if len(olines) != len(todo):
        for r in todo[len(olines):]:
            r['error'] = 'oracle driver produced no line (rc=%s %s)' % (rc2, oerr[-300:])
    return recs, dt, dt2


def judge(r):
    """None if fine, else (kind, no_input) """
    if 'error' in r:
        return 'router_failed', False
    txt = r['route_text']
    # exact axis-parallelism on the printed binary64 values (before any integer conversion)
    for (x0, y0), (x1, y1) in zip(txt, txt[1:]):
        if float(x0) != float(x1) and float(y0) != float(y1):
            return 'segment_not_axis_parallel', False
    if any(p[0] is None or p[1] is None for p in r['route']):
        return 'non_integer_route_coordinate', False
    if r.get('impl_status') != 'ok':
        return 'route_rejected_by_verified_checker', False
    if r.get('oracle_status') != 'ok':
        return 'oracle_' + str(r.get('oracle_status')), True
    if r['impl_cost'] > r['oracle_cost']:
        return 'route_not_minimal', False
    if r['impl_cost'] < r['oracle_cost']:
        return 'oracle_not_optimal', True
    return None


def route_bends(route):
    """number of direction changes (the raw route may contain collinear intermediate vertices)"""
    sg = lambda v: (v > 0) - (v < 0)
    ds = [(sg(b[0] - a[0]), sg(b[1] - a[1])) for a, b in zip(route, route[1:]) if a != b]
    return sum(1 for u, v in zip(ds, ds[1:]) if u != v)



# ------------------------------------------------------------------------------------------ direction-restricted free endpoints
# ConnDirFlags of a free-floating ConnEnd (Up 1 = towards smaller y, Down 2, Left 4, Right 8) name the SIDES of the endpoint at which the
# connector may attach: the first segment leaves the source in an allowed direction, the last segment arrives at the target travelling
# in the direction OPPOSITE to one of the target's flags (start_mask / arrival_mask above; the same convention as the two independent
# demo oracles of seeded/C05-3 and C05-4).  The oracle is the Coq Hanan-grid search (oracle_dirs: no turn at either endpoint, proved
# optimal over every walk of that grid graph for the given start / arrival masks).  Calibration on /repo HEAD (framed scenes, 15 x 15
# flag combinations, penalties 0.5 .. 400): ~96% of the raw routes have exactly the oracle cost, 0 violate the flags; the rest are
#   * ~3%  dearer than the oracle and EXACTLY the optimum of libavoid's own search space (sight_line_model below): genuine finding
#          restricted_endpoint_search_space (:sight_lines - bends only on lines of sight of shape sides / of the endpoints in their allowed
#          directions, cut at the endpoints; :turn_pruning - makepath.cpp's "only turn towards a shape corner, in line with the target or on
#          the source's own row/column" rule loses an optimum that needs two such turns);
#   * ~1%  routes with a 180 degree turn (the connector runs past its own endpoint and comes back): restricted_endpoint_route_doubles_back.
# "Framed" = four frame rectangles round the arena, so that no endpoint is first / last in a sweep (there
# fixConnectionPointVisibilityOnOutsideOfVisibilityGraph silently ADDS visibility directions, i.e. the flags are not honoured at all).
DIR_PENALTIES = [0.5, 10, 50, 400]
FRAME = [(-46, -40, -40, 40), (40, -40, 46, 40), (-36, -52, 36, -46), (-36, 46, 36, 52)]
FLAG_OF_HEADING = [1, 8, 2, 4]          # heading 0 N(-y) 1 E 2 S 3 W -> ConnDir flag
HDX = [0, 1, 0, -1]; HDY = [-1, 0, 1, 0]
FP_SPACE = 'restricted_endpoint_search_space'
FP_BACK = 'restricted_endpoint_route_doubles_back'


def gen_dirs_scene(rng, nrect, sflags, dflags):
    """frame + nrect separated rectangles inside the arena [-30,30]^2, source near the centre, target anywhere free"""
    boxes, t = [], 0
    src = (rng.range(-6, 6), rng.range(-6, 6))
    while len(boxes) < nrect and t < 100:
        t += 1
        x, y, w, h = rng.range(-26, 18), rng.range(-26, 18), rng.range(3, 14), rng.range(3, 14)
        b = (x, y, min(x + w, 30), min(y + h, 30))
        if b[0] <= src[0] <= b[2] and b[1] <= src[1] <= b[3]:
            continue
        if all(rects_sep(b, o, 2) for o in boxes):
            boxes.append(b)
    dst = None
    for _ in range(60):
        d = (rng.range(-28, 28), rng.range(-28, 28))
        if d != src and not any(b[0] <= d[0] <= b[2] and b[1] <= d[1] <= b[3] for b in boxes):
            dst = d
            break
    if dst is None:
        return None
    return boxes + FRAME, [(src, dst, sflags, dflags)]


def sight_line_model(rects, src, dst, pen, sflags, dflags, prune=True, cut=True):
    """CLASSIFIER of the known finding restricted_endpoint_search_space (not an oracle): cheapest path in a model of libavoid's own search
    space - Hanan points; a grid segment exists only on a line of sight of a rectangle side (extended until blocked) or of an endpoint in
    one of its allowed directions; lines are cut at the two endpoints; a turn (other than on the source's row for a turn to vertical / the
    source's column for a turn to horizontal, or in line with the target) needs a rectangle corner further along the line it turns onto
    (makepath.cpp:1333-1388, orthogonal.cpp setLongRangeVisibilityFlags).  Returns the optimal cost or None."""
    import heapq
    xs = sorted(set([r[0] for r in rects] + [r[2] for r in rects] + [src[0], dst[0]]))
    ys = sorted(set([r[1] for r in rects] + [r[3] for r in rects] + [src[1], dst[1]]))
    nx, ny = len(xs), len(ys)
    XI = {x: i for i, x in enumerate(xs)}; YI = {y: i for i, y in enumerate(ys)}
    hfree = lambda y, a, b: not any(r[1] < y < r[3] and a < r[2] and r[0] < b for r in rects)
    vfree = lambda x, a, b: not any(r[0] < x < r[2] and a < r[3] and r[1] < b for r in rects)
    ends = [(src, sflags), (dst, dflags)]
    cut_h = lambda y, a, b: cut and any(e[1] == y and a < e[0] < b for e, _ in ends)
    cut_v = lambda x, a, b: cut and any(e[0] == x and a < e[1] < b for e, _ in ends)
    covH = [[False] * (nx - 1) for _ in range(ny)]; covV = [[False] * (ny - 1) for _ in range(nx)]
    for yi, y in enumerate(ys):
        for xi in range(nx - 1):
            a, b = xs[xi], xs[xi + 1]
            if not hfree(y, a, b):
                continue
            ok = any(y in (r[1], r[3]) and hfree(y, min(r[0], a), max(r[2], b)) for r in rects)
            for e, f in ends:
                if not ok and e[1] == y:
                    ok = bool((f & 8 and a >= e[0] and hfree(y, e[0], b) and not cut_h(y, e[0], b)) or
                              (f & 4 and b <= e[0] and hfree(y, a, e[0]) and not cut_h(y, a, e[0])))
            covH[yi][xi] = ok
    for xi, x in enumerate(xs):
        for yi in range(ny - 1):
            a, b = ys[yi], ys[yi + 1]
            if not vfree(x, a, b):
                continue
            ok = any(x in (r[0], r[2]) and vfree(x, min(r[1], a), max(r[3], b)) for r in rects)
            for e, f in ends:
                if not ok and e[0] == x:
                    ok = bool((f & 2 and a >= e[1] and vfree(x, e[1], b) and not cut_v(x, e[1], b)) or
                              (f & 1 and b <= e[1] and vfree(x, a, e[1]) and not cut_v(x, a, e[1])))
            covV[xi][yi] = ok
    corners = set()
    for r in rects:
        corners |= {(r[0], r[1]), (r[0], r[3]), (r[2], r[1]), (r[2], r[3])}

    def step_ok(px, py, h):
        qx, qy = px + HDX[h], py + HDY[h]
        if not (0 <= qx < nx and 0 <= qy < ny):
            return False
        return covH[py][px] if h == 1 else covH[py][qx] if h == 3 else covV[px][py] if h == 2 else covV[px][qy]

    def corner_ahead(px, py, h):
        x, y = px, py
        while step_ok(x, y, h):
            x, y = x + HDX[h], y + HDY[h]
            q = (xs[x], ys[y])
            if q in corners:
                return True
            if cut and (q == src or q == dst):
                return False
        return False

    def turn_ok(px, py, nh):
        if not prune:
            return True
        q = (xs[px], ys[py])
        if nh in (0, 2):
            if q[1] == src[1] or q[0] == dst[0]:
                return True
        elif q[0] == src[0] or q[1] == dst[1]:
            return True
        return corner_ahead(px, py, nh)
    sx, sy, tx, ty = XI[src[0]], YI[src[1]], XI[dst[0]], YI[dst[1]]
    dist, pq = {}, []

    def push(c, st):
        if c < dist.get(st, 1e18):
            dist[st] = c
            heapq.heappush(pq, (c, st))
    for h in range(4):
        if sflags & FLAG_OF_HEADING[h] and step_ok(sx, sy, h):
            qx, qy = sx + HDX[h], sy + HDY[h]
            push(abs(xs[qx] - xs[sx]) + abs(ys[qy] - ys[sy]), (qx, qy, h))
    best = None
    while pq:
        c, st = heapq.heappop(pq)
        if c > dist[st]:
            continue
        px, py, h = st
        if (px, py) == (tx, ty):
            if dflags & FLAG_OF_HEADING[(h + 2) % 4] and (best is None or c < best):
                best = c
            continue
        if (px, py) == (sx, sy) and cut:
            continue
        for nh in range(4):
            if nh != h and not cut and (px, py) in ((sx, sy), (tx, ty)):
                continue
            if nh == (h + 2) % 4 or not step_ok(px, py, nh) or (nh != h and not turn_ok(px, py, nh)):
                continue
            qx, qy = px + HDX[nh], py + HDY[nh]
            push(c + abs(xs[qx] - xs[px]) + abs(ys[qy] - ys[py]) + (pen if nh != h else 0), (qx, qy, nh))
    return best


def has_reversal(route):
    sg = lambda v: (v > 0) - (v < 0)
    pts = [route[0]] + [q for i, q in enumerate(route[1:]) if q != route[i]]
    ds = [(sg(b[0] - a[0]), sg(b[1] - a[1])) for a, b in zip(pts, pts[1:])]
    return any(u[0] == -v[0] and u[1] == -v[1] for u, v in zip(ds, ds[1:]))


def through_own_endpoint(route, src, dst):
    """does the route run over the position of its own source after leaving it, or over its target before the end?"""
    def on(a, b, q):
        return (a[0] == b[0] == q[0] and min(a[1], b[1]) <= q[1] <= max(a[1], b[1])) or (a[1] == b[1] == q[1] and min(a[0], b[0]) <= q[0] <= max(a[0], b[0]))
    n = len(route)
    for i in range(n - 1):
        a, b = route[i], route[i + 1]
        if a == b:
            continue
        if on(a, b, tuple(src)) and not (i == 0 and a == tuple(src) and b != tuple(src)) :
            return True
        if on(a, b, tuple(dst)) and not (b == tuple(dst) and all(q == tuple(dst) for q in route[i + 1:])):
            return True
    return False


def judge_dirs(r):
    """direction-restricted family: None if fine, else (kind, no_input, fingerprint or None, extra dict)"""
    if 'error' in r:
        return 'router_failed', False, None, {}
    txt = r['route_text']
    for (x0, y0), (x1, y1) in zip(txt, txt[1:]):
        if float(x0) != float(x1) and float(y0) != float(y1):
            return 'segment_not_axis_parallel', False, None, {}
    if any(q[0] is None or q[1] is None for q in r['route']):
        return 'non_integer_route_coordinate', False, None, {}
    restricted = r['src_dirs'] != 15 or r['dst_dirs'] != 15
    if restricted and has_reversal(r['route']):
        return 'route_doubles_back_on_itself', False, FP_BACK + ':reversal', {}
    if restricted and through_own_endpoint([tuple(q) for q in r['route']], r['src'], r['dst']):
        return 'route_runs_through_its_own_endpoint', False, FP_BACK + ':through_endpoint', {}
    if r.get('impl_status') != 'ok':
        return 'route_rejected_by_verified_checker (endpoint direction flags not honoured, or through an obstacle, or not from src to dst)', False, None, {}
    if r.get('oracle_status') != 'ok':
        return 'oracle_' + str(r.get('oracle_status')), True, None, {}
    if r['impl_cost'] > r['oracle_cost'] + 1e-9:
        m = sight_line_model(r['boxes'], r['src'], r['dst'], r['penalty'], r['src_dirs'], r['dst_dirs'])
        extra = {'optimum_of_libavoid_search_space_model': m}
        if restricted and m is not None and r['impl_cost'] <= m + 1e-9:
            m2 = sight_line_model(r['boxes'], r['src'], r['dst'], r['penalty'], r['src_dirs'], r['dst_dirs'], prune=False)
            sub = 'sight_lines' if m2 is not None and abs(m2 - m) <= 1e-9 else 'turn_pruning'
            extra['optimum_on_sight_lines_without_turn_pruning'] = m2
            return 'route_not_minimal', False, FP_SPACE + ':' + sub, extra
        return 'route_not_minimal', False, None, extra
    if r['impl_cost'] < r['oracle_cost'] - 1e-9:
        return 'oracle_not_optimal', True, None, {}
    return None


def dirs_obj(r, kind, extra):
    pen = r['penalty']
    obj = {'what': kind, 'family': 'direction-restricted free endpoints', 'rectangles_x0y0x1y1': r['boxes'], 'src': r['src'], 'dst': r['dst'],
           'src_ConnDirFlags': r['src_dirs'], 'dst_ConnDirFlags': r['dst_dirs'], 'segmentPenalty': pen, 'route': r.get('route_text'),
           'route_cost': r.get('impl_cost'), 'oracle_cost': r.get('oracle_cost'), 'oracle_path': r.get('oracle_path'), 'error': r.get('error'),
           'replay': 'printf "S %s %d 1\\n%s\\n%d %d %d %d %d %d\\nE\\n" | build/bin/c05_bends-* routes   (orthogonal routing, idealNudgingDistance 0, route(); '
                     'flags Up 1 Down 2 Left 4 Right 8, y grows downwards)'
                     % (repr(float(pen)), len(r['boxes']), '\\n'.join('%d %d %d %d' % tuple(b) for b in r['boxes']), r['src'][0], r['src'][1], r['dst'][0], r['dst'][1],
                        r['src_dirs'], r['dst_dirs'])}
    obj.update(extra)
    return obj


def corpus_dirs_scenes():
    """corpus/c05_dirs.json: [{name, boxes, src, dst, src_dirs: [..] | 'all', dst_dirs: [..] | 'all'}] (demos of seeded C05-3 / C05-4, known reproducers)"""
    path = os.path.join(C.VERIF, 'corpus', 'c05_dirs.json')
    out = []
    if os.path.exists(path):
        for e in json.load(open(path)):
            sl = list(range(1, 16)) if e['src_dirs'] == 'all' else e['src_dirs']
            dl = list(range(1, 16)) if e['dst_dirs'] == 'all' else e['dst_dirs']
            for sf in sl:
                for df in dl:
                    out.append(([tuple(b) for b in e['boxes']], [(tuple(e['src']), tuple(e['dst']), sf, df)]))
    return out


def run_dirs_family(res, exe, spec_exe, rng, tier, stats, machinery):
    """returns number of violations"""
    viol = 0
    per_pen = 2 if tier == 'quick' else 12          # scenes per (flag pair, penalty)
    corpus = corpus_dirs_scenes()
    stats['corpus_scenes'] = len(corpus)
    for pen in DIR_PENALTIES:
        scenes = list(corpus)
        for sf in range(1, 16):
            for df in range(1, 16):
                for k in range(per_pen):
                    sc = gen_dirs_scene(rng, 1 + (sf + df + k) % 4, sf, df)
                    if sc is not None:
                        scenes.append(sc)
        scale = 2 if pen != int(pen) else 1
        recs, dtc, dto = run_routes(exe, spec_exe, scenes, pen, scale)
        stats['by_penalty'][str(pen)] = {'routes': len(recs), 'router_s': round(dtc, 2), 'oracle_s': round(dto, 2)}
        for r in recs:
            stats['routes'] += 1
            key = '%d/%d' % (r['src_dirs'], r['dst_dirs'])
            stats['flag_pairs'].add(key)
            j = judge_dirs(r)
            if j is None:
                stats['agree'] += 1
                if 'route' in r and route_bends(r['route']) >= 2:
                    stats['with_detour'] += 1
                continue
            kind, no_input, fp, extra = j
            obj = dirs_obj(r, kind, extra)
            if no_input:
                machinery.append(obj)
                continue
            if fp:
                stats['known'][fp] = stats['known'].get(fp, 0) + 1
                if not res.violation(obj, fingerprint=fp):
                    continue
            elif viol < 4:
                res.violation(obj)
            viol += 1
    return viol

# ------------------------------------------------------------------------------------------ several routings in one process, different parameters
# Per-process state (function-local statics, caches keyed on a Router that may be re-parameterised): ONE harness process (`c05_bends seq`) handles a
# sequence of steps, each with its own segmentPenalty: 'S' = a new Router (the previous one deleted, or kept alive), 'T' = the same Router
# re-parameterised with setRoutingParameter(segmentPenalty, v) followed by processTransaction() alone / makePathInvalid() on every connector / a
# moveShape.  Penalties go up and down within the process (e.g. 300, 2, 300, 2, 0.5, 50).  Every step's raw routes are judged by the same verified
# route checker and grid oracle (grid_oracle_optimal) with the penalty IN FORCE for that step.  Seeded change C05-6 (cost() reads segmentPenalty
# into a function-local static) is invisible to a process that only ever uses one penalty - which is what the other families do (one process per
# penalty).  libavoid HEAD has no mutable statics in makepath.cpp / router.cpp / orthogonal.cpp (only constants); process-wide reproducibility under
# address / heap perturbation is C20's subject and not repeated here.
SEQ_HI = [50, 300, 400]
SEQ_LO = [0.5, 1, 2]


def tradeoff_scene(rng):
    """length-versus-bends trade-off (shape of the seeded C05-6 demo, randomised + a random symmetry): a wide bar between source and target; the short way
    round the bar's near end needs 3 bends because a post blocks the source's direct way out, the long way round the far end needs 2"""
    W, h = rng.range(40, 100), rng.range(4, 20)
    bar = (0, 0, W, h)
    sx, sy = rng.range(W // 2, W - 5), h + rng.range(20, 60)
    px0 = sx + rng.range(2, 6)
    py0 = max(h + 2, sy - rng.range(8, 25))
    post = (px0, py0, px0 + rng.range(5, 20), sy + rng.range(8, 40))
    dst = (rng.range(W - 15, W + 4), -rng.range(5, 40))
    boxes, src = [bar, post], (sx, sy)
    if rng.chance(1, 3):
        # a third, harmless rectangle somewhere away from the endpoints
        for _ in range(10):
            x, y, w, hh = rng.range(-40, W + 40), rng.range(-60, sy + 60), rng.range(3, 15), rng.range(3, 15)
            b = (x, y, x + w, y + hh)
            if all(rects_sep(b, o, 2) for o in boxes) and not any(b[0] <= q[0] <= b[2] and b[1] <= q[1] <= b[3] for q in (src, dst)):
                boxes.append(b)
                break
    t = rng.below(8)
    def tp(q):
        x, y = q
        if t & 1: x = -x
        if t & 2: y = -y
        if t & 4: x, y = y, x
        return (x, y)
    def tb(b):
        (a, c), (d, e) = tp((b[0], b[1])), tp((b[2], b[3]))
        return (min(a, d), min(c, e), max(a, d), max(c, e))
    boxes = [tb(b) for b in boxes]
    src, dst = tp(src), tp(dst)
    if rng.chance(1, 2):
        src, dst = dst, src
    return boxes, [(src, dst)]


def gen_param_sequence(rng):
    """one process: 2-4 scenes, each in a new Router and then re-parameterised 0-3 times; the penalty alternates between a large and a small value
    (random which comes first), now and then a middle one.  Returns steps: dicts {op 'S'|'T', pen, keep, mode, move, boxes, conns} where boxes / conns
    are the scene IN FORCE after the step."""
    steps = []
    hi, lo = rng.choice(SEQ_HI), rng.choice(SEQ_LO)
    phase = rng.below(2)
    def next_pen():
        nonlocal phase
        phase ^= 1
        if rng.chance(1, 8):
            return 10
        if rng.chance(1, 6):
            return rng.choice(SEQ_HI) if phase else rng.choice(SEQ_LO)
        return hi if phase else lo
    for si in range(rng.range(2, 4)):
        k = rng.below(4)
        boxes, conns = (tradeoff_scene(rng) if k < 2 else gen_scene(rng, 14, 9, 7) if k == 2 else corridor_scene(rng))
        if not conns:
            boxes, conns = tradeoff_scene(rng)
        boxes = list(boxes)
        steps.append({'op': 'S', 'pen': next_pen(), 'keep': int(rng.chance(1, 3)), 'boxes': list(boxes), 'conns': list(conns)})
        for _ in range(rng.below(4)):
            mode, move = rng.below(3), None
            if mode == 2:
                kk = rng.below(len(boxes))
                b = boxes[kk]
                for _t in range(8):
                    dx, dy = rng.range(-4, 4), rng.range(-4, 4)
                    nb = (b[0] + dx, b[1] + dy, b[2] + dx, b[3] + dy)
                    if (dx or dy) and all(rects_sep(nb, o, 1) for j, o in enumerate(boxes) if j != kk) and \
                       not any(nb[0] <= q[0] <= nb[2] and nb[1] <= q[1] <= nb[3] for c in conns for q in c[:2]):
                        move = (kk,) + nb
                        break
                if move is None:
                    mode = 1
                else:
                    boxes = boxes[:kk] + [move[1:]] + boxes[kk + 1:]
            steps.append({'op': 'T', 'pen': next_pen(), 'mode': mode, 'move': move, 'boxes': list(boxes), 'conns': list(conns)})
    return steps


def seq_text(steps):
    """stdin of `c05_bends seq` for a list of steps"""
    out = []
    for st in steps:
        if st['op'] == 'S':
            out.append('S %s %d %d %d' % (repr(float(st['pen'])), st.get('keep', 0), len(st['boxes']), len(st['conns'])))
            out += ['%d %d %d %d' % tuple(b) for b in st['boxes']]
            out += ['%d %d %d %d %d %d' % (tuple(c[0]) + tuple(c[1]) + ((c[2], c[3]) if len(c) > 2 else (15, 15))) for c in st['conns']]
        else:
            out.append('T %s %d' % (repr(float(st['pen'])), st['mode']) + (' %d %d %d %d %d' % tuple(st['move']) if st['mode'] == 2 else ''))
    return '\n'.join(out) + '\n'


def as_fresh(st):
    """the scene in force after step st, as a first routing in a new Router"""
    return {'op': 'S', 'pen': st['pen'], 'keep': 0, 'boxes': st['boxes'], 'conns': st['conns']}


def run_sequences(exe, spec_exe, seqs):
    """one harness process per sequence; one oracle process for all records.  Returns (records, router seconds, oracle seconds); each record has
    'seq' (index), 'step' (index), 'conn' (index) besides the fields of run_routes."""
    recs, dtc = [], 0.0
    for qi, steps in enumerate(seqs):
        rc, out, err, dt = C.sh([exe, 'seq'], input=seq_text(steps), timeout=300)
        dtc += dt
        lines, k = out.split('\n'), 0
        for si, st in enumerate(steps):
            for ci, c in enumerate(st['conns']):
                t = lines[k].split() if k < len(lines) else []
                k += 1
                sv, dv = (c[2], c[3]) if len(c) > 2 else (15, 15)
                r = {'boxes': [tuple(b) for b in st['boxes']], 'src': tuple(c[0]), 'dst': tuple(c[1]), 'penalty': st['pen'], 'raw': ' '.join(t),
                     'src_dirs': sv, 'dst_dirs': dv, 'seq': qi, 'step': si, 'conn': ci}
                if not t or t[0] != 'R':
                    r['error'] = 'router raised an exception / no route printed (rc=%s %s)' % (rc, err[-300:])
                else:
                    n = int(t[1])
                    toks = t[2:2 + 2 * n]
                    r['route_text'] = [(toks[2 * i], toks[2 * i + 1]) for i in range(n)]
                    r['route'] = [(parse_num(toks[2 * i]), parse_num(toks[2 * i + 1])) for i in range(n)]
                recs.append(r)
            k += 1
    todo = [r for r in recs if 'route' in r and all(q[0] is not None and q[1] is not None for q in r['route'])]
    oin = []
    for r in todo:
        scale = 1 if r['penalty'] == int(r['penalty']) else 2
        r['scale'] = scale
        f = [int(r['penalty'] * scale), len(r['boxes'])]
        for b in r['boxes']:
            f += [v * scale for v in b]
        f += [v * scale for v in list(r['src']) + list(r['dst'])] + [start_mask(r['src_dirs']), arrival_mask(r['dst_dirs']), len(r['route'])]
        for q in r['route']:
            f += [v * scale for v in q]
        oin.append(' '.join(str(v) for v in f))
    rc2, oout, oerr, dto = C.sh([spec_exe, 'routes'], input='\n'.join(oin) + '\n', timeout=1800)
    olines = [l for l in oout.split('\n') if l]
    for r, l in zip(todo, olines):
        head, _, path = l.partition('|')
        h, scale = head.split(), r['scale']
        unscale = (lambda v: v) if scale == 1 else (lambda v: v / float(scale) if v >= 0 else v)
        r['oracle_status'], r['oracle_cost'], r['impl_status'], r['impl_cost'] = h[0], unscale(int(h[1])), h[2], unscale(int(h[3]))
        pp = path.split()
        r['oracle_path'] = [(int(pp[2 * i]) // scale, int(pp[2 * i + 1]) // scale) for i in range(len(pp) // 2)]
    for r in todo[len(olines):]:
        r['error'] = 'oracle driver produced no line (rc=%s %s)' % (rc2, oerr[-300:])
    return recs, dtc, dto


def corpus_sequences():
    """corpus/c05_seq.json: [{name, steps: [{op, pen, keep | mode, move, boxes, conns}]}] - minimised regressions, run first (each in its own process)"""
    path = os.path.join(C.VERIF, 'corpus', 'c05_seq.json')
    out = []
    if os.path.exists(path):
        for e in json.load(open(path)):
            steps = []
            for st in e['steps']:
                st = dict(st)
                st['boxes'] = [tuple(b) for b in st['boxes']]
                st['conns'] = [tuple(tuple(q) if isinstance(q, list) else q for q in c) for c in st['conns']]
                steps.append(st)
            out.append((e['name'], steps))
    return out


def minimise_sequence(exe, spec_exe, steps, si, ci):
    """smallest sub-sequence in which route ci of (the scene of) step si still fails: the step alone as a first routing (then the failure does not depend on
    earlier steps), else an earlier step + this one, each as a new Router, else the prefix up to si.  Returns (steps, index of the failing step, note)"""
    def fails(cand, idx):
        recs, _, _ = run_sequences(exe, spec_exe, [cand])
        return any(r['step'] == idx and r['conn'] == ci and judge(r) is not None and not judge(r)[1] for r in recs)
    alone = [as_fresh(steps[si])]
    if fails(alone, 0):
        return alone, 0, 'fails as the first and only routing of a process: independent of earlier steps'
    for j in range(si):
        cand = [as_fresh(steps[j]), as_fresh(steps[si])]
        if fails(cand, 1):
            return cand, 1, ('passes as the first routing of a process, fails after one earlier routing with segmentPenalty %s in ANOTHER Router of the same '
                             'process: state that outlives the Router' % repr(steps[j]['pen']))
    return steps[:si + 1], si, 'passes as the first routing of a process; needs this prefix of the sequence'


def run_seq_family(res, exe, spec_exe, rng, tier, stats, machinery):
    corpus = corpus_sequences()
    nseq = 80 if tier == 'quick' else 600
    seqs = [s for _, s in corpus] + [gen_param_sequence(rng) for _ in range(nseq)]
    names = [n for n, _ in corpus]
    recs, dtc, dto = run_sequences(exe, spec_exe, seqs)
    stats.update({'corpus_sequences': len(corpus), 'sequences': len(seqs), 'steps': sum(len(s) for s in seqs), 'routes': len(recs),
                  'router_s': round(dtc, 2), 'oracle_s': round(dto, 2)})
    viol, reported = 0, set()
    prev_cost = {}
    for r in recs:
        st = seqs[r['seq']][r['step']]
        stats['by_op'][st['op'] + (str(st.get('mode')) if st['op'] == 'T' else '')] = stats['by_op'].get(st['op'] + (str(st.get('mode')) if st['op'] == 'T' else ''), 0) + 1
        stats['penalties'][str(r['penalty'])] = stats['penalties'].get(str(r['penalty']), 0) + 1
        j = judge(r)
        if j is None:
            stats['agree'] += 1
            if route_bends(r['route']) >= 2:
                stats['with_detour'] += 1
            # did the penalty in force change which route is best?  (the cases that can see stale parameters)
            key = (r['seq'], r['conn'], tuple(r['boxes']), r['src'], r['dst'])
            b = route_bends(r['route'])
            if key in prev_cost and prev_cost[key] != b:
                stats['optimum_changed_with_penalty'] += 1
            prev_cost[key] = b
            continue
        kind, no_input = j
        steps = seqs[r['seq']]
        obj = {'what': kind, 'family': 'several routings in one process with different parameters',
               'sequence': names[r['seq']] if r['seq'] < len(names) else 'generated #%d' % (r['seq'] - len(names)),
               'failing_step': r['step'], 'failing_connector': r['conn'], 'step_op': st['op'], 'step_mode': st.get('mode'),
               'penalties_of_the_process_so_far': [s['pen'] for s in steps[:r['step'] + 1]],
               'rectangles_x0y0x1y1': r['boxes'], 'src': r['src'], 'dst': r['dst'], 'segmentPenalty_in_force': r['penalty'],
               'route': r.get('route_text'), 'route_cost': r.get('impl_cost'), 'oracle_cost': r.get('oracle_cost'), 'oracle_path': r.get('oracle_path'),
               'error': r.get('error')}
        if no_input:
            machinery.append(obj)
            continue
        viol += 1
        src_kind = 'corpus' if r['seq'] < len(names) else 'generated'
        stats['violations_' + src_kind] = stats.get('violations_' + src_kind, 0) + 1
        if r['seq'] in reported or sum(1 for q in reported if (q < len(names)) == (r['seq'] < len(names))) >= 2:
            continue        # at most two corpus and two generated sequences are written out
        reported.add(r['seq'])
        mini, idx, note = minimise_sequence(exe, spec_exe, steps, r['step'], r['conn'])
        obj.update({'minimised_sequence_note': note, 'minimised_failing_step': idx,
                    'replay': "printf '%s' | build/bin/c05_bends-exc-* seq    (one process; S pen keep ns nc / boxes / conns = new Router, T pen mode = "
                              "setRoutingParameter(segmentPenalty) on the current Router + processTransaction(); after every step the raw routes and E; "
                              "the route of step %d, connector %d is the failing one)" % (seq_text(mini).replace('\n', '\\n'), idx, r['conn']),
                    'full_sequence_stdin': seq_text(steps[:r['step'] + 1])})
        res.violation(obj)
    return viol


# ------------------------------------------------------------------------------------------ bends sweep
def parse_sweep(out, ncol):
    rows = {}
    for l in out.split('\n'):
        t = l.split()
        if len(t) >= ncol:
            rows[tuple(int(v) for v in t[:7])] = [int(v) for v in t[7:]]
    return rows


def case_of(key):
    bx, by, s, dx, dy, cd, dd = key
    return {'curr': [bx / 4.0, by / 4.0], 'dest': [(bx + s * dx) / 4.0, (by + s * dy) / 4.0],
            'currDir': DIRN[cd], 'destDir': DIRN[dd], 'currDir_mask': cd, 'destDir_mask': dd}


def run(tier):
    res = C.Result(PID, tier, 'proof')
    info = C.prove(res, PID, gen_modules=['Geometry', 'Bends'])
    res.assumptions = [
        'binary64 comparisons of coordinates equal exact comparisons (bends() only compares; validated by the exhaustive sweep)',
        'cpp2v translates the fragment faithfully (validated by the same sweep, every run)',
        'an optimal orthogonal path exists on the Hanan grid (classical, not proved); the grid oracle is proved sound and optimal over all walks of '
        'its own grid graph (grid_oracle_optimal: blocked = interior of the union of the rectangles)',
    ]
    R = 2 if tier == 'quick' else 3
    exe = build_harness_retry('c05_bends', ['libavoid'], 'exc')
    spec_exe = C.ocaml_build('c05spec', 'C05spec.v', 'c05_spec_driver.ml', 'c05_spec.ml')
    rc, cpp_out, err, dt = C.sh([exe, 'bends', str(R)], timeout=600)
    cpp = parse_sweep(cpp_out, 8)
    rc2, spec_out, err2, dt2 = C.sh([spec_exe, 'bends', str(R)], timeout=900)
    spec = parse_sweep(spec_out, 10)
    evals, spec_viol, corr = 0, 0, []
    hist = {}
    samples = []
    if rc != 0 or not cpp:
        res.violation({'what': 'harness c05_bends bends failed (assertion in Avoid::bends?)', 'rc': rc, 'stderr': err[-1500:]}, no_input=True)
        return res.finish()
    for key, (v,) in sorted(cpp.items()):
        bx, by, s, dx, dy, cd, dd = key
        evals += 1
        if dx == 0 and dy == 0:
            continue
        sv, bfs, wok = spec[key]
        hist[v] = hist.get(v, 0) + 1
        if len(samples) < 4 and (dx, dy, cd, dd) in ((1, 0, 2, 2), (-1, 0, 2, 2), (1, 1, 1, 2), (0, -2, 8, 2)):
            c = case_of(key); c['bends'] = v; samples.append(c)
        if bfs != -1 and (bfs != sv or wok != 1):
            corr.append({'what': 'closed-form spec disagrees with the brute-force search / witness invalid', 'case': case_of(key),
                         'spec': sv, 'bfs': bfs, 'witness_ok': wok})
        if v != sv:
            c = case_of(key)
            c.update({'implementation_bends': v, 'true_minimum_bends': sv, 'brute_force_minimum': bfs,
                      'replay': 'harness/c05_bends.cpp bends %d : line "%d %d %d %d %d %d %d"; Avoid::bends(Point(%g,%g), %d, Point(%g,%g), %d)'
                                % ((R,) + key + (c['curr'][0], c['curr'][1], cd, c['dest'][0], c['dest'][1], dd))})
            if v == -98:
                c['what'] = 'Avoid::bends raised an assertion failure (a COLA_ASSERT in bends / dirLeft / dirRight / dirReverse was reached)'
                if spec_viol < 3:
                    res.violation(c)
                spec_viol += 1
            elif v > sv:
                c['what'] = ('the bend-count estimate EXCEEDS the true minimum number of bends (a path of the class with %d bends exists: '
                             'BendsSpec.witness)' % sv)
                if spec_viol < 3:
                    res.violation(c)
                spec_viol += 1
            else:
                c['what'] = 'bends() is below the proved closed form (still admissible, but the proved equality no longer holds)'
                corr.append(c)
    # translator validation
    gen_diffs = []
    try:
        gen_exe = C.ocaml_build('c05gen', 'C05gen.v', 'c05_gen_driver.ml', 'c05_gen.ml')
        rc3, gen_out, err3, dt3 = C.sh([gen_exe, str(R)], timeout=600)
        gen = parse_sweep(gen_out, 9)
        for key, (v,) in sorted(cpp.items()):
            evals += 1
            g = gen.get(key)
            if g is None or g[0] != v:
                c = case_of(key); c.update({'cpp': v, 'gen': g}); gen_diffs.append(c)
            elif g[1] != 1 and not (key[3] == 0 and key[4] == 0):
                c = case_of(key); c.update({'what': 'generated bends_asserts_ok is false: COLA_ASSERT reachable', 'gen': g}); gen_diffs.append(c)
    except RuntimeError as e:
        gen_diffs.append({'what': 'generated code does not build', 'error': str(e)[-1500:]})

    # ---------------------------------------------------------------- V-run on real routes
    rng = C.SplitMix64(res.seed)
    nscenes = 1200 if tier == 'quick' else 5000
    route_stats = {'routes': 0, 'bends_hist': {}, 'by_penalty': {}, 'scenes': 0, 'with_detour': 0}
    route_viol = 0
    machinery = []
    # several routings in one process with different parameters (corpus regressions first; own random stream)
    qstats = {'agree': 0, 'with_detour': 0, 'optimum_changed_with_penalty': 0, 'by_op': {}, 'penalties': {}}
    seq_viol = run_seq_family(res, exe, spec_exe, C.SplitMix64(res.seed ^ 0xC0565E9), tier, qstats, machinery)
    route_viol += seq_viol
    evals += qstats.get('routes', 0)
    for pen in PENALTIES:
        scenes = []
        for i in range(nscenes):
            # three families: sparse (design-time distribution), dense (most routes need a detour), corridors
            scenes.append(corridor_scene(rng) if i % 4 == 3 else
                          gen_scene(rng, 30) if i % 4 == 0 else gen_scene(rng, 14, 9, 7))
        scenes = [s for s in scenes if s[1]]
        recs, dtc, dto = run_routes(exe, spec_exe, scenes, pen)
        route_stats['scenes'] += len(scenes)
        route_stats['by_penalty'][pen] = {'routes': len(recs), 'router_s': round(dtc, 2), 'oracle_s': round(dto, 2)}
        for r in recs:
            route_stats['routes'] += 1
            evals += 1
            if 'route' in r and all(p[0] is not None and p[1] is not None for p in r['route']):
                b = route_bends(r['route'])
                route_stats['bends_hist'][b] = route_stats['bends_hist'].get(b, 0) + 1
                if b >= 2:
                    route_stats['with_detour'] += 1
            j = judge(r)
            if j is None:
                if len(samples) < 7 and 'route' in r and route_bends(r['route']) >= 2:
                    samples.append({'boxes': r['boxes'], 'src': r['src'], 'dst': r['dst'], 'penalty': pen, 'route': r['route'],
                                    'cost': r['impl_cost'], 'oracle_cost': r['oracle_cost']})
                continue
            kind, no_input = j
            obj = {'what': kind, 'rectangles_x0y0x1y1': r['boxes'], 'src': r['src'], 'dst': r['dst'], 'segmentPenalty': pen,
                   'route': r.get('route_text'), 'route_cost': r.get('impl_cost'), 'oracle_cost': r.get('oracle_cost'),
                   'oracle_path': r.get('oracle_path'), 'error': r.get('error'),
                   'replay': 'printf "S %d %d 1\\n%s\\n%d %d %d %d 15 15\\nE\\n" | build/bin/c05_bends-* routes   (orthogonal routing, idealNudgingDistance 0, route())'
                             % (pen, len(r['boxes']), '\\n'.join('%d %d %d %d' % b for b in r['boxes']), r['src'][0], r['src'][1], r['dst'][0], r['dst'][1])}
            if no_input:
                machinery.append(obj)
            else:
                if route_viol < 3:
                    res.violation(obj)
                route_viol += 1
    dstats = {'routes': 0, 'agree': 0, 'with_detour': 0, 'by_penalty': {}, 'flag_pairs': set(), 'known': {}}
    dirs_viol = run_dirs_family(res, exe, spec_exe, rng, tier, dstats, machinery)
    route_viol += dirs_viol
    evals += dstats['routes']
    dstats['flag_pairs'] = len(dstats['flag_pairs'])
    res.cov.update({
        'direction_restricted_family': dict(dstats, what='framed scenes (4 frame rectangles + 1-4 rectangles), one orthogonal connector between free endpoints, all 15 x 15 '
                                            'non-empty ConnDirFlags combinations at source and target, segmentPenalty 0.5 / 10 / 50 / 400; raw route() checked by check_path_dirs '
                                            '(flags honoured, obstacle-free) and compared with oracle_dirs (grid_oracle_optimal); known = cases explained by the classifiers '
                                            'sight_line_model / has_reversal', violations=dirs_viol),
        'parameter_sequence_family': dict(qstats, what='several routings in ONE process with different segmentPenalty values (new Router per scene and the same Router '
                                                  're-parameterised: setRoutingParameter + processTransaction / makePathInvalid / moveShape), penalties alternating '
                                                  'large / small; every step judged by the verified route checker + grid oracle with the penalty in force; '
                                                  'optimum_changed_with_penalty = same connector and scene, different bend count after a re-parameterisation', violations=seq_viol),
        'evaluations': evals,
        'distinct_nontrivial': sum(1 for k in cpp if not (k[3] == 0 and k[4] == 0)) + route_stats['with_detour'] + dstats['with_detour'] + qstats['with_detour'],
        'rule': 'bends sweep: exhaustive over all relative positions in {-%d..%d}^2 x 16 direction pairs x 3 base points/scales '
                '(non-trivial = curr != dest); routes: non-trivial = routes with at least 2 bends (a detour round a rectangle)' % (R, R),
        'exhaustive': True, 'samples': samples, 'traces_validated_against_impl': evals,
        'bends_value_histogram': hist, 'route_stats': route_stats,
        'translator_validation': {'disagreements': gen_diffs[:5]},
        'spec_comparison': {'violations': spec_viol, 'spec_vs_bruteforce_or_weaker': corr[:5]},
        'route_violations': route_viol, 'oracle_machinery_problems': machinery[:3]})
    if spec_viol == 0 and route_viol == 0 and (not info['ok'] or gen_diffs or corr or machinery):
        res.violation({'what': 'proof obligation / translator correspondence / oracle no longer checks; exhaustive sweep of Avoid::bends against '
                               'the closed form and the route comparison found no input on which the property itself fails',
                       'broken_files': info.get('broken'), 'broken_lemmas': info.get('broken_lemmas'),
                       'unsupported': info.get('unsupported'), 'forbidden': info.get('forbidden'),
                       'translator_disagreements': gen_diffs[:5], 'spec_disagreements': corr[:5],
                       'oracle_machinery_problems': machinery[:3], 'coq_log_tail': info['log'][-3000:]}, no_input=True)
    return res.finish()


def replay(path):
    print(open(path).read())
    return 0


def warm():
    build_harness_retry('c05_bends', ['libavoid'], 'exc')
    C.ocaml_build('c05spec', 'C05spec.v', 'c05_spec_driver.ml', 'c05_spec.ml')
    C.ocaml_build('c05gen', 'C05gen.v', 'c05_gen_driver.ml', 'c05_gen.ml')


META = {
    'property_id': PID,
    'level_claimed': {
        'category': 'proof',
        'text': 'Coq theorems over the Gallina definitions that tools/cpp2v.py regenerates from makepath.cpp on every run '
                '(orthogonalDirection, orthogonalDirectionsCount, dirLeft/Right/Reverse, bends, CostDirection*): bends() equals a '
                'hand-written closed-form minimum bend count for all rational curr != dest and all 16 pairs of single directions; '
                'it is a lower bound on the bends of EVERY orthogonal path with positive-length segments that never doubles back '
                '(state semantics of the search: may turn at once at curr, last turn may be made at dest), hence in every scene '
                '(obstacles only remove paths); it is attained in the free plane by a path with perpendicular consecutive segments; '
                'the COLA_ASSERTs of bends/dir* are unreachable; the arithmetic of estimatedCostSpecific (manhattan + penalty * min over '
                'allowed arrival directions, and the initial-point branch) is admissible.  "The search finds the minimum-cost route" is '
                'PARTIAL: a verified route checker (axis-parallel, obstacle-avoiding, endpoints, cost) and a grid-search oracle proved '
                'SOUND (its cost is realised by a checked path) and OPTIMAL over every walk of the Hanan-grid graph it searches (relaxation fixpoint) '
                'are run against the real raw routes, also for direction-restricted free endpoints (all 15 x 15 ConnDirFlags combinations, framed scenes); the Hanan-grid sufficiency fact and the A* / '
                'scan-line graph are validated by cost equality only.',
        'design_ref': 'DESIGN.md 5.5'},
    'level_note': 'Trusted: Coq kernel; cpp2v.py + clang JSON AST (validated every run by the exhaustive three-way sweep compiled Avoid::bends / '
                  'extracted Gen / extracted closed form + brute-force BFS over {-2..2}^2 x 16 direction pairs x 3 base points); exact-rational model of '
                  'binary64 comparisons; extraction (ExtrOcamlBasic) and the OCaml/C++ drivers. estimatedCostSpecific is a hand model of '
                  'makepath.cpp:795-853 calling the generated functions (not translated: it reads ConnRef/VertInf). Not proved: Hanan-grid sufficiency '
                  '(named assumption of C05_grid_oracle_optimal; for direction-restricted endpoints the reference class IS the Hanan-grid walks: in the plane the '
                  'infimum is not attained when an endpoint must leave away from its target) and the A* search. Direction restrictions of free endpoints (ConnDirFlags) are exercised in FRAMED scenes only '
                  '(an endpoint that is first / last in a sweep silently gets extra visibility: fixConnectionPointVisibilityOnOutsideOfVisibilityGraph); convention of oracle_dirs / '
                  'check_path_dirs: the first segment leaves the source in an allowed direction, the last one arrives travelling opposite to an allowed flag of the target, no turn at an '
                  'endpoint, no move into the source or out of the target (gwalk). Calibration on HEAD: ~94% of such routes have exactly the oracle cost; ~5% are dearer and exactly optimal in the '
                  'Python model of libavoid\'s search space (classifier sight_line_model, NOT trusted for a verdict: known finding restricted_endpoint_search_space), ~2% run over their own '
                  'endpoint (known finding restricted_endpoint_route_doubles_back). Shape connection pins are C11\'s subject; touching rectangles are outside the '
                  'generated domain (the oracle blocks shared sides: interior of the union). Per-process state: the sweep / scene / direction families use ONE segmentPenalty per harness '
                  'process, so a value cached across searches (function-local static, seeded C05-6) is invisible to them; the parameter-sequence family (`c05_bends seq`, '
                  'corpus/c05_seq.json + 80 generated sequences of 2-4 scenes x 0-3 re-parameterisations, penalties alternating between {50,300,400} and {0.5,1,2}, sometimes 10) routes several '
                  'scenes with different penalties in one process, each judged with the penalty in force; a failing step is minimised to (earlier step, failing step) as two new Routers. segmentPenalty 0 '
                  'is outside the domain (COLA_ASSERT(segmentPenalty > 0) in estimatedCostSpecific, makepath.cpp:796). libavoid HEAD has no mutable statics in makepath / router / orthogonal.cpp; '
                  'reproducibility under heap / address perturbation is C20. A bends() value BELOW the closed form is reported as a broken '
                  'equality proof without failing input (it is still admissible); a value above it, or an assertion, is a violation with the input.',
    'technique': 'Coq proof over cpp2v-regenerated Gallina + exhaustive sweep + verified checker / sound grid oracle on real raw routes',
}
