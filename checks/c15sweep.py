"""C15, second part: every library under ASan+UBSan+LSan through the harnesses and generators of the other properties.

A *unit* = one harness of another property, built with the sanitizers, plus a modest option-covering sample of the inputs
that property's own generator produces (imported, not duplicated).  Every input is run in its own process, so a
sanitizer report / failed assertion / leak report is attributed to exactly one input, which is the replay.
Builds use the flavour 'c15asan' (= the libraries' default configuration, COLA_ASSERT = assert(), plus
-fsanitize=address,undefined): a failed internal assertion aborts with `file:line: func: Assertion 'expr' failed`, which is
fingerprinted like the exception text of the 'asan-exc' lifecycle harness (assert:<file>:<expr>).
Exceptions that the API documents (UnsatisfiedConstraint, UnsatisfiableException, InvalidVariableIndexException,
InvalidConstraint, std::runtime_error / out_of_range from the TGLF parser ...) are caught by the harnesses and are no failure."""
import os, re, json, collections
from concurrent.futures import ThreadPoolExecutor
from vlib import common as C

# 'c15asan' = address+undefined sanitizers, assertions abort (no USE_ASSERT_EXCEPTIONS).  A name of its own: the build cache
# evicts `<lib>-<flavor>-*`, so a flavour called 'asan' would evict the 'asan-exc' libraries of the lifecycle harness.
FLAVOR = 'c15asan'
SAN_ENV = {'ASAN_OPTIONS': 'detect_leaks=1:halt_on_error=1:abort_on_error=0:allocator_may_return_null=1',
           'UBSAN_OPTIONS': 'print_stacktrace=1:halt_on_error=0'}
# innermost frame whose source file belongs to one of the five libraries (whatever the namespace)
_FRAME = re.compile(r'#\d+ 0x[0-9a-f]+ in ([^\n]*?) (/[^\n ]*/cola/lib\w+/(\w+\.(?:cpp|h))):\d+')


class _Fr:
    def __init__(self, func, file):
        self.func, self.file = func, file

    def group(self, i):
        return self.func if i == 1 else self.file


def lib_frame(text):
    """(function, file) of the innermost library frame in a sanitizer stack: arguments and a leading return type are dropped"""
    m = _FRAME.search(text)
    if not m:
        return None
    f = m.group(1).replace('operator()', 'operator!call')
    f = f.split('(')[0].strip()
    f = re.sub(r'<[^<>]*>', '', re.sub(r'<[^<>]*>', '', f))          # template arguments (two levels)
    f = f.split(' ')[-1].replace('operator!call', 'operator()')
    return _Fr(f, m.group(3))


def norm_expr(e):
    return e.strip()[:60].replace(' ', '_')


def leak_sites(err):
    """every distinct allocation site (innermost library frame) of the directly leaked blocks of a LeakSanitizer report,
    as fingerprints 'leak:<file>:<function>'; indirectly leaked blocks count only when no direct leak has a library frame"""
    blks = [b for b in re.split(r'\n(?=(?:Direct|Indirect) leak of)', err) if re.match(r'(Direct|Indirect) leak', b)]
    out = []
    for direct in (True, False):
        for blk in blks:
            if blk.startswith('Direct') != direct:
                continue
            fr = lib_frame(blk)
            if fr:
                fp = 'leak:%s:%s' % (fr.group(2), fr.group(1).strip())
                if fp not in out:
                    out.append(fp)
        if out:
            break
    return sorted(out)


def fingerprints(rc, out, err):
    """all fingerprints of a run: one for a crash / assertion, one per leak site for a leak report"""
    fp = fingerprint(rc, out, err)
    if fp and fp.startswith('leak:') and fp != 'leak:harness':
        return leak_sites(err)
    return [fp] if fp else []


def fingerprint(rc, out, err):
    """kind of failure + innermost library frame / assertion site; None when the run is clean.
    Same scheme as checks/c15.py (the lifecycle path), extended by abort()-style assertions."""
    child = re.search(r'^(?:ENDSCENE \S+ (?:signal|exit|timeout)|CRASH)[^\n]*', out, re.M)     # forked children of c13 / c18 / c19 harnesses
    if rc == 0 and 'runtime error' not in err and 'ERROR' not in err and 'Assertion' not in err and not child:
        return None
    a = re.search(r'expression: ([^\n]*)\n\s*at line (\d+) of ([^\n]*)', out + '\n' + err)
    if a:
        return 'assert:%s:%s' % (os.path.basename(a.group(3).strip()), norm_expr(a.group(1)))
    a = re.search(r'(\w+\.(?:cpp|h)):(\d+): [^\n]*Assertion [`\']([^\n]*)\' failed', err)
    if a:
        return 'assert:%s:%s' % (a.group(1), norm_expr(a.group(3)))
    m = re.search(r'ERROR: (\w+Sanitizer): (attempting )?([\w-]+)', err)
    if m and m.group(1) != 'LeakSanitizer':
        kind = m.group(3)
        fr = lib_frame(err)
        return '%s:%s:%s' % (kind, fr.group(2) if fr else '?', fr.group(1).strip() if fr else '?')
    if 'LeakSanitizer' in err or 'leaked in' in err:
        sites = leak_sites(err)
        return sites[0] if sites else 'leak:harness'          # 'leak:harness': every leaked block was allocated by the harness itself
    u = re.search(r'(\w+\.(?:cpp|h)):\d+:\d+: runtime error: ([^\n]*)', err)
    if u:
        return 'ub:%s:%s' % (u.group(1), re.sub(r'0x[0-9a-f]+|\d+', 'N', u.group(2))[:60].replace(' ', '_'))
    if 'terminate called' in err:
        t = re.search(r"instance of '([^']*)'", err)
        return 'terminate:' + (t.group(1) if t else '?')
    if rc == 124:
        return 'timeout'
    h = re.search(r'^HANG (\S+)', out, re.M)            # CPU-time watchdog of the c07 / c08 harnesses (exit 3)
    if h:
        return 'hang:' + h.group(1)
    if child and rc == 0:
        return 'child:' + re.sub(r'\s+', '_', re.sub(r'^ENDSCENE \S+ ', '', child.group(0)))[:40]
    return 'rc=%d' % rc


PRECONDITION_ASSERTS = {
    # TriConstraint's constructor asserts a feasible start (documented precondition); C13's tri generator produces infeasible starts on purpose
    ('topology', 'tri'): ['assert:topology_constraints.cpp:fabs(p)>1e7||slackAtInitial()>-1e-3'],
}


def refine(job, fp, out, err):
    """classifier predicates evaluated on the failing case: narrows a fingerprint to the circumstances of a known root cause (so that
    the same allocation site leaking under OTHER circumstances is not masked), returns None for an input outside the documented
    precondition, 'delegated:<P>:<fp>' for self-check assertions that the owning property already classifies"""
    u, mode = job.unit, job.opts.get('mode')
    if fp in PRECONDITION_ASSERTS.get((u, mode), ()):
        return None
    if u in ('topology', 'topology.cycle') and fp.startswith('assert:topology_') and mode in ('scenes', 'layout'):
        # libtopology's own end-of-solve self checks (assertNoSegmentRectIntersection, assertConvexBend, assertFeasible ...) on the
        # lattice-aligned scene families / random layouts: the subject of C13, whose check runs the same families with its classifiers
        # (lattice_corridor_tie, rare_segment_through_node, lattice_degenerate_residual) and rate limits; here only counted and bounded
        return 'delegated:C13:' + fp
    if u == 'vpsc.solver' and fp.startswith('leak:blocks.cpp:vpsc::Blocks::') and job.opts.get('solver') == 'Solver' and 'throw_unsatisfied' in out:
        return 'leak:solve_VPSC.cpp:vpsc::Solver::satisfy:order_list_after_unsatisfied_throw'
    if u == 'cola.cc' and job.opts.get('c07_divergence_domain') and \
            fp in ('assert:rectangle.h:fabs(width()-w)<1e-9', 'assert:rectangle.h:fabs(height()-h)<1e-9', 'hang:majorization-run'):
        # C07's classifier of its known finding, evaluated on the failing case (c07.majorization_divergence_domain)
        return 'majorization_fixedrelative_overlap_divergence'
    if u in ('cola.cc', 'cola.nonoverlap') and fp == 'hang:makeFeasible' and job.opts.get('overlap') and job.opts.get('makefeasible'):
        return 'makefeasible_hang_unsat_nonoverlap'
    if u == 'cola.cc' and fp == 'leak:gradient_projection.cpp:cola::GradientProjection::destroyVPSC' and 'Majorization' in str(mode):
        return fp + ':unsatisfiable_infos_of_earlier_iterations'
    return fp


class Job:
    __slots__ = ('unit', 'label', 'exe', 'argv', 'stdin', 'opts', 'ok_rc', 'timeout')

    def __init__(self, unit, label, exe, argv, stdin, opts=None, ok_rc=(0,), timeout=120):
        self.unit, self.label, self.exe, self.argv, self.stdin = unit, label, exe, list(argv), stdin
        self.opts, self.ok_rc, self.timeout = opts or {}, ok_rc, timeout

    def replay(self):
        return {'unit': self.unit, 'label': self.label, 'harness': os.path.basename(self.exe), 'argv': self.argv,
                'stdin': self.stdin if len(self.stdin or '') < 6000 else self.stdin[:6000] + '...[truncated]',
                'options': self.opts,
                'how': 'feed `stdin` to build/bin/%s %s with ASAN_OPTIONS=detect_leaks=1' % (os.path.basename(self.exe), ' '.join(self.argv))}


def run_job(j):
    env = dict(SAN_ENV)
    if j.opts.get('leak_detection') == 'off':
        env['ASAN_OPTIONS'] = env['ASAN_OPTIONS'].replace('detect_leaks=1', 'detect_leaks=0')
    rc, out, err, dt = C.sh([j.exe] + j.argv, input=j.stdin, env=env, timeout=j.timeout)
    if rc in j.ok_rc and rc != 0 and 'Sanitizer' not in err and 'runtime error' not in err:
        rc = 0
    return rc, out, err, dt


# ------------------------------------------------------------------------------------------------------------------ units
# each unit: f(rng, n) -> list of Job.  n = number of generated inputs wanted (the unit adds its fixed option-covering
# cases on top).  Units import the generators of the owning checks.

def unit_rect(rng, n):
    """libvpsc: removeoverlaps(rs, fixed, thirdPass) with thirdPass in {false, true}, fixed sets empty / some / all,
    generateX/YConstraints with and without neighbour lists; degenerate inputs (empty set, one rectangle, identical
    rectangles, sub-unit rectangles)"""
    from checks import rectlib as L
    exe = C.build_harness('c09_rect', ['libvpsc'], FLAVOR)
    jobs = []

    def add(label, line, opts):
        jobs.append(Job('vpsc.rect', label, exe, [], line + '\n', opts))
    fixedcases = [L.Inst(1, [], family='empty'), L.Inst(1, [(0, 2, 0, 2)], family='single'),
                  L.Inst(1, [(0, 2, 0, 2), (1, 3, 1, 3)], family='pair'),
                  L.Inst(1, [(0, 2, 0, 2)] * 4, family='identical4'),
                  L.Inst(1024, [(0, 1, 0, 1), (0, 1, 0, 1), (0, 1024, 0, 1)], family='tiny'),
                  L.Inst(1, [(0, 40, 0, 30), (10, 50, 5, 35), (-5, 35, 20, 50), (200, 240, 0, 30), (200, 240, 28, 58), (205, 245, 50, 80)],
                         family='two-piles')]
    insts = fixedcases + [L.gen_instance(rng.fork(), big=(k % 12 == 11)) for k in range(n)]
    for k, inst in enumerate(insts):
        r = rng.fork()
        nn = inst.n()
        for third in (0, 1):
            sel = r.below(4)
            fixed = [] if sel == 0 or nn == 0 else ([0] if sel == 1 else (sorted(set(r.below(nn) for _ in range(r.range(1, nn)))) if sel == 2 else list(range(nn))))
            add('R#%d:%s' % (k, inst.family), L.cmd_R_impl(inst, fixed, third), {'removeoverlaps.thirdPass': bool(third), 'fixed': fixed, 'n': nn})
        mode = r.below(3)
        add('G#%d:%s' % (k, inst.family), L.cmd_G_impl(inst, mode), {'generateConstraints.mode': L.MODES[mode], 'n': nn})
    return jobs


def _vpsc_jobs(unit, exe, rng, n):
    from vlib import c01lib as L
    jobs = []
    insts = []
    for k in range(n):
        r = rng.fork()
        t = k % 8
        if t in (0, 1, 2):
            ins = L.gen_instance(r, k + 1, 9, 'I', True, weights=(t == 2))
        elif t == 3:
            ins = L.gen_instance(r, k + 1, 9, 'S')
        elif t == 4:
            ins = L.gen_instance(r, k + 1, 7, 'SC')
        elif t in (5, 6):
            ins = L.gen_reuse_instance(r, k + 1, 8)
        else:
            ins = L.gen_instance(r, k + 1, 30, 'I', True)
        insts.append(ins)
    Fr = L.Fr
    one = (Fr(0), Fr(1), Fr(1))
    insts += [{'id': 9001, 'kind': 'I', 'vs': [one], 'cs': [], 'ops': [('S',)], 'tag': 'one-var'},
              {'id': 9002, 'kind': 'S', 'vs': [one], 'cs': [], 'ops': [('S',)], 'tag': 'static-one-var'},
              {'id': 9003, 'kind': 'I', 'vs': [one, one], 'cs': [(0, 1, Fr(1), False), (1, 0, Fr(1), False)], 'ops': [('S',), ('F',)], 'tag': 'infeasible-2cycle'},
              {'id': 9004, 'kind': 'I', 'vs': [one, one], 'cs': [(0, 1, Fr(1), True), (0, 1, Fr(2), True)], 'ops': [('F',), ('S',)], 'tag': 'contradicting-equalities'},
              {'id': 9005, 'kind': 'I', 'vs': [one, one, one], 'cs': [(0, 1, Fr(0), False)], 'ops': [('S',), ('A', 1, 2, Fr(1), False), ('S',), ('R', [0]), ('P', 1), ('S',)], 'tag': 'reuse-fixed'}]
    for ins in insts:
        if unit.endswith('avoid') and ins['kind'] != 'I':
            continue                      # libavoid's copy has the IncSolver only
        jobs.append(Job(unit, '%s#%d' % (ins.get('tag'), ins['id']), exe, ['/dev/stdin'], L.inst_cpp_text(ins),
                        {'solver': 'IncSolver' if ins['kind'] == 'I' else 'Solver', 'ops': ''.join(o[0] for o in ins['ops'])}))
    return jobs


def unit_vpsc(rng, n):
    """libvpsc: IncSolver and the static Solver; satisfy / solve, addConstraint, desired-position and weight changes between
    solves, Variable / Constraint object re-use across successive IncSolvers; infeasible systems (documented throw)"""
    return _vpsc_jobs('vpsc.solver', C.build_harness('c01_vpsc', ['libvpsc'], FLAVOR), rng, n)


def unit_vpsc_avoid(rng, n):
    """libavoid's private copy of the IncSolver (libavoid/vpsc.cpp), same histories (flavour asan-exc: the harness needs
    vpsc::CriticalFailure, which libavoid's headers only declare with USE_ASSERT_EXCEPTIONS)"""
    return _vpsc_jobs('avoid.vpsc', C.build_harness('c01_vpsc_avoid', ['libavoid'], 'asan-exc'), rng, n)


def unit_cola_cc(rng, n):
    """libcola: every CompoundConstraint type through generateVariables / generateSeparationConstraints; ConstrainedFDLayout
    makeFeasible() / run() in every axis combination, ConstrainedMajorizationLayout::run(), overlap avoidance on and off, neighbour
    stress; rollback of non-overlap alternatives; ONE set of constraint objects re-used over several layouts (harness mode seq);
    coincident / edgeless / unsatisfiable inputs"""
    from checks import c07
    exe = C.build_harness('c07_cc', ['libcola', 'libvpsc'], FLAVOR)
    jobs = []
    for k in range(n):
        r = rng.fork()
        t = k % 8
        if t == 0:
            case = c07.gen_case_corr(r, ['mixed', 'single', 'degenerate'][(k // 8) % 3])
            jobs.append(Job('cola.cc', 'gen#%d' % k, exe, ['gen', '20'], c07.case_line(case) + '\n', {'mode': 'generate constraints'}))
        elif t in (1, 2, 3):
            case = c07.gen_layout_case(r, k)
            jobs.append(Job('cola.cc', 'layout#%d' % k, exe, ['layout', '20'], c07.case_line(case, layout=True) + '\n',
                            {'mode': c07.mode_name(case['mode']), 'overlap': bool(case.get('overlap')), 'neighbour': bool(case.get('neighbour')),
                             'c07_divergence_domain': bool(c07.majorization_divergence_domain(case)), 'makefeasible': bool(c07.m_mf(case['mode']))}))
        elif t == 4:
            case = c07.gen_rollback_case(r, k // 8)
            jobs.append(Job('cola.cc', 'rollback#%d' % k, exe, ['layout', '20'], c07.case_line(case, layout=True) + '\n',
                            {'mode': c07.mode_name(case['mode']), 'overlap': bool(case.get('overlap')), 'makefeasible': bool(c07.m_mf(case['mode']))}))
        elif t in (5, 6):
            case = c07.gen_single_axis_case(r, k // 8 + (4 if t == 6 else 0))
            jobs.append(Job('cola.cc', 'single-axis#%d' % k, exe, ['layout', '20'], c07.case_line(case, layout=True) + '\n',
                            {'mode': c07.mode_name(case['mode']), 'overlap': bool(case.get('overlap'))}))
        else:
            case = c07.gen_reuse_case(r, k // 8)
            jobs.append(Job('cola.cc', 'reuse#%d' % k, exe, ['seq', '20'], c07.seq_line(case) + '\n', {'mode': 'object re-use sequence'}))
    return jobs


def unit_cola_nonoverlap(rng, n):
    """libcola: NonOverlapConstraints / ClusterContainmentConstraints generation, ConstrainedFDLayout with overlap avoidance,
    exemption groups, cluster hierarchies (plain and RectangularCluster(rectIndex)), constraints inside clusters; the
    variable-generation path (harness mode vars)"""
    from checks import c08
    exe = C.build_harness('c08_no', ['libcola', 'libvpsc'], FLAVOR)
    jobs = []
    for k in range(n):
        r = rng.fork()
        t = k % 6
        if t == 0:
            c = c08.gen_case(r, ['mixed', 'nodes', 'degenerate'][(k // 6) % 3])
            jobs.append(Job('cola.nonoverlap', 'gen#%d' % k, exe, ['gen', '20'], c08.case_line(c) + '\n', {'mode': 'generate constraints'}))
            continue
        c = c08.gen_layout(r, k) if t in (1, 2) else (c08.gen_cluster_cc(r, k // 6) if t == 3 else c08.gen_fixedrect(r, k // 6))
        mode = 'vars' if t == 5 else 'layout'
        jobs.append(Job('cola.nonoverlap', '%s#%d' % (mode, k), exe, [mode, '20'], c08.layout_line(c) + '\n',
                        {'mode': mode, 'clusters': str(len(c.get('clusters') or [])), 'fixed_rect_cluster': bool(any(cl.get('rect', -1) >= 0 for cl in (c.get('clusters') or [])))}))
    return jobs


DIALECT_LIBS = ['libdialect', 'libcola', 'libtopology', 'libavoid', 'libvpsc']


def unit_dialect_peel(rng, n):
    """libdialect: Graph::getConnComps, peel, Tree construction + symmetricLayout in the four growth directions (harness cycles
    them), on trees / paths / stars / caterpillars / cycles with pendants / dense / disconnected graphs, incl. one- and two-node graphs"""
    from checks import c19
    exe = C.build_harness('c19_peel', DIALECT_LIBS, FLAVOR)
    gs = c19.gen_graphs(rng.fork(), 'quick')
    pick = gs[-8:] + [gs[(i * 7919) % (len(gs) - 8)] for i in range(n)]
    pick += [('edgeless1', 1, 1, []), ('edgeless3', 3, 0, []), ('single-edge', 2, 1, [(0, 1)])]
    jobs = []
    for i, (kind, nn, peel, es) in enumerate(pick):
        txt = 'G %d %d\n' % (nn, peel) + ''.join('e %d %d\n' % tuple(e) for e in es)
        jobs.append(Job('dialect.peel', '%s#%d' % (kind, i), exe, ['/dev/stdin'], txt, {'kind': str(kind).split('/')[0], 'peel': bool(peel)}))
    return jobs


def unit_dialect_tree(rng, n):
    """libdialect: Tree::symmetricLayout with growth direction E/S/W/N, preferConvexTrees on/off, node and rank separations,
    wide / tall / square / mixed node shapes"""
    from checks import c19
    exe = C.build_harness('c19_tree', DIALECT_LIBS, FLAVOR)
    ts = c19.gen_trees(rng.fork(), 'quick')
    pick = [ts[(i * 7919) % len(ts)] for i in range(n)]
    jobs = []
    for i, t in enumerate(pick):
        jobs.append(Job('dialect.tree', '%s#%d' % (t['kind'], i), exe, ['/dev/stdin'], '\n'.join(c19.tree_lines(t)) + '\n',
                        {'dir': 'dir%d' % t['dir'], 'convex': bool(t['convex'])}))
    return jobs


def unit_dialect_plan(rng, n):
    """libdialect: orthogonal routing of all edges (LeaflessOrthoRouter / RoutingAdapter / explicit routes), buffer scalar 0 and
    0.125, OrthoPlanariser::planarise, and a second planarisation of the same Graph after nodes moved (the harness forks one
    child per graph: leaks inside the child are not observed, memory errors and assertions are)"""
    from checks import c19
    exe = C.build_harness('c19_plan', DIALECT_LIBS, FLAVOR)
    gs = c19.gen_plan_graphs(rng.fork(), 'quick')
    small = [g for g in gs if g['n'] <= 16]
    pick = [small[(i * 7919) % len(small)] for i in range(min(n, len(small)))]
    jobs = []
    for i, g in enumerate(pick):
        jobs.append(Job('dialect.plan', '%s#%d' % (g['kind'], i), exe, ['/dev/stdin'], '\n'.join(c19.plan_lines(g)) + '\n',
                        {'router': 'router%d' % g['router'], 'buffer': str(g['buf']), 'second_round': bool(g.get('pos2'))}, timeout=300))
    return jobs


def unit_dialect_hola(rng, n):
    """libdialect (and through it libcola, libtopology, libavoid, libvpsc): doHOLA on trees, cycles, cores with trees, hubs, random
    connected graphs and degenerate start positions with generated HolaOpts (useACAforLinks, do_near_align, preferredAspectRatio,
    preferConvexTrees, putUlcAtOrigin, tree growth directions)"""
    from checks import c14gen as G
    exe = C.build_harness('c14_hola', C.LIBS, FLAVOR)
    jobs = []
    for k in range(n):
        fam = G.FAMILIES[k % len(G.FAMILIES)]
        case = G.gen_case(rng.fork(), fam, 14)
        jobs.append(Job('dialect.hola', '%s#%d' % (fam, k), exe, ['/dev/stdin'], G.case_text(case),
                        dict((k2, str(v)) for k2, v in case['opts'].items()), timeout=300))
    return jobs


TOPO_LIBS = ['libvpsc', 'libcola', 'libavoid', 'libtopology']


def unit_topology(rng, n):
    """libtopology: TriConstraint construction and slack functions (mode tri); whole topology-preserving layouts on random planar-ish
    graphs (mode layout, leak detection off: that mode of the harness does not free its own scene); scripted scenes MOVE / RESIZE /
    LAYOUT / DRAG over pinch, lattice, resize and drag families in all eight orientations (mode scenes: one forked child per scene
    that ends in _exit, so memory errors and assertions are observed there, leaks are not)"""
    from checks import c13, c13lib as L
    exe = C.build_harness('c13_topo', TOPO_LIBS, FLAVOR)
    jobs = []
    cases = c13.gen_tri_cases(rng.fork(), max(8, n))
    for i in range(0, len(cases), 8):
        inp = '\n'.join(' '.join(str(x) for x in c) for c in cases[i:i + 8]) + '\n'
        jobs.append(Job('topology', 'tri#%d' % i, exe, ['tri'], inp, {'mode': 'tri'}))
    q = max(1, n // 4)
    scenes = L.gen_scenes(rng.fork(), q, q, q, q)
    for k, sc in enumerate(scenes):
        jobs.append(Job('topology', 'scene:%s#%d' % (sc['family'], k), exe, ['scenes', '120'], L.script(sc),
                        {'mode': 'scenes', 'family': str(sc['family']), 'ops': ''.join(sorted(set(str(o[0])[0] for o in sc['ops'])))}, timeout=300))
    for k in range(max(2, n // 4)):
        r = rng.fork()
        V = r.range(6, 16)
        argv = ['layout', str(r.next() >> 1), str(V), str(r.range(0, V // 2)), str(r.choice([150, 250, 400, 600])), '0', str(r.choice([0, 0, 10]))]
        j = Job('topology', 'layout#%d' % k, exe, argv, '', {'mode': 'layout'}, timeout=300)
        j.opts['leak_detection'] = 'off'
        jobs.append(j)
    return jobs


def topo_cycle_case(rng, mode):
    """members of the convex clusters in an upper band, the other nodes in a lower band (so that no non-member starts inside a hull),
    every node in its own x slot (no initial overlap); random sizes and positions; layout edges among all nodes"""
    ncl = 1 if rng.chance(2, 3) else 2
    lines, clusters, nid, x = [], [], 0, 0
    for c in range(ncl):
        members = []
        for _ in range(rng.range(2, 4) if mode != 'D' else rng.range(2, 5)):
            w, h = rng.range(20, 60), rng.range(20, 50)
            x0, y0 = x + rng.range(0, 30), rng.range(0, 90)
            lines.append('r %d %d %d %d' % (x0, x0 + w, y0, y0 + h))
            members.append(nid)
            nid += 1
            x += 100
        clusters.append(members)
        x += 60
    x = rng.range(0, 80)
    for _ in range(rng.range(0, 3)):
        w, h = rng.range(20, 60), rng.range(20, 50)
        lines.append('r %d %d %d %d' % (x, x + w, 260 + rng.range(0, 60), 260 + 60 + h))
        nid += 1
        x += 100 + rng.range(0, 40)
    edges = set()
    for _ in range(rng.range(1, nid + 1)):
        a, b = rng.below(nid), rng.below(nid)
        if a != b and (b, a) not in edges:
            edges.add((a, b))
    lines += ['e %d %d' % e for e in sorted(edges)]
    lines += ['c ' + ' '.join(str(m) for m in ms) for ms in clusters]
    return 'mode %s %d\n' % (mode, rng.choice([5, 20])) + '\n'.join(lines) + '\n', {'nodes': nid, 'clusters': ncl}


def unit_topology_cycle(rng, n):
    """libtopology + libcola: life cycle of CYCLIC topology edges (cluster boundaries, last EdgePoint = first): (A) build and delete;
    (B) run a ConstrainedFDLayout with them through ColaTopologyAddon, then delete; (C) the library builds them itself for
    cola::ConvexCluster (setClusterHierarchy + setAvoidNodeOverlaps(true) + makeFeasible() + run()) and frees them in
    freeAssociatedObjects(); (D) control with open edges.  harness/c15_topo_cycle.cpp, one process per scenario, leaks observed"""
    exe = C.build_harness('c15_topo_cycle', TOPO_LIBS, FLAVOR)
    jobs = []
    demo = 'r 395 449 155 189\nr 309 363 155 189\nr 350 404 260 294\ne 0 2\ne 0 1\nc 0 1\n'
    for m in 'ABCD':
        jobs.append(Job('topology.cycle', 'fixed:%s' % m, exe, [], 'mode %s 20\n' % m + demo, {'mode': 'layout' if m in 'BC' else 'build', 'scenario': m}))
    for k in range(n):
        m = 'ABCD'[k % 4] if k % 8 < 4 else 'ABCC'[k % 4]
        txt, o = topo_cycle_case(rng.fork(), m)
        jobs.append(Job('topology.cycle', 'gen:%s#%d' % (m, k), exe, [], txt,
                        {'mode': 'layout' if m in 'BC' else 'build', 'scenario': m, 'clusters': str(o['clusters'])}, timeout=300))
    return jobs


def unit_cola_paths(rng, n):
    """libcola: floyd_warshall / johnsons / dijkstra on every graph family of C17 (weighted and unweighted, self-loops, parallel
    edges, zero weights, disconnected), ConstrainedFDLayout distance matrices incl. non-positive lengths, PairingHeap op
    sequences of both instantiations"""
    from checks import c17
    exe = C.build_harness('c17_sp', ['libcola', 'libvpsc'], FLAVOR)
    jobs = []
    fams = list(c17.S_FAMILIES)
    for k in range(n):
        r = rng.fork()
        t = k % 4
        if t in (0, 1):
            g = c17.gen_graph(r, fams[(k // 4 * 2 + t) % len(fams)], 14)
            jobs.append(Job('cola.paths', 'S:%s#%d' % (g['family'], k), exe, [], c17.graph_record('S', 's%d' % k, g), {'kind': 'shortest paths', 'weighted': bool(g['weighted'])}))
        elif t == 2:
            g = c17.gen_layout(r, 12)
            jobs.append(Job('cola.paths', 'L:%s#%d' % (g['family'], k), exe, [], c17.graph_record('L', 'l%d' % k, g), {'kind': 'layout distances', 'weighted': bool(g['weighted'])}))
        else:
            ops = c17.gen_heap(r, r.range(5, 60))
            mode = (k // 4) % 2
            jobs.append(Job('cola.paths', 'H#%d' % k, exe, [], 'H h%d %d %d\n' % (k, mode, len(ops)) + '\n'.join(ops) + '\n', {'kind': 'pairing heap', 'heap_mode': str(mode)}))
    return jobs


def unit_dialect_sep(rng, n):
    """libdialect: SepMatrix op sequences over every public mutator overload, transforms, generated vpsc constraints (modes ops, gen);
    TGLF write / read round trips incl. SepMatrix sections and external ids (mode tglf, forked children: no leak observation)"""
    from checks import c18
    exe = C.build_harness('c18_sep', DIALECT_LIBS, FLAVOR)
    jobs = []
    r = rng.fork()
    seqs, n_exh, n_ext = c18.gen_ops(r, 'quick')
    tail = seqs[n_exh:] if len(seqs) > n_exh else seqs
    pick = [tail[(i * 7919) % len(tail)] for i in range(n)] + [seqs[(i * 104729) % len(seqs)] for i in range(n)]
    for i in range(0, len(pick), 4):
        jobs.append(Job('dialect.sep', 'ops#%d' % i, exe, ['ops', '/dev/stdin'], ''.join('N\n' + '\n'.join(sq) + '\n' for sq in pick[i:i + 4]), {'mode': 'ops'}))
    cases = c18.gen_cases(rng.fork(), 'quick')
    pc = [cases[(i * 7919) % len(cases)] for i in range(4 * n)]
    for i in range(0, len(pc), 16):
        jobs.append(Job('dialect.sep', 'gen#%d' % i, exe, ['gen', '/dev/stdin'], '\n'.join(c18.case_line(c) for c in pc[i:i + 16]) + '\n', {'mode': 'gen'}))
    gs = c18.gen_tglf(rng.fork(), 'quick')
    for i in range(min(n, len(gs))):
        g = gs[(i * 7919) % len(gs)]
        jobs.append(Job('dialect.sep', 'tglf:%s#%d' % (g['family'], i), exe, ['tglf', '/dev/stdin'], '\n'.join(g['lines']) + '\n', {'mode': 'tglf', 'ext_ids': bool(g.get('use_ext'))}))
    return jobs


UNITS = collections.OrderedDict([
    ('vpsc.rect', (unit_rect, 120, 600)),
    ('vpsc.solver', (unit_vpsc, 160, 1200)),
    ('avoid.vpsc', (unit_vpsc_avoid, 64, 400)),
    ('cola.cc', (unit_cola_cc, 200, 1600)),
    ('cola.nonoverlap', (unit_cola_nonoverlap, 150, 1200)),
    ('cola.paths', (unit_cola_paths, 100, 600)),
    ('topology', (unit_topology, 96, 600)),
    ('topology.cycle', (unit_topology_cycle, 40, 400)),
    ('dialect.sep', (unit_dialect_sep, 60, 300)),
    ('dialect.peel', (unit_dialect_peel, 100, 600)),
    ('dialect.tree', (unit_dialect_tree, 100, 400)),
    ('dialect.plan', (unit_dialect_plan, 30, 90)),
    ('dialect.hola', (unit_dialect_hola, 72, 600)),
])


def corpus_jobs(only=None):
    """minimised reproducers of the findings of earlier sweeps (corpus/c15_sweep_cases.json), run first"""
    p = os.path.join(C.VERIF, 'corpus', 'c15_sweep_cases.json')
    jobs = []
    if not os.path.exists(p):
        return jobs
    exes = {}
    for k, c in enumerate(json.load(open(p))):
        u = c['unit']
        if u not in UNITS or (only and u not in only):
            continue
        if u not in exes:
            exes[u] = UNITS[u][0](C.SplitMix64(1), 1)[0].exe
        jobs.append(Job(u, 'corpus#%d' % k, exes[u], c['argv'], c['stdin'], dict(c.get('options') or {}), timeout=300))
    return jobs


def build_all():
    """pre-build every harness (setup.sh / warm)"""
    rng = C.SplitMix64(1)
    for name, (f, nq, nt) in UNITS.items():
        f(rng.fork(), 1)


def sweep(res, tier, rng, reports, only=None):
    """run every unit; every distinct (unit, fingerprint) failure is appended to `reports` as (replay object, fingerprint, unit,
    no_input) - the caller emits them (unknown ones first); returns the coverage dict for the evidence"""
    jobs = []
    build_errors = {}
    try:
        jobs += corpus_jobs(only)
    except RuntimeError as e:
        build_errors['corpus'] = str(e)[-1500:]
    for name, (f, nq, nt) in UNITS.items():
        if only and name not in only:
            continue
        try:
            jobs += f(rng.fork(), nq if tier == 'quick' else nt)
        except RuntimeError as e:
            build_errors[name] = str(e)[-1500:]
    with ThreadPoolExecutor(C.NPROC) as ex:
        results = list(ex.map(run_job, jobs))
    per_unit = collections.OrderedDict()
    seen = {}
    delegated, hola_asserts = {}, []
    for j, (rc, out, err, dt) in zip(jobs, results):
        u = per_unit.setdefault(j.unit, {'inputs': 0, 'clean': 0, 'failures': {}, 'wall_s': 0.0, 'options': collections.Counter()})
        u['inputs'] += 1
        u['wall_s'] += dt
        for k, v in j.opts.items():
            if isinstance(v, (bool, str)):
                u['options']['%s=%s' % (k, v)] += 1
        fps = [f for f in (refine(j, f0, out, err) for f0 in fingerprints(rc, out, err)) if f]
        fps = sorted(set(fps))
        if not fps:
            u['clean'] += 1
            continue
        for fp in fps:
            u['failures'][fp] = u['failures'].get(fp, 0) + 1
            if fp.startswith('delegated:'):
                delegated.setdefault(j.unit, []).append((fp, j))
                continue
            if j.unit == 'dialect.hola' and fp.startswith('assert:'):
                hola_asserts.append(fp)
            if (j.unit, fp) in seen:
                continue
            seen[(j.unit, fp)] = 1
            if fp.startswith('leak:'):
                # the part of the report that belongs to this site
                blks = [bl for bl in re.split(r'\n(?=(?:Direct|Indirect) leak of)', err) if re.match(r'(Direct|Indirect) leak', bl)]
                mine = [bl for bl in blks if (lambda fr: fr and 'leak:%s:%s' % (fr.group(2), fr.group(1).strip()) == fp)(lib_frame(bl))]
                rep = '\n'.join('\n'.join(bl.split('\n')[:12]) for bl in mine[:2])[:3000]
            else:
                rep = '\n'.join(l for l in err.split('\n') if re.match(r'\s+#[0-9] ', l) or 'SUMMARY' in l or 'ERROR' in l or 'Assertion' in l
                                or 'runtime error' in l or 'leak of' in l)[:3000]
            obj = j.replay()
            obj.update({'what': 'sanitizer report / failed assertion / leak on a valid input of another property\'s harness',
                        'report': rep, 'stdout_tail': out[-300:]})
            reports.append((obj, fp, j.unit, False))
    # bounds on what is left to the owning properties
    for unit, lst in delegated.items():
        n_in = sum(1 for j in jobs if j.unit == unit and j.opts.get('mode') in ('scenes', 'layout'))
        bound = max(3, n_in // 8)
        per_unit[unit]['delegated_to_owning_property'] = {'count': len(lst), 'bound': bound}
        if len(lst) > bound:
            fp, j = lst[0]
            obj = j.replay()
            obj.update({'what': '%d of %d %s inputs trip a self-check assertion of the library (bound %d): far above the rate of the known findings of the '
                                'owning property' % (len(lst), n_in, unit, bound), 'sites': sorted(set(f for f, _ in lst))})
            reports.append((obj, 'assertion_rate:' + unit, unit, False))
    n_hola = sum(1 for j in jobs if j.unit == 'dialect.hola')
    if n_hola and len(hola_asserts) > max(2, n_hola // 12):
        reports.append(({'what': '%d of %d doHOLA runs end in a failed assertion (C14 bounds its blanket known finding at 3%%)' % (len(hola_asserts), n_hola),
                         'sites': sorted(set(hola_asserts))}, 'assertion_rate:dialect.hola', None, True))
    for u in per_unit.values():
        u['wall_s'] = round(u['wall_s'], 1)
        u['options'] = dict(u['options'])
    for name, e in build_errors.items():
        reports.append(({'what': 'harness of unit %s does not build against this tree' % name, 'error': e}, None, None, True))
    return {'units': per_unit, 'jobs': len(jobs), 'distinct_inputs': len(set((j.unit, tuple(j.argv), j.stdin) for j in jobs)),
            'samples': [jobs[i].replay() for i in sorted(set([0, len(jobs) // 2, len(jobs) - 1]))] if jobs else [],
            'unit_docs': {name: (f.__doc__ or '').strip() for name, (f, a, b) in UNITS.items()}}
