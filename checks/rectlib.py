"""Shared by checks/c09.py and checks/c20.py: rectangle-set generators, runners for harness/c09_rect.cpp and the
extracted model driver (extract/c09_driver.ml), parsers, and the declarative oracle of C09 on real outputs."""
import itertools
from fractions import Fraction as F
from vlib import common as C

MODES = {0: 'generateYConstraints', 1: 'generateXConstraints(useNeighbourLists=false)',
         2: 'generateXConstraints(useNeighbourLists=true)'}


# ------------------------------------------------------------------------------------------ instances
class Inst:
    """rectangles as integer quadruples (minX,maxX,minY,maxY) over a power-of-two scale; borders likewise"""

    def __init__(self, scale, rects, xb=0, yb=0, family=''):
        self.scale, self.rects, self.xb, self.yb, self.family = scale, [tuple(r) for r in rects], xb, yb, family

    def n(self):
        return len(self.rects)

    def flat(self):
        return ' '.join('%d %d %d %d' % r for r in self.rects)

    def centres(self, dim):
        return [F(r[0] + r[1], 2) if dim == 0 else F(r[2] + r[3], 2) for r in self.rects]

    def has_tie(self, mode):
        c = self.centres(1 if mode == 0 else 0)
        return len(set(c)) < len(c)

    def to_json(self):
        return {'scale': self.scale, 'xBorder': '%d/%d' % (self.xb, self.scale), 'yBorder': '%d/%d' % (self.yb, self.scale),
                'rects_minX_maxX_minY_maxY_over_scale': [list(r) for r in self.rects], 'family': self.family,
                'rects_float': [[v / self.scale for v in r] for r in self.rects]}


def gen_instance(rng, big=False):
    """structured generator aimed at the case splits: ties of centres, ties of event positions, identical, nested,
    chains, thin rectangles, generic position, padded (non-zero border)"""
    fam = rng.choice(['arena', 'arena', 'arena', 'identical', 'grid', 'nested', 'chain', 'thin', 'generic', 'generic', 'bordered'])
    scale, xb, yb = 1, 0, 0
    rects = []
    if fam == 'arena':
        n = rng.range(2, 7)
        for _ in range(n):
            x, y, w, h = rng.below(6), rng.below(6), rng.range(1, 3), rng.range(1, 3)
            rects.append((x, x + w, y, y + h))
    elif fam == 'identical':
        n = rng.range(2, 6)
        x, y, w, h = rng.below(4), rng.below(4), rng.range(1, 4), rng.range(1, 4)
        rects = [(x, x + w, y, y + h)] * n
        if rng.chance(1, 2):
            rects = rects + [(x + rng.range(-2, 2), x + w + rng.range(0, 2) + 2, y - 1, y + h + 1)]
    elif fam == 'grid':
        n = rng.range(2, 8)
        for _ in range(n):
            gx, gy = rng.below(3), rng.below(3)
            w, h = rng.choice([2, 4]), rng.choice([2, 4])
            rects.append((2 * gx, 2 * gx + w, 2 * gy, 2 * gy + h))
    elif fam == 'nested':
        n = rng.range(2, 6)
        for k in range(n):
            d = k if rng.chance(2, 3) else rng.below(n)
            rects.append((-d - 1, d + 1 + rng.below(2) * 2 * rng.below(2), -d - 1, d + 1))
        rects = rng.shuffle(rects)
    elif fam == 'chain':
        n = rng.range(3, 8)
        horiz = rng.chance(1, 2)
        for k in range(n):
            a = 2 * k
            if horiz:
                rects.append((a, a + 3, rng.below(2), 2 + rng.below(2)))
            else:
                rects.append((rng.below(2), 2 + rng.below(2), a, a + 3))
    elif fam == 'thin':
        scale = 1024
        n = rng.range(2, 6)
        for _ in range(n):
            x, y = rng.below(4) * 1024, rng.below(4) * 1024
            if rng.chance(1, 2):
                rects.append((x, x + 1, y, y + rng.range(1, 3) * 1024))
            else:
                rects.append((x, x + rng.range(1, 3) * 1024, y, y + 1))
    elif fam == 'generic':
        scale = 64
        n = rng.range(2, 9)
        for _ in range(n):
            x, y = rng.below(6 * 64), rng.below(6 * 64)
            w, h = rng.range(16, 3 * 64), rng.range(16, 3 * 64)
            rects.append((x, x + w, y, y + h))
    else:  # bordered
        scale = 4
        xb, yb = rng.below(5), rng.below(5)
        n = rng.range(2, 7)
        for _ in range(n):
            x, y, w, h = rng.below(24), rng.below(24), rng.range(1, 12), rng.range(1, 12)
            rects.append((x, x + w, y, y + h))
    if big:
        fam = 'big-' + rng.choice(['dense', 'sparse', 'lattice', 'fine'])
        scale, xb, yb = 8, 0, 0
        n = rng.range(20, 60)
        rects = []
        side = {'big-dense': 10, 'big-sparse': 40, 'big-lattice': 12, 'big-fine': 0}[fam]
        if fam == 'big-fine':
            scale = 65536
            side = rng.choice([8, 20])
        for _ in range(n):
            if fam == 'big-fine':
                x, y, w, h = rng.below(side * scale), rng.below(side * scale), rng.range(scale // 2, 3 * scale), rng.range(scale // 2, 3 * scale)
            elif fam == 'big-lattice':
                x, y, w, h = 16 * rng.below(side), 16 * rng.below(side), 16 * rng.range(1, 2), 16 * rng.range(1, 2)
            else:
                x, y, w, h = rng.below(side * 8), rng.below(side * 8), rng.range(4, 24), rng.range(4, 24)
            rects.append((x, x + w, y, y + h))
    return Inst(scale, rects, xb, yb, fam)


# ------------------------------------------------------------------------------------------ parsing
def hexq(s):
    return F(float.fromhex(s))


def modq(s):
    a, b = s.split('/')
    return F(int(a, 16), int(b, 16))


def parse_impl_C(line):
    """'C exc m (l r gap)* D desired* [# what]' -> dict"""
    what = None
    if ' # ' in line:
        line, what = line.split(' # ', 1)
    f = line.split()
    exc, m = int(f[1]), int(f[2])
    cs = [(int(f[3 + 3 * i]), int(f[4 + 3 * i]), hexq(f[5 + 3 * i])) for i in range(m)]
    d = f.index('D')
    return {'exc': exc % 10, 'prime_failed': exc >= 10, 'cs': cs, 'raw': [(a, b, f[5 + 3 * i]) for i, (a, b, _) in enumerate(cs)],
            'desired': [hexq(x) for x in f[d + 1:]], 'what': what}


def parse_model_C(line):
    f = line.split()
    if f[1] == 'fuel':
        return None
    m = int(f[1])
    cs = [(int(f[2 + 3 * i]), int(f[3 + 3 * i]), modq(f[4 + 3 * i])) for i in range(m)]
    bar = f.index('|')
    return {'cs': cs, 'entail': f[bar + 1], 'topo': f[bar + 2]}


def parse_impl_R(line):
    what = None
    if ' # ' in line:
        line, what = line.split(' # ', 1)
    f = line.split()
    exc = int(f[1])
    vals = [hexq(x) for x in f[2:]]
    return {'exc': exc % 10, 'prime_failed': exc >= 10, 'xb': vals[0], 'yb': vals[1],
            'rects': [tuple(vals[2 + 4 * i:6 + 4 * i]) for i in range((len(vals) - 2) // 4)], 'what': what, 'raw': line}


def parse_model_R(line):
    f = line.split()
    if f[1] == 'fail':
        return None
    vals = [modq(x) for x in f[1:]]
    return {'xb': vals[0], 'yb': vals[1], 'rects': [tuple(vals[2 + 4 * i:6 + 4 * i]) for i in range((len(vals) - 2) // 4)]}


# ------------------------------------------------------------------------------------------ commands
def cmd_G_impl(inst, mode, pk=0, pdir=0):
    return 'G %d %d %d %d %d %d %d %s' % (mode, inst.scale, inst.xb, inst.yb, pk, pdir, inst.n(), inst.flat())


def cmd_G_model(inst, mode, variant, addr=None):
    a = ' ' + ' '.join(str(x) for x in addr) if addr else ''
    return 'G %d %d %d %d %d %d %s%s' % (mode, inst.scale, inst.xb, inst.yb, variant, inst.n(), inst.flat(), a)


def cmd_E(inst, mode, raw_cs):
    return 'E %d %d %d %d %d %s %d %s' % (mode, inst.scale, inst.xb, inst.yb, inst.n(), inst.flat(), len(raw_cs),
                                         ' '.join('%d %d %s' % c for c in raw_cs))


def cmd_R_impl(inst, fixed, third, pk=0, pdir=0):
    return 'R %d %d %d %d %d %d %d %s %d %s' % (1 if third else 0, inst.scale, inst.xb, inst.yb, pk, pdir, len(fixed),
                                               ' '.join(str(x) for x in fixed), inst.n(), inst.flat())


def cmd_R_model(inst, fixed, third, variant, addr=None):
    a = ' ' + ' '.join(str(x) for x in addr) if addr else ''
    return 'R %d %d %d %d %d %d %s %d %s%s' % (1 if third else 0, inst.scale, inst.xb, inst.yb, variant, len(fixed),
                                              ' '.join(str(x) for x in fixed), inst.n(), inst.flat(), a)


def run_lines(cmd, lines, timeout=900):
    rc, out, err, dt = C.sh(cmd, input='\n'.join(lines) + '\n', timeout=timeout)
    outl = [l for l in out.split('\n') if l]
    return rc, outl, err, dt


def run_lines_resilient(cmd, lines, max_crashes=12, timeout=900):
    """like run_lines, but a command that kills the process (abort / signal) does not lose the rest of the batch: the
    batch is restarted after the crashing command.  Returns (outputs with None at crashed commands, [(index, rc, stderr)])"""
    out, crashes, start = [], [], 0
    while start < len(lines):
        rc, o, err, _ = run_lines(cmd, lines[start:], timeout)
        out += o[:len(lines) - start]
        if len(out) >= len(lines):
            break
        crashes.append((len(out), rc, err[-600:]))
        out.append(None)
        start = len(out)
        if len(crashes) >= max_crashes:
            out += [None] * (len(lines) - len(out))
            break
    return out, crashes


def build(flavor='exc'):
    exe = C.build_harness('c09_rect', ['libvpsc'], flavor)
    drv = C.ocaml_build('c09model', 'C09model.v', 'c09_driver.ml', 'c09_model.ml')
    return exe, drv


# ------------------------------------------------------------------------------------------ address-oracle recovery
def tie_groups(inst, mode):
    c = inst.centres(1 if mode == 0 else 0)
    g = {}
    for i, v in enumerate(c):
        g.setdefault(v, []).append(i)
    return [v for v in g.values() if len(v) > 1]


def derived_addr(inst, cs):
    """an address oracle consistent with the emitted constraints: every constraint goes from the smaller to the larger
    node in (centre, addr) order, so a topological rank of the constraint graph restricted to equal centres works"""
    n = inst.n()
    indeg, adj = [0] * n, [[] for _ in range(n)]
    for (l, r, _) in cs:
        adj[l].append(r)
        indeg[r] += 1
    order, q = [], [i for i in range(n) if indeg[i] == 0]
    while q:
        u = q.pop(0)
        order.append(u)
        for v in adj[u]:
            indeg[v] -= 1
            if indeg[v] == 0:
                q.append(v)
    if len(order) != n:
        return None
    rank = [0] * n
    for k, u in enumerate(order):
        rank[u] = k
    return rank


def addr_candidates(inst, mode, cs, limit=24):
    cands = []
    d = derived_addr(inst, cs)
    if d:
        cands.append(d)
    n = inst.n()
    cands.append(list(range(n)))
    cands.append(list(range(n - 1, -1, -1)))
    groups = tie_groups(inst, mode)
    tot = 1
    for g in groups:
        for k in range(2, len(g) + 1):
            tot *= k
    if 1 < tot <= limit:
        base = list(range(n))
        for perms in itertools.product(*[itertools.permutations(g) for g in groups]):
            a = list(base)
            for g, p in zip(groups, perms):
                for slot, who in zip(sorted(g), p):
                    a[who] = slot
            if a not in cands:
                cands.append(a)
    return cands


# ------------------------------------------------------------------------------------------ the property's oracle
def oracle_R(inst, fixed, res, check_fixed):
    """declarative check of C09's first sentence on a real removeoverlaps output. returns list of failure dicts"""
    fails = []
    s = inst.scale
    if res['exc'] != 0:
        fails.append({'what': 'removeoverlaps threw / failed an assertion', 'code': res['exc'], 'where': res['what']})
    if res['xb'] != F(inst.xb, s) or res['yb'] != F(inst.yb, s):
        fails.append({'what': 'Rectangle::xBorder/yBorder not restored', 'xBorder_after': float(res['xb']), 'yBorder_after': float(res['yb'])})
    if res['exc'] != 0:
        return fails
    n = inst.n()
    R = res['rects']
    tol = F(1, 10 ** 6)
    for i in range(n):
        w0, h0 = F(inst.rects[i][1] - inst.rects[i][0], s), F(inst.rects[i][3] - inst.rects[i][2], s)
        w1, h1 = R[i][1] - R[i][0], R[i][3] - R[i][2]
        if abs(w1 - w0) > F(1, 10 ** 9) * max(1, w0) or abs(h1 - h0) > F(1, 10 ** 9) * max(1, h0):
            fails.append({'what': 'size changed', 'rect': i, 'before': [float(w0), float(h0)], 'after': [float(w1), float(h1)]})
    xb, yb = F(inst.xb, s), F(inst.yb, s)
    for i in range(n):
        for j in range(i + 1, n):
            ox = min(R[i][1], R[j][1]) - max(R[i][0], R[j][0]) + 2 * xb
            oy = min(R[i][3], R[j][3]) - max(R[i][2], R[j][2]) + 2 * yb
            if ox > tol and oy > tol:
                fails.append({'what': 'overlap with positive area', 'pair': [i, j], 'overlap_x': float(ox), 'overlap_y': float(oy)})
    if check_fixed and fixed and n:
        mean = sum(F(r[1] - r[0] + r[3] - r[2], 2 * s) for r in inst.rects) / n
        for i in [f for f in fixed if f < n]:      # indices >= n name no rectangle (removeoverlaps only looks up 0..n-1)
            dx = (R[i][0] + R[i][1]) / 2 - F(inst.rects[i][0] + inst.rects[i][1], 2 * s)
            dy = (R[i][2] + R[i][3]) / 2 - F(inst.rects[i][2] + inst.rects[i][3], 2 * s)
            if max(abs(dx), abs(dy)) >= mean / 100:
                fails.append({'what': 'fixed rectangle moved by more than 1% of the mean size', 'kind': 'fixed_moved', 'rect': i,
                              'moved': [float(dx), float(dy)], 'mean_size': float(mean),
                              'classifier': fixed_displaced_classifier(inst, fixed, R, i)})
    return fails


FIXED_WEIGHT = 10000


def fixed_displaced_classifier(inst, fixed, R, f):
    """Is the displacement of fixed rectangle f explained by `fixed` being a weight of 10000 rather than a pin?
    The last pass of each axis starts from the original coordinate and the solver puts every block at its weighted
    mean, so inside a block sum_i w_i * delta_i = 0; hence a soft-weight displacement always satisfies
        10000 * |delta_f| <= sum_{j != f} w_j * |delta_j|        (per axis, delta = final - original centre).
    Returns {'explained': bool, 'family': 'fixed_overlap' | 'cluster', ...}; anything not explained stays a VIOLATION."""
    s = inst.scale
    n = inst.n()
    w = [FIXED_WEIGHT if j in fixed else 1 for j in range(n)]
    mean = sum(F(r[1] - r[0] + r[3] - r[2], 2 * s) for r in inst.rects) / n
    explained, detail = True, {}
    for axis, (a, b) in enumerate(((0, 1), (2, 3))):
        d = [(R[j][a] + R[j][b]) / 2 - F(inst.rects[j][a] + inst.rects[j][b], 2 * s) for j in range(n)]
        if abs(d[f]) < mean / 100:
            continue
        lhs = FIXED_WEIGHT * abs(d[f])
        rhs = sum(w[j] * abs(d[j]) for j in range(n) if j != f)
        ok = lhs <= rhs * (1 + F(1, 10 ** 6)) + F(1, 10 ** 9)
        detail['xy'[axis]] = {'weight_times_displacement': float(lhs), 'sum_of_other_weighted_displacements': float(rhs), 'balanced': ok}
        explained = explained and ok
    xb, yb = F(inst.xb, s) + EXTRA_GAP, F(inst.yb, s) + EXTRA_GAP
    r0 = inst.rects[f]
    fam = 'cluster'
    for g in fixed:
        if g != f and 0 <= g < n:     # `fixed` may name indices beyond the set (documented as ignored)
            q = inst.rects[g]
            ox = F(min(r0[1], q[1]) - max(r0[0], q[0]), s) + 2 * xb
            oy = F(min(r0[3], q[3]) - max(r0[2], q[2]), s) + 2 * yb
            if ox > 0 and oy > 0:
                fam = 'fixed_overlap'
    return {'explained': explained, 'family': fam, 'balance': detail}


EXTRA_GAP = F(1e-3)


def _ov(umin, umax, vmin, vmax):
    """Rectangle::overlapX/overlapY (rectangle.h:205-222) on one axis; note: not the intersection length for nested intervals"""
    uc, vc = (umin + umax) / 2, (vmin + vmax) / 2
    if uc <= vc and vmin < umax:
        return umax - vmin
    if vc <= uc and umin < vmax:
        return vmax - umin
    return F(0)


def heuristic_tie(inst):
    """some pair has overlapX == overlapY (> 0) in exact arithmetic during the first pass of removeoverlaps: there the
    implementation's answer to `overlapX <= overlapY` is decided by binary64 rounding of the non-dyadic padding 1e-3,
    which the exact-rational model does not represent"""
    s = inst.scale
    xb, yb = F(inst.xb, s) + EXTRA_GAP, F(inst.yb, s) + EXTRA_GAP
    R = [[F(r[0], s) - xb, F(r[1], s) + xb, F(r[2], s) - yb, F(r[3], s) + yb] for r in inst.rects]
    n = len(R)
    for i in range(n):
        for j in range(n):
            if i != j:
                ox = _ov(R[i][0], R[i][1], R[j][0], R[j][1])
                oy = _ov(R[i][2], R[i][3], R[j][2], R[j][3])
                if ox > 0 and abs(ox - oy) < F(1, 10 ** 9):
                    return True
    return False


def generic_position(inst):
    """no two equal centres, no two equal interval ends in either dimension, no overlapX == overlapY tie: the only inputs
    on which an exact-rational model of the three passes can be expected to take the same branches as binary64"""
    xs = [v for r in inst.rects for v in (r[0], r[1])]
    ys = [v for r in inst.rects for v in (r[2], r[3])]
    cx, cy = inst.centres(0), inst.centres(1)
    return (len(set(xs)) == len(xs) and len(set(ys)) == len(ys) and len(set(cx)) == len(cx) and len(set(cy)) == len(cy)
            and not heuristic_tie(inst))


# ------------------------------------------------------------------------------------------ degenerate sizes (DESIGN 9.18)
FIXED_SETS = [[], [0], [1], [0, 1], [7]]      # [7]: names no rectangle of a set with < 8 elements (valid: only looked up)


def degenerate_cases():
    """removeoverlaps with n = 0, 1, 2 rectangles for every combination of fixed set / thirdPass / caller borders
    (single calls through the R command): the early-out region of the code"""
    out = []
    for (scale, xb, yb) in ((1, 0, 0), (4, 3, 1), (4, 0, 2)):
        for n in (0, 1, 2):
            rects = [(0, 4 * scale, 0, 3 * scale), (scale, 3 * scale, scale, 5 * scale)][:n]
            for fixed in FIXED_SETS:
                for third in (False, True):
                    out.append((Inst(scale, rects, xb, yb, 'degenerate-n%d' % n), fixed, third))
    return out


class Seq:
    """k removeoverlaps calls in one process (harness command Q): the border globals are set once and only read back"""

    def __init__(self, scale, xb, yb, calls, family=''):
        # calls: list of dicts {ovl, third, fixed, rects}
        self.scale, self.xb, self.yb, self.calls, self.family = scale, xb, yb, calls, family

    def cmd(self, upto=None):
        cs = self.calls if upto is None else self.calls[:upto]
        parts = ['Q %d %d %d %d' % (self.scale, self.xb, self.yb, len(cs))]
        for c in cs:
            parts.append('%d %d %d %s %d %s' % (c['ovl'], 1 if c['third'] else 0, len(c['fixed']), ' '.join(map(str, c['fixed'])),
                                               len(c['rects']), ' '.join('%d %d %d %d' % tuple(r) for r in c['rects'])))
        return ' '.join(' '.join(parts).split())

    def to_json(self, upto=None):
        cs = self.calls if upto is None else self.calls[:upto]
        return {'scale': self.scale, 'xBorder': '%d/%d' % (self.xb, self.scale), 'yBorder': '%d/%d' % (self.yb, self.scale), 'family': self.family,
                'calls': [{'overload': ['removeoverlaps(rs,fixed,thirdPass)', 'removeoverlaps(rs,fixed)', 'removeoverlaps(rs)'][c['ovl']],
                           'thirdPass': bool(c['third']), 'fixed': c['fixed'], 'rects_minX_maxX_minY_maxY_over_scale': [list(r) for r in c['rects']]}
                          for c in cs]}

    @staticmethod
    def from_json(d, family):
        ov = {'removeoverlaps(rs,fixed,thirdPass)': 0, 'removeoverlaps(rs,fixed)': 1, 'removeoverlaps(rs)': 2}
        return Seq(d['scale'], int(d['xBorder'].split('/')[0]), int(d['yBorder'].split('/')[0]),
                   [{'ovl': ov[c['overload']], 'third': c['thirdPass'], 'fixed': c['fixed'],
                     'rects': [tuple(r) for r in c['rects_minX_maxX_minY_maxY_over_scale']]} for c in d['calls']], family)


def _call(ovl, third, fixed, rects):
    # the two short overloads fix their own arguments: (rs,fixed) runs the third pass, (rs) has no fixed set either
    if ovl >= 1:
        third = True
    if ovl == 2:
        fixed = []
    return {'ovl': ovl, 'third': third, 'fixed': fixed, 'rects': rects}


def seq_exhaustive():
    """per caller-border setting ONE process that makes every combination n in {0,1,2} x fixed set x thirdPass x overload"""
    out = []
    for (scale, xb, yb) in ((1, 0, 0), (4, 3, 1), (8, 0, 5), (4, 2, 0)):
        calls = []
        for n in (0, 1, 2):
            rects = [(0, 4 * scale, 0, 3 * scale), (scale, 3 * scale, scale, 5 * scale)][:n]
            for fixed in FIXED_SETS:
                for third in (False, True):
                    calls.append(_call(0, third, fixed, rects))
                calls.append(_call(1, True, fixed, rects))
            calls.append(_call(2, True, [], rects))
        out.append(Seq(scale, xb, yb, calls, 'seq-exhaustive'))
        # the degenerate calls first / last / between calls that do real work
        for order in ((0, 3), (3, 0), (1, 3, 1), (3, 1, 0, 3), (0, 0, 0, 1, 1, 1, 3)):
            calls = []
            for n in order:
                rects = [(0, 4 * scale, 0, 3 * scale), (scale, 3 * scale, scale, 5 * scale), (2 * scale, 6 * scale, 0, 2 * scale)][:n]
                calls.append(_call(0, len(calls) % 2 == 0, [0] if len(calls) % 3 == 0 else [], rects))
            out.append(Seq(scale, xb, yb, calls, 'seq-order'))
    return out


def gen_seq(rng):
    """random sequence: sizes weighted towards 0, 1, 2; any overload / fixed set / thirdPass; zero or non-zero borders"""
    scale = rng.choice([1, 4, 16])
    xb, yb = (0, 0) if rng.chance(1, 3) else (rng.below(3 * scale), rng.below(3 * scale))
    calls = []
    for _ in range(rng.range(2, 6)):
        n = rng.choice([0, 0, 1, 1, 1, 2, 2, 3, 4, rng.range(2, 7)])
        rects = []
        for _ in range(n):
            x, y, w, h = rng.below(6 * scale), rng.below(6 * scale), rng.range(1, 3 * scale), rng.range(1, 3 * scale)
            rects.append((x, x + w, y, y + h))
        fixed = rng.choice(FIXED_SETS) if rng.chance(1, 2) else sorted(set(rng.below(max(n, 1)) for _ in range(rng.below(3))))
        calls.append(_call(rng.choice([0, 0, 0, 1, 2]), rng.chance(1, 2), fixed, rects))
    return Seq(scale, xb, yb, calls, 'seq-random')


def parse_Q(line):
    """'Q k | exc what xB yB witnessW witnessH n (w0 h0 w1 h1 minX maxX minY maxY)*n | ...' -> list of per-call dicts"""
    parts = line.split(' | ')
    out = []
    for p in parts[1:]:
        f = p.split()
        n = int(f[6])
        v = [hexq(x) for x in f[7:7 + 8 * n]]
        out.append({'exc': int(f[0]), 'what': f[1], 'xb': hexq(f[2]), 'yb': hexq(f[3]), 'ww': hexq(f[4]), 'wh': hexq(f[5]),
                    'rects': [tuple(v[8 * i:8 * i + 8]) for i in range(n)]})
    return out


def oracle_Q(seq, calls_out):
    """C09's second sentence after EACH call of the sequence: borders restored (read back from the globals, and through a
    witness rectangle that takes part in no call), every rectangle's width()/height() unchanged, no overlap (caller's
    borders), no exception.  Returns (index of the first failing call, failures) or (None, [])"""
    s = seq.scale
    xb, yb = F(seq.xb, s), F(seq.yb, s)
    for k, (c, o) in enumerate(zip(seq.calls, calls_out)):
        fails = []
        if o['exc'] != 0:
            fails.append({'what': 'removeoverlaps threw / failed an assertion', 'code': o['exc'], 'where': o['what']})
        if o['xb'] != xb or o['yb'] != yb:
            fails.append({'what': 'Rectangle::xBorder/yBorder not restored after a call with %d rectangle(s)' % len(c['rects']),
                          'xBorder_before': float(xb), 'yBorder_before': float(yb),
                          'xBorder_after': float(o['xb']), 'yBorder_after': float(o['yb']),
                          'leak': [float(o['xb'] - xb), float(o['yb'] - yb)]})
        if o['ww'] != 3 + 2 * xb or o['wh'] != 5 + 2 * yb:
            fails.append({'what': 'a rectangle that took part in no call reads a different width()/height() after the call',
                          'expected': [float(3 + 2 * xb), float(5 + 2 * yb)], 'got': [float(o['ww']), float(o['wh'])]})
        R = o['rects']
        if len(R) != len(c['rects']):
            fails.append({'what': 'harness output malformed'})
        for i, q in enumerate(R):
            w0, h0, w1, h1 = q[0], q[1], q[2], q[3]
            if abs(w1 - w0) > F(1, 10 ** 9) * max(1, w0) or abs(h1 - h0) > F(1, 10 ** 9) * max(1, h0):
                fails.append({'what': 'size changed (width()/height() read before and after the call)', 'rect': i,
                              'before': [float(w0), float(h0)], 'after': [float(w1), float(h1)]})
        if o['exc'] == 0:
            tol = F(1, 10 ** 6)
            for i in range(len(R)):
                for j in range(i + 1, len(R)):
                    ox = min(R[i][5], R[j][5]) - max(R[i][4], R[j][4]) + 2 * xb
                    oy = min(R[i][7], R[j][7]) - max(R[i][6], R[j][6]) + 2 * yb
                    if ox > tol and oy > tol:
                        fails.append({'what': 'overlap with positive area', 'pair': [i, j], 'overlap_x': float(ox), 'overlap_y': float(oy)})
        if fails:
            return k, fails
    return None, []


def small_unmoved(seq, calls_out):
    """theorem C09_removeoverlaps_small as a correspondence test: a call with < 2 rectangles returns them where they were"""
    s = seq.scale
    for k, (c, o) in enumerate(zip(seq.calls, calls_out)):
        if len(c['rects']) <= 1 and o['exc'] == 0:
            for r, q in zip(c['rects'], o['rects']):
                if any(abs(q[4 + t] - F(r[t], s)) > F(1, 10 ** 9) for t in range(4)):
                    return k
    return None


# ------------------------------------------------------------------------------------------ Variables sharing an id (DESIGN 9.18)
def gen_dupid(rng):
    """rectangle sets whose centres tie in the scanned order and that are open in the scan together (identical, concentric,
    one grid row / column, the tie families of gen_instance) + an id list with duplicates (Variable::id is documentation
    only).  Returns (Inst, ids)"""
    fam = rng.choice(['identical', 'concentric', 'column', 'row', 'tied-mix', 'gen'])
    scale, rects = 1, []
    if fam == 'identical':
        n = rng.range(2, 5)
        x, y, w, h = rng.below(4), rng.below(4), rng.range(1, 4), rng.range(1, 4)
        rects = [(x, x + w, y, y + h)] * n
    elif fam == 'concentric':
        n = rng.range(2, 5)
        rects = rng.shuffle([(-d - 1, d + 1, -d - 1 - rng.below(2), d + 1 + rng.below(2)) for d in range(n)])
        rects = [(a, b, c, c + (d - c)) for (a, b, c, d) in rects]
    elif fam in ('column', 'row'):
        n = rng.range(2, 6)
        for k in range(n):
            a = rng.below(3) * 2
            w, h = rng.choice([2, 4]), rng.choice([2, 4, 6])
            rects.append((-w // 2, w // 2, a, a + h) if fam == 'column' else (a, a + h, -w // 2, w // 2))
    elif fam == 'tied-mix':
        n = rng.range(3, 6)
        cx, cy = rng.below(3), rng.below(3)
        for k in range(n):
            if rng.chance(2, 3):
                a, b = rng.range(1, 3), rng.range(1, 3)
                rects.append((cx - a, cx + a, cy - b, cy + b))
            else:
                x, y = rng.below(6), rng.below(6)
                rects.append((x, x + rng.range(1, 3), y, y + rng.range(1, 3)))
    else:
        inst = gen_instance(rng)
        scale, rects = inst.scale, inst.rects
    n = len(rects)
    pat = rng.choice(['zero', 'const', 'mod2', 'half', 'rand2', 'randn', 'distinct-rev'])
    ids = {'zero': [0] * n, 'const': [7] * n, 'mod2': [i % 2 for i in range(n)], 'half': [i // 2 for i in range(n)],
           'rand2': [rng.below(2) for _ in range(n)], 'randn': [rng.below(max(n - 1, 1)) for _ in range(n)],
           'distinct-rev': [n - 1 - i for i in range(n)]}[pat]
    return Inst(scale, rects, 0, 0, 'dupid-%s-%s' % (fam, pat)), ids


def cmd_G_ids(inst, mode, ids, pk=0, pdir=0):
    return 'G %d %d %d %d %d %d %d %s %s' % (mode + 20, inst.scale, inst.xb, inst.yb, pk, pdir, inst.n(), inst.flat(), ' '.join(map(str, ids)))


def dup_tie(inst, ids, mode):
    """two nodes that CmpNodePos can only order by address: equal centre in the scanned order and equal id"""
    c = inst.centres(1 if mode == 0 else 0)
    seen = set()
    for k in zip(c, ids):
        if k in seen:
            return True
        seen.add(k)
    return False
