"""C07 - libcola: layout output satisfies every constraint or reports it unsatisfiable (DESIGN 5.7).
proof: Coq theorems over the hand-written model of the per-type translation compound constraint -> separation
constraints (Cola/CompoundCsModel.v, proofs in Cola/CompoundCs.v, statements in Properties/C07.v);
tie C: the extracted model generator is compared exactly (multisets of (left,right,gap,equality), auxiliary variable data)
with generateVariables/generateSeparationConstraints of the compiled library on random dyadic parameters;
V: the extracted verified checker cc_holdsb evaluates every compound constraint on the result of
ConstrainedFDLayout::makeFeasible()+run() and ConstrainedMajorizationLayout::run() on random graphs, plus the family
'rollback' (gen_rollback_case): overlap avoidance on and groups of overlapping rectangles tied together by user equalities, so that
makeFeasible() has to reject and roll back non-overlap alternatives; there every constraint held on the initial positions and must
still hold afterwards; and the family 'single-axis' (gen_single_axis_case): run(true,false) / run(false,true) / run(false,false) with and
without a preceding makeFeasible() - the constraints of BOTH dimensions must hold (or be reported) afterwards, and the sequence of
projections the compiled run() performs (observed by a probe compound constraint) must equal the Coq trace model's for the flags;
and the family 'reuse' (gen_reuse_case / reuse_sequences, harness mode seq): ONE set of CompoundConstraint objects through a sequence
makeFeasible(); rectangles moved; makeFeasible() again on the same layout object / on a fresh ConstrainedFDLayout over the same objects;
run() interleaved - the verified checker is evaluated after EVERY call (after makeFeasible() alone too), and the sub-constraint cursor
protocol every object goes through in every makeFeasible() call (events logged by observer subclasses of the real constraint classes:
markAllSubConstraintsAsInactive / subConstraintsRemaining / getCurrSubConstraintAlternatives / markCurrSubConstraintAsActive, cursor
and `satisfied` flags) must equal the extracted Coq model's (Cola/SubCursorModel.v mf_call, run on the observed accept/reject decisions),
for which C07_makeFeasible_accounts_for_every_subconstraint proves that every sub-constraint is offered exactly once per call whatever
state earlier calls left the object in;
and the family 'cml-reuse' (gen_cml_case / cml_sequences, harness mode cml; seeded change C07-7): ONE ConstrainedMajorizationLayout object
through up to three run() / runOnce() calls, constraints appended to the registered vector and / or setConstraints(&other) and
setUnsatisfiableConstraintInfo(&other lists) in between - after EVERY run the verified checker is evaluated on the constraint set IN FORCE at
that run (the members of the registered vector at that moment, references remapped) with the lists registered at that run.
Robustness (seeded change C07-8 made the check die on non-UTF-8 bytes the library printed on stderr): C.sh decodes with errors='replace';
every parser of harness / model output rejects what it cannot interpret as a reported violation with the case and a replay line; a
last-resort guard in run() turns an exception of a family driver into a reported violation - never a traceback."""
import os, json, math, re
from fractions import Fraction
from vlib import common as C

PID = 'C07'
TOL = Fraction(1, 10000)
GRID = 1 << 20                       # final centres are rounded to multiples of 2^-20 before the exact checker
SLACK = Fraction(4, GRID)            # so the checker's tolerance is 1e-4 + 4*2^-20 (never stricter than the property)
CODES = {1: 'Separation', 2: 'Separation(alignment pair)', 3: 'Alignment', 4: 'Boundary', 5: 'Distribution',
         6: 'MultiSeparation', 7: 'FixedRelative', 8: 'PageBoundary'}


# ----------------------------------------------------------------------------------------------- layout modes (harness/c07_cc.cpp)
MODE_NAMES = {0: 'makeFeasible()+run()', 1: 'run()', 2: 'makeFeasible()', 3: 'ConstrainedMajorizationLayout::run()',
              4: 'run(true,false)', 5: 'run(false,true)', 6: 'makeFeasible()+run(true,false)', 7: 'makeFeasible()+run(false,true)',
              8: 'run(false,false)', 9: 'makeFeasible()+run(false,false)'}


def m_base(m):
    return m & 15


def m_mf(m):
    return m_base(m) in (0, 2, 6, 7, 9)


def m_run(m):                       # ConstrainedFDLayout::run(...) is the last call
    return m_base(m) in (0, 1, 4, 5, 6, 7, 8, 9)


def m_mf_only(m):
    return m_base(m) == 2


def m_axes(m):
    b = m_base(m)
    return (b in (0, 1, 4, 6), b in (0, 1, 5, 7))


def mode_name(m):
    return MODE_NAMES.get(m_base(m), '?') + (' [private rungekutta switch off]' if m & 16 else '')


# ----------------------------------------------------------------------------------------------- case syntax
def cc_tokens(cc):
    k = cc['code']
    if k == 1:
        return [k, cc['d'], cc['l'], cc['r'], cc['g'], int(cc['e'])]
    if k == 2:
        return [k, cc['d'], cc['la'], cc['ra'], cc['g'], int(cc['e'])]
    if k == 3:
        return [k, cc['d'], cc['pos'], int(cc['fixed']), len(cc['sh'])] + [t for so in cc['sh'] for t in so]
    if k == 4:
        return [k, cc['d'], cc['pos'], len(cc['sh'])] + [t for so in cc['sh'] for t in so]
    if k == 5:
        return [k, cc['d'], cc['sep'], len(cc['prs'])] + [t for ab in cc['prs'] for t in ab]
    if k == 6:
        return [k, cc['d'], cc['sep'], int(cc['e']), len(cc['prs'])] + [t for ab in cc['prs'] for t in ab]
    if k == 7:
        return [k, int(cc['fixedpos']), len(cc['ids'])] + list(cc['ids'])
    if k == 8:
        return [k, cc['xlo'], cc['xhi'], cc['ylo'], cc['yhi'], cc['w'], len(cc['sh'])] + [t for s in cc['sh'] for t in s]
    raise ValueError(k)


def case_line(case, layout=False):
    t = [case['n']] + [v for r in case['rects'] for v in r] + [len(case['ccs'])]
    for cc in case['ccs']:
        t += cc_tokens(cc)
    if layout:
        t += [len(case['edges'])] + [v for e in case['edges'] for v in e] + [case['ideal'], case['mode'], case['overlap'], case['neighbour']]
    return ' '.join(str(int(x)) for x in t)


def ops_tokens(ops):
    """op sequence of the family 'reuse' (harness mode seq): ['MF'] | ['RUN', xa, ya] | ['NEW'] | ['MOVE', [[node, cx, cy], ...]]
    (absolute new centres in units of 1/16)"""
    t = [len(ops)]
    for o in ops:
        if o[0] == 'MF':
            t += [1]
        elif o[0] == 'RUN':
            t += [2, int(o[1]), int(o[2])]
        elif o[0] == 'NEW':
            t += [3]
        elif o[0] == 'MOVE':
            t += [4, len(o[1])] + [v for m in o[1] for v in m]
        else:
            raise ValueError(o)
    return t


def seq_line(case):
    return case_line(case, layout=True) + ' ' + ' '.join(str(int(x)) for x in ops_tokens(case['ops']))


def ops_text(ops, upto=None):
    out = []
    for k, o in enumerate(ops if upto is None else ops[:upto + 1]):
        if o[0] == 'MF':
            out.append('makeFeasible()')
        elif o[0] == 'RUN':
            out.append('run(%s,%s)' % ('true' if o[1] else 'false', 'true' if o[2] else 'false'))
        elif o[0] == 'NEW':
            out.append('new ConstrainedFDLayout(same rectangles, same constraint objects)')
        else:
            out.append('moveCentre ' + ' '.join('%d->(%g,%g)' % (m[0], m[1] / 16.0, m[2] / 16.0) for m in o[1]))
    return '; '.join(out)


# ----------------------------------------------------------------------------------------------- generators
def gen_rects(rng, n, coincide=False, spread=200):
    rects = []
    for i in range(n):
        w, h = rng.range(2, 12) * 32, rng.range(2, 12) * 32          # widths 4..24 in units of 1/16 -> *16
        if coincide:
            cx, cy = 50 * 16, 50 * 16
        else:
            cx, cy = rng.range(0, spread) * 16, rng.range(0, spread) * 16
        rects.append([cx - w // 2, cx + w // 2, cy - h // 2, cy + h // 2])
    return rects


def gen_ccs(rng, n, kinds, nmax, satisfiable=True, bad_index=False, cross_dim=False, order=None):
    """random mix of compound constraints.  satisfiable: constraints are built so that the placement `order`
    (a random permutation per dimension used as a witness: rank*W) satisfies all of them."""
    ccs = []
    ncc = rng.range(1, nmax)
    # alignments first decided so that references exist; they are inserted at random list positions later
    plan = [rng.choice(kinds) for _ in range(ncc)]
    if any(k in (2, 5, 6) for k in plan) and plan.count(3) < 2:
        plan += [3, 3]
    plan = rng.shuffle(plan)
    align_pos = {0: [], 1: []}
    dims = []
    for i, k in enumerate(plan):
        d = rng.below(2)
        dims.append(d)
        if k == 3:
            align_pos[d].append(i)
    used_in_align = {0: set(), 1: set()}
    for i, k in enumerate(plan):
        d = dims[i]
        idx = lambda: rng.below(n + 3) if (bad_index and rng.chance(1, 6)) else rng.below(n)
        if k == 1:
            l, r = idx(), idx()
            if satisfiable and l == r:
                r = (l + 1) % n
            ccs.append({'code': 1, 'd': d, 'l': l, 'r': r, 'g': rng.range(-40, 60) * 8, 'e': rng.chance(1, 4)})
        elif k == 2:
            if len(align_pos[d]) < 2:
                d = 1 - d
            if len(align_pos[d]) < 2:
                ccs.append({'code': 1, 'd': d, 'l': 0, 'r': 1 % n, 'g': 16, 'e': False})
                continue
            la = rng.choice(align_pos[d]); ra = rng.choice([a for a in align_pos[d] if a != la])
            ccs.append({'code': 2, 'd': d, 'la': la, 'ra': ra, 'g': rng.range(-20, 60) * 8, 'e': rng.chance(1, 4)})
        elif k == 3:
            m = rng.choice([0, 1, 2, 2, 3, 3, 4])
            sh = []
            for _ in range(m):
                s = idx()
                if satisfiable and (s in used_in_align[d]):
                    continue
                used_in_align[d].add(s)
                sh.append([s, rng.range(-3, 3) * 40])
            ccs.append({'code': 3, 'd': d, 'pos': rng.range(0, 200) * 16, 'fixed': rng.chance(1, 5), 'sh': sh})
        elif k == 4:
            m = rng.range(0, 4)
            sh = [[idx(), rng.choice([-64, -24, -8, 0, 0, 8, 24, 64])] for _ in range(m)]
            ccs.append({'code': 4, 'd': d, 'pos': rng.range(0, 200) * 16, 'sh': sh})
        elif k in (5, 6):
            dd = d
            pool = align_pos[dd]
            if cross_dim and rng.chance(1, 4):
                pool = align_pos[0] + align_pos[1]
            if len(pool) < 2:
                pool = align_pos[1 - dd]; dd = 1 - dd
            if len(pool) < 2:
                ccs.append({'code': 1, 'd': d, 'l': 0, 'r': 1 % n, 'g': 16, 'e': False})
                continue
            m = rng.range(0, 3)
            prs = []
            for _ in range(m):
                a = rng.choice(pool); b = rng.choice([x for x in pool if x != a])
                prs.append([a, b])
            if k == 5:
                ccs.append({'code': 5, 'd': dd, 'sep': rng.range(0, 40) * 8, 'prs': prs})
            else:
                ccs.append({'code': 6, 'd': dd, 'sep': rng.range(-10, 40) * 8, 'e': rng.chance(1, 3), 'prs': prs})
        elif k == 7:
            if n < 2:
                ccs.append({'code': 1, 'd': d, 'l': 0, 'r': 0, 'g': 0, 'e': False}); continue
            a = rng.below(n); b = rng.choice([x for x in range(n) if x != a])
            ids = [a, b] + [rng.below(n) for _ in range(rng.range(0, 3))]
            ccs.append({'code': 7, 'fixedpos': rng.chance(1, 3), 'ids': rng.shuffle(ids)})
        elif k == 8:
            xlo, ylo = rng.range(-100, 50) * 16, rng.range(-100, 50) * 16
            m = rng.range(0, 4)
            ccs.append({'code': 8, 'xlo': xlo, 'xhi': xlo + rng.range(1, 400) * 16, 'ylo': ylo, 'yhi': ylo + rng.range(1, 400) * 16,
                        'w': rng.choice([0, 16, 1600, 8]), 'sh': [[idx(), rng.range(1, 12) * 16, rng.range(1, 12) * 16] for _ in range(m)]})
    return ccs


def gen_case_corr(rng, stream):
    n = rng.range(2, 8)
    case = {'n': n, 'rects': gen_rects(rng, n, coincide=(stream == 'degenerate' and rng.chance(1, 3)))}
    kinds = [1, 2, 3, 3, 4, 5, 6, 7, 8]
    if stream == 'single':
        kinds = [rng.choice([1, 3, 4, 7, 8])]
    case['ccs'] = gen_ccs(rng, n, kinds, 1 if stream == 'single' else 8, satisfiable=False,
                          bad_index=(stream == 'degenerate'), cross_dim=(stream == 'degenerate'))
    case['stream'] = stream
    return case


# ----------------------------------------------------------------------------------------------- parsing results
def fr(tok):
    if '/' in tok:
        a, b = tok.split('/')
        return float(Fraction(int(a), int(b)))
    return float(tok)


def parse_gen(line):
    t = line.split()
    if not t:
        return ('BAD', line)
    if t[0] != 'OK':
        return (' '.join(t[:2]),)
    if any(x in ('BADID', 'BADFIX', 'NOCREATOR') for x in t):
        return ('BAD', line)
    p = 1
    na = int(t[p]); p += 1
    aux = []
    for _ in range(na):
        aux.append((fr(t[p]), fr(t[p + 1]), int(t[p + 2]))); p += 3
    assert t[p] == 'F'; p += 1
    nf = int(t[p]); p += 1
    fx = sorted(set(int(x) for x in t[p:p + nf])); p += nf      # a set: which rectangle variables become fixed
    assert t[p] == 'C'; p += 1
    nc = int(t[p]); p += 1
    cs = []
    for _ in range(nc):
        cs.append((int(t[p]), int(t[p + 1]), fr(t[p + 2]), int(t[p + 3]))); p += 4
    return ('OK', aux, fx, sorted(cs))


def run_restarting(exe, args, lines, timeout=1800):
    """like run_lines for a harness that exits after printing a 'HANG ...' line: restart it on the remaining cases"""
    out = []
    rest = list(lines)
    errs = ''
    while rest:
        rc, o, err, dt = C.sh([exe] + args, input='\n'.join(rest) + '\n', timeout=timeout)
        o = [l for l in o.split('\n') if l.strip()]
        errs = err
        if rc == 3 and o and o[-1].startswith('HANG'):
            out += o
            rest = rest[len(o):]
            continue
        out += o
        if rc != 0 or len(o) < len(rest):
            return rc if rc != 0 else 1, out, errs
        rest = []
    return 0, out, errs


def run_lines(exe, args, lines, timeout=900):
    rc, out, err, dt = C.sh([exe] + args, input='\n'.join(lines) + '\n', timeout=timeout)
    return rc, out.split('\n'), err


# ----------------------------------------------------------------------------------------------- correspondence (C)
def correspondence(res, rng, ncases, cpp, ml):
    cases = []
    for i in range(ncases):
        stream = ['mixed', 'mixed', 'single', 'degenerate'][i % 4]
        cases.append(gen_case_corr(rng.fork(), stream))
    for f in sorted(os.listdir(os.path.join(C.VERIF, 'corpus'))):
        if f.startswith('c07_gen_') and f.endswith('.json'):
            cases.insert(0, json.load(open(os.path.join(C.VERIF, 'corpus', f))))
    lines = [case_line(c) for c in cases]
    rc1, o1, e1 = run_lines(cpp, ['gen'], lines)
    rc2, o2, e2 = run_lines(ml, ['gen'], lines)
    diffs = []
    hist = {}
    ntriv = 0
    samples = []
    if rc1 != 0 or rc2 != 0 or len(o1) < 2 * len(cases) or len(o2) < 2 * len(cases):
        diffs.append({'what': 'harness or model driver failed', 'rc_cpp': rc1, 'rc_model': rc2, 'stderr_cpp': e1[-1500:], 'stderr_model': e2[-1500:],
                      'lines_cpp': len(o1), 'lines_model': len(o2), 'expected_lines': 2 * len(cases)})
        return cases, diffs, hist, 0, samples
    for i, c in enumerate(cases):
        for d in (0, 1):
            a, b = parse_gen_safe(o1[2 * i + d]), parse_gen_safe(o2[2 * i + d])      # output that cannot be parsed is ('BAD', line): a reported difference
            key = a[0] if a[0] != 'OK' else 'OK'
            hist[key] = hist.get(key, 0) + 1
            if a[0] == 'OK' and len(a[3]) > 0:
                ntriv += 1
            if a != b:
                diffs.append({'what': 'generated separation constraints / auxiliary variables differ between compound_constraints.cpp and the model',
                              'case': c, 'dim': 'XY'[d], 'implementation': o1[2 * i + d], 'model': o2[2 * i + d],
                              'replay': 'echo "%s" | <c07_cc harness> gen' % lines[i]})
        for cc in c['ccs']:
            hist[CODES[cc['code']]] = hist.get(CODES[cc['code']], 0) + 1
        if i < 3:
            samples.append({'input': lines[i], 'implementation_X': o1[2 * i], 'implementation_Y': o1[2 * i + 1]})
    return cases, diffs, hist, ntriv, samples


# ----------------------------------------------------------------------------------------------- layouts (V)
def gen_layout_case(rng, idx):
    n = rng.range(3, 10)
    kind = idx % 8
    coincide = (kind == 1)
    rects = gen_rects(rng, n, coincide=coincide)
    if kind == 2:                                   # a few coincident pairs
        for _ in range(2):
            a, b = rng.below(n), rng.below(n)
            w, h = rects[a][1] - rects[a][0], rects[a][3] - rects[a][2]
            cx, cy = (rects[b][0] + rects[b][1]) // 2, (rects[b][2] + rects[b][3]) // 2
            rects[a] = [cx - w // 2, cx + w // 2, cy - h // 2, cy + h // 2]
    edges = []
    if kind != 3:                                   # kind 3: edgeless
        for v in range(1, n):
            if rng.chance(4, 5):
                edges.append([rng.below(v), v])
        for _ in range(rng.below(4)):
            a, b = rng.below(n), rng.below(n)
            if a != b:
                edges.append([a, b])
    stream = 'unsat' if idx % 5 == 4 else 'sat'
    ccs = []
    if stream == 'sat':
        # acyclic separations l<r in index order, alignments over distinct shapes, ... (mostly jointly satisfiable)
        for _ in range(rng.below(4)):
            a, b = rng.below(n), rng.below(n)
            if a == b:
                continue
            a, b = min(a, b), max(a, b)
            ccs.append({'code': 1, 'd': rng.below(2), 'l': a, 'r': b, 'g': rng.range(0, 60) * 16, 'e': rng.chance(1, 4)})
        extra = gen_ccs(rng, n, [3, 3, 4, 2, 5, 6, 7, 8], 4, satisfiable=True)
        ccs += extra
        # references into the list are positions: gen_ccs produced positions relative to its own list -> shift
        off = len(ccs) - len(extra)
        for c in extra:
            if c['code'] == 2:
                c['la'] += off; c['ra'] += off
            if c['code'] in (5, 6):
                c['prs'] = [[a + off, b + off] for a, b in c['prs']]
    else:
        ccs = gen_ccs(rng, n, [1, 1, 1, 2, 3, 3, 4, 5, 6, 7], 7, satisfiable=False)
        # cycles of separations on purpose
        a, b = rng.below(n), rng.below(n)
        if a != b and rng.chance(1, 2):
            d = rng.below(2)
            ccs.append({'code': 1, 'd': d, 'l': a, 'r': b, 'g': 20 * 16, 'e': False})
            ccs.append({'code': 1, 'd': d, 'l': b, 'r': a, 'g': 20 * 16, 'e': False})
    # page boundaries' shapes use the real half sizes; distributions get >= 2 pairs sometimes: fine as generated
    mode = [0, 0, 0, 0, 1, 2, 3, 3][rng.below(8)]
    case = {'n': n, 'rects': rects, 'ccs': ccs, 'edges': edges, 'ideal': rng.choice([40, 60, 100]) * 16, 'mode': mode,
            'overlap': int(rng.chance(1, 2)) if mode != 3 else int(rng.chance(1, 4)), 'neighbour': int(rng.chance(1, 4)),
            'stream': stream, 'kind': ['generic', 'all-coincident', 'coincident-pairs', 'edgeless', 'generic', 'generic', 'generic', 'generic'][kind]}
    return case


def gen_rollback_case(rng, idx):
    """family 'rollback' (makeFeasible's priority/rollback search, colafd.cpp:730-853): overlap avoidance ON and groups of mutually
    overlapping rectangles that user equalities tie together in BOTH dimensions (FixedRelativeConstraint; x- and y-alignments with
    offsets; equality separations; mixtures), so that all four non-overlap alternatives of a tied pair are rejected and rolled
    back, or tied in ONE dimension only (some alternatives rejected, a later one accepted).  Every user constraint holds on the
    initial positions and the user system is a forest in each dimension (no equality on a cycle), so nothing in the domain of the
    known finding makefeasible_rejects_satisfiable_equality is generated on purpose; the other rectangles are free or carry
    satisfiable inequalities."""
    n = rng.range(3, 8)
    rects = [None] * n
    nodes = rng.shuffle(list(range(n)))
    ccs = []
    tied = []
    ngroups = 1 if n < 5 else rng.range(1, 2)
    for g in range(ngroups):
        k = rng.range(2, 3) if len(nodes) >= 4 else 2
        if len(nodes) < k + (0 if g else 1):
            break
        grp, nodes = sorted(nodes[:k]), nodes[k:]
        bx, by = rng.range(20, 180) * 16, rng.range(20, 180) * 16
        offs = []
        for j, v in enumerate(grp):
            w, h = rng.range(4, 12) * 32, rng.range(4, 12) * 32
            while True:
                dx, dy = (0, 0) if j == 0 else (rng.range(-5, 5) * 16, rng.range(-5, 5) * 16)
                if j == 0 or dx != dy:
                    break
            offs.append((dx, dy))
            rects[v] = [bx + dx - w // 2, bx + dx + w // 2, by + dy - h // 2, by + dy + h // 2]
        how = rng.choice(['fixedrel', 'fixedrel', 'align-align', 'sep-sep', 'align-sep', 'one-dim'])
        dims = [0, 1]
        if how == 'one-dim':
            dims = [rng.below(2)]
        for d in dims:
            kind = {'fixedrel': 'F', 'align-align': 'A', 'sep-sep': 'S', 'align-sep': 'AS'[d], 'one-dim': rng.choice('AS')}[how]
            if kind == 'F':
                if d == 0:
                    ccs.append({'code': 7, 'fixedpos': False, 'ids': list(grp)})
            elif kind == 'A':
                ccs.append({'code': 3, 'd': d, 'pos': (bx, by)[d], 'fixed': False, 'sh': [[v, offs[j][d]] for j, v in enumerate(grp)]})
            else:
                for j in range(1, len(grp)):
                    a = rng.below(j)                                  # a tree of equalities
                    ccs.append({'code': 1, 'd': d, 'l': grp[a], 'r': grp[j], 'g': offs[j][d] - offs[a][d], 'e': True})
        tied.append({'nodes': grp, 'how': how})
    free = nodes
    for v in free:
        w, h = rng.range(2, 12) * 32, rng.range(2, 12) * 32
        if rng.chance(1, 3) and tied:                                   # on top of a tied group
            t = rects[rng.choice(rng.choice(tied)['nodes'])]
            cx, cy = (t[0] + t[1]) // 2 + rng.range(-4, 4) * 16, (t[2] + t[3]) // 2 + rng.range(-4, 4) * 16
        else:
            cx, cy = rng.range(0, 200) * 16, rng.range(0, 200) * 16
        rects[v] = [cx - w // 2, cx + w // 2, cy - h // 2, cy + h // 2]
    # satisfiable inequalities among the free rectangles (index order = a witness order), holding initially or not
    for _ in range(rng.below(3)):
        if len(free) >= 2:
            a, b = rng.choice(free), rng.choice(free)
            if a != b:
                a, b = min(a, b), max(a, b)
                ccs.append({'code': 1, 'd': rng.below(2), 'l': a, 'r': b, 'g': rng.range(0, 40) * 16, 'e': False})
    ccs = rng.shuffle(ccs)
    edges = []
    for v in range(1, n):
        if rng.chance(3, 5):
            edges.append([rng.below(v), v])
    mode = [2, 2, 2, 0][idx % 4]
    return {'n': n, 'rects': rects, 'ccs': ccs, 'edges': edges, 'ideal': rng.choice([40, 60, 100]) * 16, 'mode': mode, 'overlap': 1,
            'neighbour': 0, 'stream': 'sat', 'kind': 'rollback', 'tied': tied}


def gen_single_axis_case(rng, idx):
    """family 'single-axis': ConstrainedFDLayout::run(xAxis, yAxis) with exactly one (or none) of the axes laid out, with and without
    a preceding makeFeasible().  Half of the cases are the general mixes of gen_layout_case with the mode replaced; half are directed:
    in EACH dimension a jointly satisfiable system (alignments with offsets over disjoint node sets, separations along a random
    witness order incl. equalities, a boundary) that the random initial positions violate - the dimension that is not laid out must
    still be projected onto its constraints (setPosition moves both axes), nothing may be left violated and unreported."""
    mode = [4, 5, 4, 5, 6, 7, 8, 9][idx % 8]
    if rng.chance(1, 6):
        mode += 16
    if idx % 2 == 1:
        c = gen_layout_case(rng.fork(), rng.below(8))
        if m_base(c['mode']) == 3:
            c['overlap'] = int(rng.chance(1, 2))
        c['mode'] = mode
        c['kind'] = 'single-axis/' + c['kind']
        return c
    n = rng.range(3, 9)
    rects = gen_rects(rng, n)
    ccs = []
    for d in (0, 1):
        order = rng.shuffle(list(range(n)))                    # witness: node order[k] sits at k*W, W large
        rank = {v: k for k, v in enumerate(order)}
        nodes = rng.shuffle(list(range(n)))
        # alignments over consecutive witness ranks are not satisfiable with a strict order; use separations with gap <= 0 inside
        # an aligned set: simpler - aligned sets take disjoint nodes and the separations only join DIFFERENT sets / free nodes through
        # set representatives ordered by the witness
        groups = []
        for _ in range(rng.range(0, 2)):
            k = rng.range(2, 3)
            if len(nodes) >= k:
                groups.append(nodes[:k]); nodes = nodes[k:]
        for g in groups:
            ccs.append({'code': 3, 'd': d, 'pos': rng.range(0, 200) * 16, 'fixed': False, 'sh': [[v, rng.range(-3, 3) * 40] for v in g]})
        reps = sorted([g[0] for g in groups] + nodes, key=lambda v: rank[v])
        for _ in range(rng.range(1, 3)):
            if len(reps) >= 2:
                i = rng.below(len(reps) - 1); j = rng.range(i + 1, len(reps) - 1)
                ccs.append({'code': 1, 'd': d, 'l': reps[i], 'r': reps[j], 'g': rng.range(0, 60) * 16, 'e': rng.chance(1, 5)})
        if rng.chance(1, 3) and reps:
            v = reps[0]
            ccs.append({'code': 4, 'd': d, 'pos': rng.range(0, 200) * 16, 'sh': [[v, -rng.choice([8, 24, 64])]]})
    ccs = rng.shuffle(ccs)
    edges = [[rng.below(v), v] for v in range(1, n) if rng.chance(5, 6)]
    return {'n': n, 'rects': rects, 'ccs': ccs, 'edges': edges, 'ideal': rng.choice([40, 60, 100]) * 16, 'mode': mode, 'overlap': 0,
            'neighbour': int(rng.chance(1, 6)), 'stream': 'sat', 'kind': 'single-axis/directed'}


def cc_nodes(case, j):
    """rectangles a compound constraint talks about (through the alignments it refers to)"""
    cc = case['ccs'][j]
    k = cc['code']
    if k == 1:
        return [cc['l'], cc['r']]
    if k in (3, 4):
        return [so[0] for so in cc['sh']]
    if k in (2, 5, 6):
        return [so[0] for a in refs_of(cc) if a < len(case['ccs']) and case['ccs'][a]['code'] == 3 for so in case['ccs'][a]['sh']]
    if k == 7:
        return list(cc['ids'])
    if k == 8:
        return [s[0] for s in cc['sh']]
    return []


def gen_reuse_case(rng, idx):
    """family 'reuse' (seeded change C07-6): ONE set of CompoundConstraint objects goes through a sequence of calls -
    makeFeasible(); rectangles moved (so that constraints are violated); makeFeasible() again on the same layout object; a fresh
    ConstrainedFDLayout built over the same rectangles and the same constraint objects; run() interleaved - and the state is judged
    after EVERY call, in particular after makeFeasible() alone (a following run() re-projects and would hide a skipped constraint).
    Two thirds directed: in each dimension a jointly satisfiable system along a random witness order (alignments with offsets over
    disjoint node sets; separations, alignment-pair separations, multi-separations, a distribution between the guidelines / free
    nodes in witness order; a boundary; sometimes a FixedRelativeConstraint = the combined branch and a PageBoundaryConstraints = a
    cursor-skipping object); one third the general mixes of gen_layout_case (incl. unsatisfiable ones: rejections, flag = 0)."""
    if idx % 3 == 2:
        c = gen_layout_case(rng.fork(), rng.choice([0, 2, 5, 6, 7, 8, 10, 16, 4, 9]))
        n = c['n']
        c['overlap'] = 0
        c['mode'] = 2
        c['kind'] = 'reuse/mix-' + c['stream']
    else:
        n = rng.range(3, 9)
        rects = gen_rects(rng, n)
        ccs = []
        for d in (0, 1):
            order = rng.shuffle(list(range(n)))
            rank = {v: k for k, v in enumerate(order)}
            nodes = rng.shuffle(list(range(n)))
            groups = []
            for _ in range(rng.range(0, 3)):
                k = rng.range(1, 3)
                if len(nodes) >= k + 1:
                    groups.append(nodes[:k]); nodes = nodes[k:]
            gpos = {}
            for g in groups:
                gpos[g[0]] = len(ccs)
                ccs.append({'code': 3, 'd': d, 'pos': rng.range(0, 200) * 16, 'fixed': False,
                            'sh': [[v, 0 if t == 0 else rng.range(-3, 3) * 40] for t, v in enumerate(g)]})
            reps = sorted([g[0] for g in groups] + nodes, key=lambda v: rank[v])
            for _ in range(rng.range(1, 3)):
                if len(reps) >= 2:
                    i = rng.below(len(reps) - 1); j = rng.range(i + 1, len(reps) - 1)
                    ccs.append({'code': 1, 'd': d, 'l': reps[i], 'r': reps[j], 'g': rng.range(0, 60) * 16, 'e': rng.chance(1, 6)})
            grep = sorted(gpos.keys(), key=lambda v: rank[v])
            if len(grep) >= 2:
                what = rng.choice(['sepa', 'multi', 'distrib', 'multi2', 'none'])
                a, b = grep[0], grep[1]
                if what == 'sepa':
                    ccs.append({'code': 2, 'd': d, 'la': gpos[a], 'ra': gpos[b], 'g': rng.range(0, 50) * 16, 'e': rng.chance(1, 5)})
                elif what == 'multi':
                    ccs.append({'code': 6, 'd': d, 'sep': rng.range(0, 40) * 16, 'e': False, 'prs': [[gpos[a], gpos[b]]]})
                elif what == 'distrib':
                    prs = [[gpos[a], gpos[b]]]
                    if len(grep) >= 3 and rng.chance(1, 2):
                        prs.append([gpos[b], gpos[grep[2]]])
                    ccs.append({'code': 5, 'd': d, 'sep': rng.range(1, 40) * 16, 'prs': prs})
                elif what == 'multi2' and len(grep) >= 3:
                    ccs.append({'code': 6, 'd': d, 'sep': rng.range(0, 30) * 16, 'e': False,
                                'prs': [[gpos[a], gpos[b]], [gpos[b], gpos[grep[2]]]]})
            if rng.chance(1, 3) and reps:
                ccs.append({'code': 4, 'd': d, 'pos': rng.range(0, 200) * 16,
                            'sh': [[reps[0], -rng.choice([8, 24, 64])]] + ([[reps[-1], rng.choice([8, 24, 64])]] if len(reps) > 1 and rng.chance(1, 2) else [])})
        if rng.chance(1, 4) and n >= 2:
            a = rng.below(n); b = rng.choice([x for x in range(n) if x != a])
            ccs.append({'code': 7, 'fixedpos': rng.chance(1, 4), 'ids': [a, b]})
        if rng.chance(1, 5):
            ccs.append({'code': 8, 'xlo': -100 * 16, 'xhi': 400 * 16, 'ylo': -100 * 16, 'yhi': 400 * 16, 'w': rng.choice([16, 1600]),
                        'sh': [[v, (rects[v][1] - rects[v][0]) // 2, (rects[v][3] - rects[v][2]) // 2] for v in range(n) if rng.chance(1, 2)]})
        # shuffle the list, keeping the references (positions of alignments) right
        perm = rng.shuffle(list(range(len(ccs))))
        newpos = {old: new for new, old in enumerate(perm)}
        out = []
        for old in perm:
            cc = dict(ccs[old])
            if cc['code'] == 2:
                cc['la'], cc['ra'] = newpos[cc['la']], newpos[cc['ra']]
            if cc['code'] in (5, 6):
                cc['prs'] = [[newpos[a], newpos[b]] for a, b in cc['prs']]
            out.append(cc)
        edges = [[rng.below(v), v] for v in range(1, n) if rng.chance(5, 6)]
        c = {'n': n, 'rects': rects, 'ccs': out, 'edges': edges, 'ideal': rng.choice([40, 60, 100]) * 16, 'mode': 2, 'overlap': 0,
             'neighbour': int(rng.chance(1, 8)), 'stream': 'sat', 'kind': 'reuse/directed'}

    def move():
        style = rng.choice(['random', 'targeted', 'targeted', 'all'])
        if style == 'all' or not c['ccs']:
            nodes = list(range(n))
        elif style == 'random':
            nodes = rng.shuffle(list(range(n)))[:rng.range(1, n)]
        else:
            nodes = []
            for _ in range(rng.range(1, 2)):
                nodes += cc_nodes(c, rng.below(len(c['ccs'])))
            nodes = sorted(set(v for v in nodes if v < n)) or [rng.below(n)]
        return ['MOVE', [[v, rng.range(0, 200) * 16, rng.range(0, 200) * 16] for v in nodes]]

    def runop():
        xa, ya = rng.choice([(1, 1), (1, 1), (1, 1), (1, 0), (0, 1)])
        return ['RUN', xa, ya]
    pat = idx % 8
    if pat == 0:
        ops = [['MF'], move(), ['MF']]
    elif pat == 1:
        ops = [['MF'], move(), ['NEW'], ['MF']]
    elif pat == 2:
        ops = [['MF'], runop(), move(), ['MF']]
    elif pat == 3:
        ops = [runop(), move(), ['MF'], move(), ['MF']]
    elif pat == 4:
        ops = [['MF'], move(), ['NEW'], ['MF'], runop(), move(), ['MF']]
    elif pat == 5:
        ops = [['MF'], move(), ['MF'], move(), ['NEW'], ['MF'], move(), ['MF']]
    else:
        ops = []
        for _ in range(rng.range(3, 7)):
            o = rng.choice(['MF', 'MF', 'MF', 'RUN', 'NEW', 'MOVE', 'MOVE'])
            ops.append(['MF'] if o == 'MF' else ['NEW'] if o == 'NEW' else runop() if o == 'RUN' else move())
        ops += [move(), ['MF']]
    c['ops'] = ops
    return c


# ----------------------------------------------------------------------------------------------- family 'cml-reuse' (harness mode cml)
def cops_tokens(cops):
    """op sequence of the family 'cml-reuse' (harness mode cml): ['PUSH', v, [idx..]] | ['SET', v] | ['RUN', xa, ya] | ['ONCE', xa, ya]
    | ['OVERLAP'] | ['LISTS', u]"""
    t = [len(cops)]
    for o in cops:
        if o[0] == 'PUSH':
            t += [1, int(o[1]), len(o[2])] + [int(x) for x in o[2]]
        elif o[0] == 'SET':
            t += [2, int(o[1])]
        elif o[0] == 'RUN':
            t += [3, int(o[1]), int(o[2])]
        elif o[0] == 'ONCE':
            t += [4, int(o[1]), int(o[2])]
        elif o[0] == 'OVERLAP':
            t += [5]
        elif o[0] == 'LISTS':
            t += [6, int(o[1])]
        else:
            raise ValueError(o)
    return t


def cml_line(case):
    return case_line(case, layout=True) + ' ' + ' '.join(str(int(x)) for x in cops_tokens(case['cops']))


def cops_text(cops, upto=None):
    out = ['ConstrainedMajorizationLayout alg(...); setUnsatisfiableConstraintInfo(&ux0,&uy0)']
    for o in (cops if upto is None else cops[:upto + 1]):
        if o[0] == 'PUSH':
            out.append('%s.push_back(cc %s)' % ('AB'[o[1]], ','.join(str(x) for x in o[2])))
        elif o[0] == 'SET':
            out.append('setConstraints(&%s)' % 'AB'[o[1]])
        elif o[0] in ('RUN', 'ONCE'):
            out.append('%s(%s,%s)' % ('run' if o[0] == 'RUN' else 'runOnce', 'true' if o[1] else 'false', 'true' if o[2] else 'false'))
        elif o[0] == 'OVERLAP':
            out.append('setAvoidOverlaps()')
        else:
            out.append('setUnsatisfiableConstraintInfo(&ux%d,&uy%d)' % (o[1], o[1]))
    return '; '.join(out)


def sub_case(case, members):
    """the constraint set in force: the members of the client vector, in order, references (positions of alignments) remapped;
    None if a reference points outside the vector (the generator never does that)"""
    pos = {}
    for k, g in enumerate(members):
        pos.setdefault(g, k)
    ccs = []
    for g in members:
        cc = dict(case['ccs'][g])
        try:
            if cc['code'] == 2:
                cc['la'], cc['ra'] = pos[cc['la']], pos[cc['ra']]
            if cc['code'] in (5, 6):
                cc['prs'] = [[pos[a], pos[b]] for a, b in cc['prs']]
        except KeyError:
            return None
        ccs.append(cc)
    return {'n': case['n'], 'rects': case['rects'], 'ccs': ccs}


def gen_cml_case(rng, idx):
    """family 'cml-reuse' (seeded change C07-7): ONE ConstrainedMajorizationLayout object, up to three run() calls; between the calls
    constraints are appended to the vector that was given to setConstraints(&v) and / or setConstraints(&other) is called; sometimes the
    unsatisfiable lists are re-registered, the first run has an empty vector, single-axis runs, runOnce().  The pool of constraints is
    jointly satisfiable BY CONSTRUCTION (a witness placement per dimension: guidelines / free nodes at rank * 80, aligned nodes at guideline +
    offset; separations and alignment-pair separations with gap <= witness distance, equalities with gap = witness distance), so every
    vector content is satisfiable: after EVERY run each constraint in force in a dimension that run laid out must hold (nothing is
    expected in the lists).  Separations, alignments, alignment-pair separations only: no FixedRelative / overlap (known findings)."""
    n = rng.range(3, 9)
    rects = gen_rects(rng, n)
    W = 80 * 16
    ccs = []
    for d in (0, 1):
        nodes = rng.shuffle(list(range(n)))
        groups = []
        for _ in range(rng.range(0, 3)):
            k = rng.range(1, 3)
            if len(nodes) >= k + 1:
                groups.append(nodes[:k]); nodes = nodes[k:]
        units = rng.shuffle([('g', g) for g in groups] + [('v', [v]) for v in nodes])      # witness order of guidelines / free nodes
        wpos = {}
        gl = []                                   # (pool index of the alignment, witness position)
        for r, (kind, g) in enumerate(units):
            if kind == 'g':
                sh = [[v, 0 if t == 0 else rng.range(-3, 3) * 40] for t, v in enumerate(g)]
                for v, o in sh:
                    wpos[v] = r * W + o
                gl.append((len(ccs), r * W))
                ccs.append({'code': 3, 'd': d, 'pos': rng.range(0, 200) * 16, 'fixed': False, 'sh': sh})
            else:
                wpos[g[0]] = r * W
        byw = sorted(range(n), key=lambda v: wpos[v])
        for _ in range(rng.range(2, 5)):
            i = rng.below(n - 1); j = rng.range(i + 1, min(n - 1, i + 3))
            l, r = byw[i], byw[j]
            dist = wpos[r] - wpos[l]
            if dist < 0:
                continue
            if rng.chance(1, 5):
                ccs.append({'code': 1, 'd': d, 'l': l, 'r': r, 'g': dist, 'e': True})
            else:
                ccs.append({'code': 1, 'd': d, 'l': l, 'r': r, 'g': min(dist, rng.range(0, 60) * 16), 'e': False})
        if len(gl) >= 2 and rng.chance(2, 3):
            gs = sorted(gl, key=lambda t: t[1])
            i = rng.below(len(gs) - 1)
            dist = gs[i + 1][1] - gs[i][1]
            e = rng.chance(1, 4)
            ccs.append({'code': 2, 'd': d, 'la': gs[i][0], 'ra': gs[i + 1][0], 'g': dist if e else min(dist, rng.range(0, 60) * 16), 'e': e})
    m = len(ccs)
    order = rng.shuffle(list(range(m)))
    cut1 = rng.range(0 if idx % 8 == 7 else 1, max(1, m - 1))
    cut2 = rng.range(cut1, m)
    parts = [order[:cut1], order[cut1:cut2], order[cut2:]]
    if idx % 8 == 7:
        parts = [[], order[:cut2], order[cut2:]]
    vec = {0: [], 1: []}

    def push(v, idxs):
        add = []
        for g in idxs:
            for a in refs_of(ccs[g]) + [g]:
                if a not in vec[v] and a not in add:
                    add.append(a)
        vec[v] += add
        return ['PUSH', v, add]

    def runop(kind='RUN'):
        xa, ya = (1, 1)
        if idx % 8 == 5:
            xa, ya = rng.choice([(1, 0), (0, 1), (1, 1)])
        return [kind, xa, ya]
    pat = idx % 8
    kind = 'ONCE' if pat == 6 else 'RUN'
    cops = [push(0, parts[0]), ['SET', 0], runop(kind)]
    if pat in (0, 4, 5, 6, 7):                       # append to the same vector (twice)
        if pat == 4:
            cops.append(['LISTS', 1])
        cops += [push(0, parts[1]), runop(kind)]
        if parts[2] and rng.chance(2, 3):
            cops += [push(0, parts[2]), runop(kind)]
    elif pat == 1:                                   # setConstraints(&other): the new ones alone or with some of the old
        keep = [g for g in parts[0] if rng.chance(1, 2)]
        cops += [push(1, rng.shuffle(keep + parts[1])), ['SET', 1], runop()]
        if parts[2] and rng.chance(1, 2):
            cops += [push(1, parts[2]), runop()]
    elif pat == 2:                                   # append, then another vector
        cops += [push(0, parts[1]), runop(), push(1, parts[2] + [g for g in parts[0] if rng.chance(1, 3)]), ['SET', 1], runop()]
    else:                                            # another vector, then back to the first one (grown meanwhile)
        cops += [push(1, parts[1]), ['SET', 1], runop(), push(0, parts[2]), ['SET', 0], runop()]
    edges = [[rng.below(v), v] for v in range(1, n) if rng.chance(5, 6)]
    return {'n': n, 'rects': rects, 'ccs': ccs, 'edges': edges, 'ideal': rng.choice([40, 60, 100]) * 16, 'mode': 3, 'overlap': 0,
            'neighbour': int(rng.chance(1, 8)), 'stream': 'sat', 'kind': 'cml-reuse/' + ['append', 'other-vector', 'append+other', 'other+back',
                                                                                      'append+relist', 'single-axis', 'runOnce', 'empty-first'][pat],
            'cops': cops}


def parse_cml(line, n):
    """'CML ncalls (CALL op R <4n> UX k ids UY k ids STALE k IN v m ids [EXC text])*' -> list of calls; raises ValueError on anything else"""
    t = line.split()
    if len(t) < 2 or t[0] != 'CML':
        raise ValueError('no CML record')
    calls, p = [], 2

    def expect(tok):
        if p >= len(t) or t[p] != tok:
            raise ValueError('expected %s at token %d' % (tok, p))
    while p < len(t):
        expect('CALL')
        call = {'op': int(t[p + 1]), 'EXC': None}
        p += 2
        expect('R'); p += 1
        if p + 4 * n > len(t):
            raise ValueError('short rectangle list')
        call['R'] = [[float(x) for x in t[p + 4 * i:p + 4 * i + 4]] for i in range(n)]
        p += 4 * n
        for key in ('UX', 'UY'):
            expect(key)
            k = int(t[p + 1]); call[key] = [int(x) for x in t[p + 2:p + 2 + k]]; p += 2 + k
            if len(call[key]) != k:
                raise ValueError('short list ' + key)
        expect('STALE'); call['STALE'] = int(t[p + 1]); p += 2
        expect('IN'); call['vec'] = int(t[p + 1]); k = int(t[p + 2]); call['IN'] = [int(x) for x in t[p + 3:p + 3 + k]]; p += 3 + k
        if len(call['IN']) != k:
            raise ValueError('short list IN')
        if p < len(t) and t[p] == 'EXC':
            call['EXC'] = t[p + 1].replace('_', ' ') if p + 1 < len(t) else '?'; p += 2
        calls.append(call)
    if len(calls) != int(t[1]):
        raise ValueError('call count')
    return calls


def cml_sequences(res, rng, ncases, cpp, ml, corpus=True):
    cases = [gen_cml_case(rng.fork(), i) for i in range(ncases)]
    if corpus:
        for f in sorted(os.listdir(os.path.join(C.VERIF, 'corpus')), reverse=True):
            if f.startswith('c07_cml_') and f.endswith('.json'):
                cases.insert(0, json.load(open(os.path.join(C.VERIF, 'corpus', f))))
    lines = [cml_line(c) for c in cases]
    rc, out, err = run_restarting(cpp, ['cml', '6'], lines)
    stats = {'sequences': 0, 'runs': 0, 'runs_after_the_first': 0, 'runs_after_append_to_registered_vector': 0, 'runs_after_setConstraints_other_vector': 0,
             'runs_after_relisting': 0, 'cc_in_force_evaluated': 0, 'cc_in_force_added_since_first_run_evaluated': 0, 'cc_excluded_reported': 0,
             'cc_skipped_axis_not_run': 0, 'cc_skipped_infeasible_dim': 0, 'exceptions': 0, 'by_kind': {}}
    viols = []
    if rc != 0 or len(out) < len(cases):
        done = len([l for l in out if l.strip()])
        bad = cases[done] if done < len(cases) else None
        viols.append({'what': 'layout harness (mode cml) crashed (signal/abort) on this case', 'rc': rc, 'case': bad, 'stderr': err[-1500:],
                      'calls': cops_text(bad['cops']) if bad else None, 'replay': 'echo "%s" | <c07_cc harness> cml' % (lines[done] if bad else '')})
        cases = cases[:done]
    parsed = []
    chk_lines, chk_key, gen_lines = [], [], []
    for i, c in enumerate(cases):
        rp0 = 'echo "%s" | <c07_cc harness> cml' % lines[i]
        if out[i].startswith('SKIP'):
            parsed.append(None); continue
        if out[i].startswith('HANG'):
            phase = out[i].split()[1] if len(out[i].split()) > 1 else '?'
            viols.append({'what': 'a call of the sequence did not return within the CPU-time limit (6 s; typical: milliseconds) - non-termination in ' + phase,
                          'phase': phase, 'calls': cops_text(c['cops']), 'case': c, 'replay': rp0 + ' 6'})
            parsed.append(None); continue
        try:
            calls = parse_cml(out[i], c['n'])
        except (ValueError, IndexError) as ex:
            viols.append({'what': 'harness output (mode cml) that the check cannot interpret: ' + str(ex), 'calls': cops_text(c['cops']), 'case': c,
                          'output': out[i][:400], 'replay': rp0})
            parsed.append(None); continue
        parsed.append(calls)
        stats['sequences'] += 1
        stats['by_kind'][c['kind']] = stats['by_kind'].get(c['kind'], 0) + 1
        # the client's view: which vector is registered, what it contains at each run
        vec, cur, first_members, prev = {0: [], 1: []}, None, None, None
        nextop = 0
        for q, call in enumerate(calls):
            if not (nextop <= call['op'] < len(c['cops'])) or c['cops'][call['op']][0] not in ('RUN', 'ONCE'):
                viols.append({'what': 'harness output (mode cml) does not follow the op list (CALL record %d names op %d)' % (q, call['op']),
                              'calls': cops_text(c['cops']), 'case': c, 'output': out[i][:400], 'replay': rp0})
                break
            relisted = False
            for o in c['cops'][nextop:call['op']]:
                if o[0] == 'PUSH':
                    vec[o[1]] += list(o[2])
                elif o[0] == 'SET':
                    cur = o[1]
                elif o[0] == 'LISTS':
                    relisted = True
            nextop = call['op'] + 1
            members = list(vec[cur]) if cur is not None else []
            call['members'] = members
            rp = rp0 + '    # one CALL record per run(); this is record %d (op %d)' % (q, call['op'])
            if call['vec'] != (cur if cur is not None else -1) or call['IN'] != members:
                viols.append({'what': 'harness (mode cml) and check disagree about the vector in force at run %d' % q, 'harness': [call['vec'], call['IN']],
                              'check': [cur, members], 'calls': cops_text(c['cops']), 'case': c, 'replay': rp})
                break
            stats['runs'] += 1
            if q > 0:
                stats['runs_after_the_first'] += 1
                if prev is not None and prev[0] == cur and prev[1] != members:
                    stats['runs_after_append_to_registered_vector'] += 1
                if prev is not None and prev[0] != cur:
                    stats['runs_after_setConstraints_other_vector'] += 1
                if relisted:
                    stats['runs_after_relisting'] += 1
            prev = (cur, members)
            if first_members is None:
                first_members = set(members)
            call['new'] = [g for g in members if g not in first_members]
            if call['EXC']:
                stats['exceptions'] += 1
                v = {'what': 'ConstrainedMajorizationLayout::run() number %d on one layout object threw: the postcondition of C07 is not delivered' % (q + 1),
                     'exception': call['EXC'], 'calls_so_far': cops_text(c['cops'], call['op']), 'case': c, 'replay': rp}
                if call['EXC'].startswith('char*'):
                    v['fingerprint'] = 'vpsc_satisfy_throws_charptr'
                viols.append(v)
                break
            R = call['R']
            if not all(math.isfinite(x) for r in R for x in r):
                viols.append({'what': 'NaN or infinite coordinate after run() number %d on one ConstrainedMajorizationLayout object' % (q + 1),
                              'calls_so_far': cops_text(c['cops'], call['op']), 'result': R, 'case': c, 'replay': rp})
                break
            size_bad = [j for j, r in enumerate(R) if abs(r[2] - (c['rects'][j][1] - c['rects'][j][0]) / 16.0) > 1e-9 or
                        abs(r[3] - (c['rects'][j][3] - c['rects'][j][2]) / 16.0) > 1e-9]
            if size_bad:
                viols.append({'what': 'rectangle size changed by run() number %d on one ConstrainedMajorizationLayout object' % (q + 1), 'nodes': size_bad,
                              'calls_so_far': cops_text(c['cops'], call['op']), 'result': R, 'case': c, 'replay': rp})
                break
            if call['STALE']:
                viols.append({'what': 'run() number %d wrote %d entries into unsatisfiable-constraint lists that are no longer registered '
                                      '(setUnsatisfiableConstraintInfo was called with other lists before this run)' % (q + 1, call['STALE']),
                              'calls_so_far': cops_text(c['cops'], call['op']), 'case': c, 'replay': rp})
                break
            if max(abs(x) for r in R for x in r[:2]) > 2.0 ** 40:
                break
            sc = sub_case(c, members)
            if sc is None:
                break
            call['sub'] = sc
            if members:
                chk_lines.append(checker_line(sc, R)); chk_key.append((i, q)); gen_lines.append(case_line(sc))
    if chk_lines:
        rc2, out2, err2 = run_lines(ml, ['check'], chk_lines)
        rcg, og, eg = run_lines(ml, ['gen'], gen_lines)
        if rc2 != 0 or len(out2) < len(chk_lines) or rcg != 0 or len(og) < 2 * len(gen_lines):
            viols.append({'what': 'extracted checker / generator failed to run (family cml-reuse)', 'rc': [rc2, rcg], 'stderr': (err2 + eg)[-1500:], 'machinery': True})
        else:
            for k, (i, q) in enumerate(chk_key):
                c, call = cases[i], parsed[i][q]
                members, sc = call['members'], call['sub']
                flags = out2[k].split()
                o = c['cops'][call['op']]
                axes = (bool(o[1]), bool(o[2]))
                rp = 'echo "%s" | <c07_cc harness> cml    # CALL record %d (op %d)' % (lines[i], q, call['op'])
                if len(flags) != len(members) or any(len(f) != 2 for f in flags):
                    viols.append({'what': 'verified checker output does not match the constraint set in force (family cml-reuse)', 'checker_output': out2[k][:300],
                                  'calls_so_far': cops_text(c['cops'], call['op']), 'case': c, 'replay': rp})
                    continue
                feas = [None, None]
                for d in (0, 1):
                    g = parse_gen_safe(og[2 * k + d])
                    if g[0] == 'OK':
                        feas[d] = feasible(c['n'] + len(g[1]), g[3])
                local = {g: j for j, g in reversed(list(enumerate(members)))}
                done_one = False
                for j, g in enumerate(members):
                    cc = c['ccs'][g]
                    for d in (0, 1):
                        rep = set(x for x in (call['UX'] if d == 0 else call['UY']) if x >= 0)
                        if (g in rep) or any(a in rep for a in refs_of(cc)):
                            stats['cc_excluded_reported'] += 1
                            continue
                        if not axes[d]:
                            stats['cc_skipped_axis_not_run'] += 1      # run(x,y) of the majorization layout projects only the axes it lays out
                            continue
                        if feas[d] is not True:
                            stats['cc_skipped_infeasible_dim'] += 1
                            continue
                        stats['cc_in_force_evaluated'] += 1
                        if g in call['new']:
                            stats['cc_in_force_added_since_first_run_evaluated'] += 1
                        if flags[j][d] == '1' or done_one:
                            continue
                        done_one = True
                        viols.append({'what': 'compound constraint IN FORCE at run() number %d on one ConstrainedMajorizationLayout object (member of the vector registered with '
                                              'setConstraints at that call; the constraint set in force is jointly satisfiable) is violated by more than 1e-4 '
                                              'after that run and not reported unsatisfiable' % (q + 1),
                                      'calls_so_far': cops_text(c['cops'], call['op']), 'run_index': q, 'run_axes': axes,
                                      'constraint_was_in_force_at_the_first_run': g not in call['new'],
                                      'constraint_index_in_the_case': g, 'position_in_the_registered_vector': j, 'constraint': cc, 'type': CODES[cc['code']], 'dim': 'XY'[d],
                                      'vector_in_force': 'AB'[call['vec']] if call['vec'] >= 0 else None, 'members_in_force': members,
                                      'constraints_in_force_jointly_satisfiable_in_dim': feas[d],
                                      'centres_after_the_run': [r[:2] for r in call['R']], 'reported_unsat_X': call['UX'], 'reported_unsat_Y': call['UY'],
                                      'case': c, 'replay': rp})
    return cases, viols, stats


def parse_gen_safe(line):
    try:
        return parse_gen(line)
    except (AssertionError, ValueError, IndexError):
        return ('BAD', line)


def feasible(nvars, cs):
    """exact feasibility of a system of separation constraints x_l + g <= x_r (== when eq): no positive cycle
    (Bellman-Ford longest paths over Fractions; the gaps are dyadic so Fraction(float) is exact)"""
    edges = []
    for l, r, g, e in cs:
        g = Fraction(g)
        edges.append((l, r, g))
        if e:
            edges.append((r, l, -g))
    dist = [Fraction(0)] * nvars
    for it in range(nvars + 1):
        changed = False
        for l, r, g in edges:
            if l < nvars and r < nvars and dist[l] + g > dist[r]:
                dist[r] = dist[l] + g
                changed = True
        if not changed:
            return True
    return False


def has_equality_cycle(nvars, cs):
    """is there a cycle made of equality constraints only (a redundant or contradictory equality)?  union-find"""
    par = list(range(nvars))

    def find(a):
        while par[a] != a:
            par[a] = par[par[a]]
            a = par[a]
        return a
    for l, r, g, e in cs:
        if e and l < nvars and r < nvars:
            a, b = find(l), find(r)
            if a == b:
                return True
            par[a] = b
    return False


def equality_on_cycle(nvars, cs):
    """does some equality constraint lie on an undirected cycle of the constraint multigraph (= it is not a bridge; parallel
    constraints between the same two variables form a cycle)?  IncSolver::satisfy flags a constraint unsatisfiable only when both
    of its variables are already in one block (solve_VPSC.cpp:262-300), i.e. joined by other active constraints: the flagged
    constraint closes an undirected cycle.  For a jointly satisfiable system such a cycle must contain an equality (a cycle of
    tight inequalities plus a violated inequality is a positive cycle).  Without such a cycle makeFeasible() never rolls back a
    user constraint of a satisfiable system."""
    es = [(l, r, bool(e)) for (l, r, g, e) in cs if l < nvars and r < nvars]
    for k, (l, r, e) in enumerate(es):
        if not e:
            continue
        if l == r:
            return True
        # is r reachable from l without edge k?
        seen, todo = {l}, [l]
        while todo:
            a = todo.pop()
            for k2, (x, y, _) in enumerate(es):
                if k2 == k:
                    continue
                b = y if x == a else (x if y == a else None)
                if b is not None and b not in seen:
                    seen.add(b); todo.append(b)
        if r in seen:
            return True
    return False


def cc_edges(case, d):
    """classifier support (labels only, never the verdict): per compound constraint the separation constraints it generates in
    dimension d as (l, r, gap, eq) over Fractions, re-derived here from the case; alignment-referencing constraints also carry
    the edges of the alignments they refer to (their meaning goes through them).  None if the system does not generate."""
    n, ccs = case['n'], case['ccs']
    vid, nxt = {}, n
    for i, cc in enumerate(ccs):
        if cc['code'] in (3, 4) and cc['d'] == d:
            vid[i] = nxt; nxt += 1
        elif cc['code'] == 8 and cc['w'] != 0:
            vid[i] = nxt; nxt += 2
    Q = lambda k: Fraction(k, 16)
    own = []
    for i, cc in enumerate(ccs):
        e, k = [], cc['code']
        if k == 1 and cc['d'] == d:
            e.append((cc['l'], cc['r'], Q(cc['g']), cc['e']))
        elif k == 2 and cc['d'] == d:
            if cc['la'] not in vid or cc['ra'] not in vid:
                return None, nxt
            e.append((vid[cc['la']], vid[cc['ra']], Q(cc['g']), cc['e']))
        elif k == 3 and cc['d'] == d:
            e += [(vid[i], s, Q(o), True) for s, o in cc['sh']]
        elif k == 4 and cc['d'] == d:
            e += [((s, vid[i], Q(-o), False) if o < 0 else (vid[i], s, Q(o), False)) for s, o in cc['sh']]
        elif k in (5, 6) and cc['d'] == d:
            for a, b in cc['prs']:
                if a not in vid or b not in vid or ccs[a]['code'] != 3 or ccs[b]['code'] != 3:
                    return None, nxt
                e.append((vid[a], vid[b], Q(cc['sep']), True if k == 5 else cc['e']))
        elif k == 7:
            ids = sorted(set(cc['ids']))
            c0 = [Fraction(r[0] + r[1], 32) if d == 0 else Fraction(r[2] + r[3], 32) for r in case['rects']]
            e += [(ids[0], t, c0[t] - c0[ids[0]], True) for t in ids[1:]]
        elif k == 8 and i in vid:
            for s, hx, hy in cc['sh']:
                h = Q(hx if d == 0 else hy)
                e += [(vid[i], s, h, False), (s, vid[i] + 1, h, False)]
        own.append(e)
    full = []
    for i, cc in enumerate(ccs):
        e = list(own[i])
        for a in refs_of(cc):
            if a < len(own) and ccs[a]['code'] == 3 and ccs[a]['d'] == d:
                e += own[a]
        full.append(e)
    return (own, full), nxt


def on_positive_closed_walk(nvars, all_edges, mine):
    """does some separation constraint in `mine` lie on a closed walk of positive total gap (an infeasible cycle) of the
    constraint graph?  walks of at most nvars edges; exact arithmetic"""
    dire = []
    for l, r, g, e in all_edges:
        dire.append((l, r, g))
        if e:
            dire.append((r, l, -g))
    for l0, r0, g0, e0 in mine:
        for (a, b, g) in ([(l0, r0, g0), (r0, l0, -g0)] if e0 else [(l0, r0, g0)]):
            if a >= nvars or b >= nvars:
                continue
            NEG = None
            best = [NEG] * nvars
            best[b] = Fraction(0)
            for _ in range(nvars):
                nb = list(best)
                for l, r, w in dire:
                    if l < nvars and r < nvars and best[l] is not None and (nb[r] is None or best[l] + w > nb[r]):
                        nb[r] = best[l] + w
                best = nb
                if best[a] is not None and best[a] + g > 0:
                    return True
    return False


def majorization_divergence_domain(c):
    """classifier: ConstrainedMajorizationLayout with setAvoidOverlaps and a FixedRelativeConstraint(fixedPosition=true)"""
    return m_base(c['mode']) == 3 and c['overlap'] == 1 and any(cc['code'] == 7 and cc['fixedpos'] for cc in c['ccs'])


def refs_of(cc):
    if cc['code'] == 2:
        return [cc['la'], cc['ra']]
    if cc['code'] in (5, 6):
        return [x for ab in cc['prs'] for x in ab]
    return []


def parse_layout(line, n):
    t = line.split()
    if not t or t[0] != 'R':
        return None
    p = 1
    R = []
    for i in range(n):
        R.append([float(x) for x in t[p:p + 4]]); p += 4
    out = {'R': R, 'UX': [], 'UY': [], 'PG': {}, 'EXC': None, 'TR': None}
    while p < len(t):
        if t[p] in ('UX', 'UY'):
            k = int(t[p + 1]); out[t[p]] = [int(x) for x in t[p + 2:p + 2 + k]]; p += 2 + k
        elif t[p] == 'PG':
            out['PG'][int(t[p + 1])] = [float(x) for x in t[p + 2:p + 6]]; p += 6
        elif t[p] == 'TR':
            out['TR'] = (int(t[p + 1]), int(t[p + 2]), int(t[p + 3]), int(t[p + 4]), t[p + 5]); p += 6
        elif t[p] == 'EXC':
            out['EXC'] = ' '.join(t[p + 1:]); break
        else:
            p += 1
    return out


def checker_line(case, R):
    tol = TOL + SLACK
    cs = []
    for r in R:
        cs += [int(round(r[0] * GRID)), int(round(r[1] * GRID))]
    return '%s | %d %d | %d %s' % (case_line(case), tol.numerator, tol.denominator, GRID, ' '.join(str(c) for c in cs))


def layouts(res, rng, ncases, cpp, ml, corpus=True, nroll=0, nsingle=0):
    cases = [gen_layout_case(rng.fork(), i) for i in range(ncases)]
    rr = rng.fork()
    cases += [gen_rollback_case(rr.fork(), i) for i in range(nroll)]
    rs = rng.fork()
    cases += [gen_single_axis_case(rs.fork(), i) for i in range(nsingle)]
    if corpus:
        for f in sorted(os.listdir(os.path.join(C.VERIF, 'corpus'))):
            if f.startswith('c07_layout_') and f.endswith('.json'):
                cases.insert(0, json.load(open(os.path.join(C.VERIF, 'corpus', f))))
    lines = [case_line(c, layout=True) for c in cases]
    rc, out, err = run_restarting(cpp, ['layout', '6'], lines)
    stats = {'layouts': 0, 'reported_unsat': 0, 'exceptions': 0, 'cc_evaluated': 0, 'cc_excluded_reported': 0, 'by_mode': {}, 'by_kind': {},
             'by_type': {}, 'unchecked_huge': 0}
    viols = []
    if rc != 0 or len(out) < len(cases):
        # the harness died: find the case
        done = len([l for l in out if l.strip()])
        bad = cases[done] if done < len(cases) else None
        viols.append({'what': 'layout harness crashed (signal/abort) on this case', 'rc': rc, 'case': bad,
                      'stderr': err[-1500:], 'replay': 'echo "%s" | <c07_cc harness> layout' % (lines[done] if bad else '')})
        cases = cases[:done]
    # the model's generated constraints per dimension -> is the user system jointly satisfiable?
    rcg, og, eg = run_lines(ml, ['gen'], [case_line(c) for c in cases])
    for i, c in enumerate(cases):
        c['feasible'] = [None, None]
        if rcg == 0 and len(og) >= 2 * len(cases):
            for d in (0, 1):
                g = parse_gen_safe(og[2 * i + d])
                if g[0] == 'OK':
                    c['feasible'][d] = feasible(c['n'] + len(g[1]), g[3])
                    c.setdefault('eqcycle', [None, None])[d] = has_equality_cycle(c['n'] + len(g[1]), g[3])
                    c.setdefault('haseq', [None, None])[d] = any(e for (_, _, _, e) in g[3])
                    c.setdefault('eqoncycle', [None, None])[d] = equality_on_cycle(c['n'] + len(g[1]), g[3])
    chk_lines, chk_idx, parsed = [], [], []
    for i, c in enumerate(cases):
        try:
            r = parse_layout(out[i], c['n'])
            if r is not None and (len(r['R']) != c['n'] or any(len(q) != 4 for q in r['R'])):
                r = None
        except (ValueError, IndexError):
            r = None
        parsed.append(r)
        if r is None:
            if out[i].startswith('SKIP'):
                continue
            if out[i].startswith('HANG'):
                phase = out[i].split()[1] if len(out[i].split()) > 1 else '?'
                stats['hangs'] = stats.get('hangs', 0) + 1
                v = {'what': 'layout call did not return within the CPU-time limit (6 s; typical: milliseconds) - non-termination in ' + phase,
                     'phase': phase, 'case': c, 'replay': 'echo "%s" | <c07_cc harness> layout 6' % lines[i]}
                # classifier for the known non-termination of makeFeasible(): overlap avoidance on and the loop is in makeFeasible
                if phase == 'makeFeasible' and c['overlap'] == 1 and m_mf(c['mode']):
                    v['fingerprint'] = 'makefeasible_hang_unsat_nonoverlap'
                # classifier: the majorization divergence (coordinates run away, the stress never converges) shows as a run() that
                # does not return, in exactly the domain of that finding
                if phase == 'majorization-run' and majorization_divergence_domain(c):
                    v['fingerprint'] = 'majorization_fixedrelative_overlap_divergence'
                viols.append(v)
                continue
            viols.append({'what': 'harness output that the check cannot interpret (mode layout)', 'case': c, 'output': out[i][:300],
                          'replay': 'echo "%s" | <c07_cc harness> layout' % lines[i]}); continue
        stats['layouts'] += 1
        mk = 'mode%d' % c['mode']
        stats['by_mode'][mk] = stats['by_mode'].get(mk, 0) + 1
        stats['by_kind'][c['kind']] = stats['by_kind'].get(c['kind'], 0) + 1
        if r['EXC']:
            stats['exceptions'] += 1
            v = {'what': 'layout threw: the postcondition of C07 is not delivered', 'exception': r['EXC'], 'case': c,
                 'replay': 'echo "%s" | <c07_cc harness> layout' % lines[i]}
            # classifier: the char* that only IncSolver::satisfy's final scan throws (solve_VPSC.cpp:326), out of the majorization layout
            if r['EXC'].startswith('char*') and m_base(c['mode']) == 3:
                v['fingerprint'] = 'vpsc_satisfy_throws_charptr'
            # classifier: coordinates run away (assertion on the rectangle width fails at huge coordinates) in the combination below
            if majorization_divergence_domain(c) and ('fabs(width()-w)<1e-9' in r['EXC'] or 'fabs(height()-h)<1e-9' in r['EXC']):
                v['fingerprint'] = 'majorization_fixedrelative_overlap_divergence'
            viols.append(v)
            continue
        bad_num = [j for j, q in enumerate(r['R']) if not all(math.isfinite(x) for x in q)]
        if bad_num:
            viols.append({'what': 'NaN or infinite coordinate in the result', 'nodes': bad_num, 'result': r['R'], 'case': c,
                          'replay': 'echo "%s" | <c07_cc harness> layout' % lines[i]})
            continue
        size_bad = [j for j, q in enumerate(r['R']) if abs(q[2] - (c['rects'][j][1] - c['rects'][j][0]) / 16.0) > 1e-9 or
                    abs(q[3] - (c['rects'][j][3] - c['rects'][j][2]) / 16.0) > 1e-9]
        huge = max(abs(x) for q in r['R'] for x in q[:2]) > 1e6
        if size_bad:
            v = {'what': 'rectangle size changed by the layout', 'nodes': size_bad, 'result': r['R'], 'case': c,
                 'replay': 'echo "%s" | <c07_cc harness> layout' % lines[i]}
            if huge and majorization_divergence_domain(c):
                v['fingerprint'] = 'majorization_fixedrelative_overlap_divergence'
            viols.append(v)
            continue
        if huge and majorization_divergence_domain(c):
            viols.append({'what': 'coordinates diverge (|coordinate| > 1e6 from inputs within [0,200]); constraints cannot hold to 1e-4 there',
                          'result': r['R'], 'case': c, 'replay': 'echo "%s" | <c07_cc harness> layout' % lines[i],
                          'fingerprint': 'majorization_fixedrelative_overlap_divergence'})
            continue
        if max(abs(x) for q in r['R'] for x in q[:2]) > 2.0 ** 40:
            stats['unchecked_huge'] += 1
            continue
        if r['UX'] or r['UY']:
            stats['reported_unsat'] += 1
        chk_lines.append(checker_line(c, r['R'])); chk_idx.append(i)
    # ---- control-flow correspondence: the projections run() performed (probe) vs the Coq trace model run_trace for the same flags
    tr_idx = [i for i, r in enumerate(parsed) if r is not None and r.get('TR') is not None and not r['EXC']]
    trace_viols = []
    if tr_idx:
        rct, outt, errt = run_lines(ml, ['trace'], ['%d %d %d %d' % parsed[i]['TR'][:4] for i in tr_idx])
        if rct != 0 or len(outt) < len(tr_idx):
            viols.append({'what': 'extracted trace model failed to run', 'rc': rct, 'stderr': errt[-1500:], 'machinery': True})
        else:
            stats['trace_runs_compared'] = len(tr_idx)
            stats['trace_by_flags'] = {}
            for k, i in enumerate(tr_idx):
                rk, xa, ya, iters, got = parsed[i]['TR']
                key = 'rk=%d x=%d y=%d' % (rk, xa, ya)
                stats['trace_by_flags'][key] = stats['trace_by_flags'].get(key, 0) + 1
                exp = outt[k].split() or ['?']
                if exp[0] != got:
                    trace_viols.append({'what': 'ConstrainedFDLayout::run(%s,%s) does not perform the projections of the control-flow model '
                                                '(Cola/CompoundCsModel.v run_trace; theorems driver_last_step_is_projection / '
                                                'C07_single_axis_run_ends_with_both_projections rest on it): x / y = one solve of that dimension, '
                                                'in program order' % ('true' if xa else 'false', 'true' if ya else 'false'),
                                        'layout_calls': mode_name(cases[i]['mode']), 'iterations': iters,
                                        'implementation_projections': got[:120] + ('...' if len(got) > 120 else ''),
                                        'model_projections': exp[0][:120] + ('...' if len(exp[0]) > 120 else ''),
                                        'model_last_write_X_Y': exp[1:3], 'trace_diff': True, 'case': cases[i],
                                        'replay': 'echo "%s" | <c07_cc harness> layout   # field TR <rk> <xAxis> <yAxis> <iterations> <projections>' % lines[i]})
    if chk_lines:
        rc2, out2, err2 = run_lines(ml, ['check'], chk_lines)
        # the same verified checker on the INITIAL centres (which constraints held before the call)
        init_lines = [checker_line(cases[i], [[(q[0] + q[1]) / 32.0, (q[2] + q[3]) / 32.0] for q in cases[i]['rects']]) for i in chk_idx]
        rc3, out3, err3 = run_lines(ml, ['check'], init_lines)
        if rc2 != 0 or len(out2) < len(chk_lines) or rc3 != 0 or len(out3) < len(chk_lines):
            viols.append({'what': 'extracted checker failed to run', 'rc': rc2, 'stderr': (err2 + err3)[-1500:], 'machinery': True})
        else:
            for k, i in enumerate(chk_idx):
                c, r = cases[i], parsed[i]
                flags = out2[k].split()
                before = out3[k].split()
                if len(flags) != len(c['ccs']) or len(before) != len(c['ccs']) or any(len(f) != 2 for f in flags + before):
                    viols.append({'what': 'verified checker output does not match the constraint list of the case', 'checker_output': out2[k][:300], 'case': c,
                                  'replay': 'echo "%s" | <c07_cc harness> layout' % lines[i]})
                    continue
                if c.get('kind') == 'rollback':
                    stats['rollback_cases'] = stats.get('rollback_cases', 0) + 1
                    stats.setdefault('rollback_by_tie', {})
                    stuck = False
                    for t in c['tied']:
                        stats['rollback_by_tie'][t['how']] = stats['rollback_by_tie'].get(t['how'], 0) + 1
                        for a in t['nodes']:
                            for b in t['nodes']:
                                if a < b:
                                    qa, qb = r['R'][a], r['R'][b]
                                    if abs(qa[0] - qb[0]) < (qa[2] + qb[2]) / 2 - 1e-3 and abs(qa[1] - qb[1]) < (qa[3] + qb[3]) / 2 - 1e-3:
                                        stuck = True
                    if stuck:      # a tied pair still overlaps: all four non-overlap alternatives were rejected and rolled back
                        stats['rollback_all_alternatives_rejected'] = stats.get('rollback_all_alternatives_rejected', 0) + 1
                for j, cc in enumerate(c['ccs']):
                    tname = CODES[cc['code']]
                    for d in (0, 1):
                        rep = set(x for x in (r['UX'] if d == 0 else r['UY']) if x >= 0)
                        excluded = (j in rep) or any(a in rep for a in refs_of(cc))
                        if excluded:
                            stats['cc_excluded_reported'] += 1
                            continue
                        if m_mf_only(c['mode']) and c['feasible'][d] is not True:
                            # makeFeasible() alone has no channel to report what it dropped: domain = jointly satisfiable systems
                            stats['cc_skipped_mf_only_infeasible'] = stats.get('cc_skipped_mf_only_infeasible', 0) + 1
                            continue
                        stats['cc_evaluated'] += 1
                        stats['by_type'][tname] = stats['by_type'].get(tname, 0) + 1
                        held = (before[j][d] == '1')
                        if m_mf_only(c['mode']) and held:
                            stats['cc_held_before_makefeasible'] = stats.get('cc_held_before_makefeasible', 0) + 1
                        if flags[j][d] != '1':
                            v = {'what': ('compound constraint that HELD on the initial positions (jointly satisfiable system) is violated by more than 1e-4 '
                                          'after makeFeasible(), nothing reported' if (m_mf_only(c['mode']) and held) else
                                          'compound constraint violated by more than 1e-4 in the final layout and not reported unsatisfiable'),
                                 'layout_calls': mode_name(c['mode']),
                                 'dimension_laid_out_by_run': (None if not m_run(c['mode']) else bool(m_axes(c['mode'])[d])),
                                 'held_on_initial_positions': held,
                                 'initial_centres': [[(q[0] + q[1]) / 32.0, (q[2] + q[3]) / 32.0] for q in c['rects']],
                                 'constraint_index': j, 'constraint': cc, 'type': tname, 'dim': 'XY'[d],
                                 'user_system_jointly_satisfiable_in_dim': c['feasible'][d],
                                 'final_centres': [q[:2] for q in r['R']], 'reported_unsat_X': r['UX'], 'reported_unsat_Y': r['UY'],
                                 'case': c, 'replay': 'echo "%s" | <c07_cc harness> layout' % lines[i]}
                            # classifier for "constraints dropped by the projection in moveTo() are never reported" (colafd.cpp:1063-1098):
                            # ConstrainedFDLayout run(); the violated constraint lies on an infeasible cycle (a closed walk of positive total
                            # gap) of the separation constraints generated for that dimension - exact oracle - and at least one constraint
                            # IS reported unsatisfiable in that dimension (the solver dropped another member of the cycle where it is reported)
                            rep_any = (r['UX'] if d == 0 else r['UY'])
                            if m_run(c['mode']) and len(rep_any) > 0:
                                ed, nvars = cc_edges(c, d)
                                if ed is not None:
                                    alle = [e for es in ed[0] for e in es]
                                    if on_positive_closed_walk(nvars, alle, ed[1][j]):
                                        v['on_infeasible_cycle'] = True
                                        v['fingerprint'] = 'unreported_drop_in_moveTo'
                            # classifier for "makeFeasible() alone rejects a satisfiable constraint when equalities are involved":
                            #  :cycle   - the solver flags a *satisfied* equality that closes a cycle of equalities as unsatisfiable
                            #             (solve_VPSC.cpp:259-262) and makeFeasible (colafd.cpp:791-803) blames the constraint it has just added;
                            #  :nocycle - IncSolver cannot satisfy a new equality whose slack is positive inside one block when the path to
                            #             relax runs against the constraint directions (splitBetween returns nullptr -> flagged)
                            # Precise predicate (see equality_on_cycle): IncSolver flags a constraint only if both its variables are already in
                            # one block, i.e. it closes an undirected cycle of the user constraint graph of that dimension, and in a
                            # satisfiable system such a cycle contains an equality.  A violated constraint of a system WITHOUT an equality
                            # on a cycle (e.g. a forest of equalities) is never this finding.
                            v['equality_on_cycle_in_dim'] = c.get('eqoncycle', [None, None])[d]
                            if m_mf_only(c['mode']) and c['feasible'][d] is True and c.get('eqoncycle', [None, None])[d]:
                                v['fingerprint'] = 'makefeasible_rejects_satisfiable_equality:' + \
                                                   ('cycle' if c.get('eqcycle', [None, None])[d] else 'nocycle')
                            viols.append(v)
                    if cc['code'] == 8 and j in r['PG'] and m_run(c['mode']):
                        # soft page boundary (not one of the property's listed types; extra check, ConstrainedFDLayout::run only, where the
                        # last write is a projection): every rectangle inside the *actual* margins the constraint reports
                        xl, xr, yl, yr = r['PG'][j]
                        for s, hx, hy in cc['sh']:
                            if s < c['n']:
                                x, y = r['R'][s][0], r['R'][s][1]
                                if cc['w'] != 0 and (x - hx / 16.0 < xl - 1e-4 or x + hx / 16.0 > xr + 1e-4 or y - hy / 16.0 < yl - 1e-4 or y + hy / 16.0 > yr + 1e-4) \
                                        and j not in r['UX'] and j not in r['UY']:
                                    viols.append({'what': 'rectangle outside the actual page margins reported by PageBoundaryConstraints', 'constraint_index': j,
                                                  'shape': s, 'margins': r['PG'][j], 'centre': [x, y], 'case': c,
                                                  'replay': 'echo "%s" | <c07_cc harness> layout' % lines[i]})
    stats['trace_disagreements'] = len(trace_viols)
    return cases, viols + trace_viols, stats


# ----------------------------------------------------------------------------------------------- family 'reuse' (harness mode seq)
SUB_FLAGS = re.compile(r'^(-|[01]+)$')
SUB_LOG = re.compile(r'^(-|(I|R[01]|G\d+|M\d+:[01])(,(I|R[01]|G\d+|M\d+:[01]))*)$')


def parse_seq(line, n):
    """'SEQ ncalls (CALL op M|R R <4n> UX k ids UY k ids SUB ncc (combine n cur0 cur1 flags log)* [EXC text])*' -> list of calls"""
    t = line.split()
    if not t or t[0] != 'SEQ':
        return None
    calls = []
    p = 2
    while p < len(t):
        if t[p] != 'CALL':
            return None
        call = {'op': int(t[p + 1]), 'kind': t[p + 2], 'EXC': None}
        p += 3
        assert t[p] == 'R'; p += 1
        call['R'] = [[float(x) for x in t[p + 4 * i:p + 4 * i + 4]] for i in range(n)]
        if any(len(r) != 4 for r in call['R']):
            raise ValueError('short rectangle list')
        p += 4 * n
        for key in ('UX', 'UY'):
            assert t[p] == key
            k = int(t[p + 1]); call[key] = [int(x) for x in t[p + 2:p + 2 + k]]; p += 2 + k
        assert t[p] == 'SUB'
        ncc = int(t[p + 1]); p += 2
        call['SUB'] = []
        for _ in range(ncc):
            call['SUB'].append({'combine': t[p], 'n': int(t[p + 1]), 'cur0': int(t[p + 2]), 'cur1': int(t[p + 3]), 'flags': t[p + 4], 'log': t[p + 5]})
            if not (t[p] in ('0', '1', '?') and SUB_FLAGS.match(t[p + 4]) and SUB_LOG.match(t[p + 5])):
                raise ValueError('SUB record')
            p += 6
        if p < len(t) and t[p] == 'EXC':
            call['EXC'] = t[p + 1].replace('_', ' '); p += 2
        calls.append(call)
    return calls


def decisions_of(sub):
    """the marks the implementation made in one call on one object: one character per sub-constraint (1 / 0 / x = never marked)"""
    w = ['x'] * sub['n']
    if sub['log'] != '-':
        for e in sub['log'].split(','):
            if e.startswith('M'):
                k, b = e[1:].split(':')
                if int(k) < len(w) and w[int(k)] == 'x':
                    w[int(k)] = b
    return ''.join(w) or '-'


def offered_of(log):
    return [int(e[1:]) for e in log.split(',') if e.startswith('G')] if log != '-' else []


def reuse_sequences(res, rng, ncases, cpp, ml, corpus=True):
    cases = [gen_reuse_case(rng.fork(), i) for i in range(ncases)]
    if corpus:
        for f in sorted(os.listdir(os.path.join(C.VERIF, 'corpus')), reverse=True):
            if f.startswith('c07_seq_') and f.endswith('.json'):
                cases.insert(0, json.load(open(os.path.join(C.VERIF, 'corpus', f))))
    lines = [seq_line(c) for c in cases]
    rc, out, err = run_restarting(cpp, ['seq', '6'], lines)
    stats = {'sequences': 0, 'calls': 0, 'mf_calls': 0, 'run_calls': 0, 'mf_calls_on_used_objects': 0, 'mf_calls_on_used_objects_new_layout': 0,
             'mf_calls_some_constraint_violated_at_start': 0, 'cc_evaluated_after_mf': 0, 'cc_evaluated_after_run': 0,
             'cc_skipped_mf_infeasible_dim': 0, 'cc_excluded_reported': 0, 'cursor_objects_compared': 0, 'cursor_subconstraints_offered': 0,
             'cursor_rejections_observed': 0, 'cursor_disagreements': 0, 'exceptions': 0, 'by_kind': {}, 'by_object_kind': {}}
    viols = []
    if rc != 0 or len(out) < len(cases):
        done = len([l for l in out if l.strip()])
        bad = cases[done] if done < len(cases) else None
        viols.append({'what': 'layout harness (mode seq) crashed (signal/abort) on this case', 'rc': rc, 'case': bad, 'stderr': err[-1500:],
                      'calls': ops_text(bad['ops']) if bad else None, 'replay': 'echo "%s" | <c07_cc harness> seq' % (lines[done] if bad else '')})
        cases = cases[:done]
    rcg, og, eg = run_lines(ml, ['gen'], [case_line(c) for c in cases])
    for i, c in enumerate(cases):
        c['feasible'] = [None, None]
        if rcg == 0 and len(og) >= 2 * len(cases):
            for d in (0, 1):
                g = parse_gen_safe(og[2 * i + d])
                if g[0] == 'OK':
                    c['feasible'][d] = feasible(c['n'] + len(g[1]), g[3])
                    c.setdefault('eqcycle', [None, None])[d] = has_equality_cycle(c['n'] + len(g[1]), g[3])
                    c.setdefault('eqoncycle', [None, None])[d] = equality_on_cycle(c['n'] + len(g[1]), g[3])
    parsed = []
    chk_lines, chk_key = [], []          # (case, call, 'after' | 'before')
    cur_lines, cur_idx = [], []
    for i, c in enumerate(cases):
        calls = None
        if out[i].startswith('SKIP'):
            parsed.append(None); continue
        if out[i].startswith('HANG'):
            phase = out[i].split()[1] if len(out[i].split()) > 1 else '?'
            viols.append({'what': 'a call of the sequence did not return within the CPU-time limit (6 s; typical: milliseconds) - non-termination in ' + phase,
                          'phase': phase, 'calls': ops_text(c['ops']), 'case': c, 'replay': 'echo "%s" | <c07_cc harness> seq 6' % lines[i]})
            parsed.append(None); continue
        try:
            calls = parse_seq(out[i], c['n'])
        except (AssertionError, ValueError, IndexError):
            calls = None
        if calls is None:
            viols.append({'what': 'harness output that the check cannot interpret (mode seq)', 'calls': ops_text(c['ops']), 'case': c, 'output': out[i][:300],
                          'replay': 'echo "%s" | <c07_cc harness> seq' % lines[i]})
            parsed.append(None); continue
        parsed.append(calls)
        stats['sequences'] += 1
        stats['by_kind'][c['kind']] = stats['by_kind'].get(c['kind'], 0) + 1
        centres = [[(q[0] + q[1]) / 32.0, (q[2] + q[3]) / 32.0] for q in c['rects']]
        nextop = 0
        used = False           # have the constraint objects been through a makeFeasible() before?
        fresh_layout = False   # NEW since the last makeFeasible()
        ok_for_cursor = True
        for q, call in enumerate(calls):
            # replay the moves between the previous call and this one on the client's view of the rectangles
            for o in c['ops'][nextop:call['op']]:
                if o[0] == 'MOVE':
                    for v, x, y in o[1]:
                        if 0 <= v < c['n']:
                            centres[v] = [x / 16.0, y / 16.0]
                if o[0] == 'NEW':
                    fresh_layout = True
            nextop = call['op'] + 1
            call['before'] = [list(p) for p in centres]
            call['used'] = used
            call['fresh_layout'] = fresh_layout
            stats['calls'] += 1
            rp = 'echo "%s" | <c07_cc harness> seq    # the state after each call is one CALL record; this is call %d (op %d)' % (lines[i], q, call['op'])
            if call['kind'] == 'M':
                stats['mf_calls'] += 1
                if used:
                    stats['mf_calls_on_used_objects'] += 1
                    if fresh_layout:
                        stats['mf_calls_on_used_objects_new_layout'] += 1
                used = True
                fresh_layout = False
            else:
                stats['run_calls'] += 1
            if call['EXC']:
                stats['exceptions'] += 1
                viols.append({'what': 'a call of the sequence threw: the postcondition of C07 is not delivered', 'exception': call['EXC'],
                              'calls_so_far': ops_text(c['ops'], call['op']), 'case': c, 'replay': rp})
                ok_for_cursor = False
                break
            R = call['R']
            if not all(math.isfinite(x) for r in R for x in r):
                viols.append({'what': 'NaN or infinite coordinate after a call of the sequence', 'calls_so_far': ops_text(c['ops'], call['op']),
                              'result': R, 'case': c, 'replay': rp})
                break
            size_bad = [j for j, r in enumerate(R) if abs(r[2] - (c['rects'][j][1] - c['rects'][j][0]) / 16.0) > 1e-9 or
                        abs(r[3] - (c['rects'][j][3] - c['rects'][j][2]) / 16.0) > 1e-9]
            if size_bad:
                viols.append({'what': 'rectangle size changed by a call of the sequence', 'nodes': size_bad, 'calls_so_far': ops_text(c['ops'], call['op']),
                              'result': R, 'case': c, 'replay': rp})
                break
            if max(abs(x) for r in R for x in r[:2]) > 2.0 ** 40:
                break
            chk_lines.append(checker_line(c, R)); chk_key.append((i, q, 'after'))
            chk_lines.append(checker_line(c, [[p[0], p[1]] for p in call['before']])); chk_key.append((i, q, 'before'))
            centres = [[r[0], r[1]] for r in R]
        mfs = [call for call in calls if call['kind'] == 'M']
        if mfs:
            k_ok = len(mfs)
            for k, call in enumerate(mfs):
                if call['EXC']:
                    k_ok = k; break
            if k_ok:
                cur_lines.append(case_line(c) + ''.join(' | ' + ' '.join(decisions_of(sb) for sb in call['SUB']) for call in mfs[:k_ok]))
                cur_idx.append((i, k_ok))
    # ---- the verified checker after (and before) every call
    if chk_lines:
        rc2, out2, err2 = run_lines(ml, ['check'], chk_lines)
        if rc2 != 0 or len(out2) < len(chk_lines):
            viols.append({'what': 'extracted checker failed to run (family reuse)', 'rc': rc2, 'stderr': err2[-1500:], 'machinery': True})
        else:
            verdict = {key: out2[k].split() for k, key in enumerate(chk_key)}
            for (i, q, when), flags in verdict.items():
                if when != 'after':
                    continue
                c, call = cases[i], parsed[i][q]
                before = verdict.get((i, q, 'before'))
                if len(flags) != len(c['ccs']) or any(len(f) != 2 for f in flags) or (before and (len(before) != len(c['ccs']) or any(len(f) != 2 for f in before))):
                    viols.append({'what': 'verified checker output does not match the constraint list of the case (family reuse)', 'checker_output': ' '.join(flags)[:300],
                                  'case': c, 'replay': 'echo "%s" | <c07_cc harness> seq' % lines[i]})
                    continue
                mf = call['kind'] == 'M'
                if mf and before and any(f != '11' for f in before):
                    stats['mf_calls_some_constraint_violated_at_start'] += 1
                run_axes = None
                if not mf:
                    o = c['ops'][call['op']]
                    run_axes = (bool(o[1]), bool(o[2]))
                for j, cc in enumerate(c['ccs']):
                    for d in (0, 1):
                        rep = set(x for x in (call['UX'] if d == 0 else call['UY']) if x >= 0)
                        if (j in rep) or any(a in rep for a in refs_of(cc)):
                            stats['cc_excluded_reported'] += 1
                            continue
                        accepted_only = False
                        if mf and c['feasible'][d] is not True:
                            # makeFeasible() has no reporting channel; in a dimension whose user system is not jointly satisfiable the only
                            # record of what it gave up is the `satisfied` flag of the sub-constraints (read by the observer).  A constraint
                            # whose sub-constraints (and those of the alignments it refers to) were ALL accepted must hold.
                            # Calibrated on the unchanged tree: true whenever no object of the combined branch (FixedRelativeConstraint: added without
                            # a satisfiability test, colafd.cpp:690-727) is present; with one, ~1% of such constraints end violated - not judged.
                            objs = [j] + [a for a in refs_of(cc) if a < len(call['SUB'])]
                            if any(x['code'] == 7 for x in c['ccs']) or not (j < len(call['SUB']) and all(call['SUB'][a]['flags'] != '-' and set(call['SUB'][a]['flags']) == {'1'} for a in objs)):
                                stats['cc_skipped_mf_infeasible_dim'] += 1
                                continue
                            accepted_only = True
                            stats['cc_evaluated_after_mf_infeasible_dim_all_accepted'] = stats.get('cc_evaluated_after_mf_infeasible_dim_all_accepted', 0) + 1
                        stats['cc_evaluated_after_mf' if mf else 'cc_evaluated_after_run'] += 1
                        if flags[j][d] == '1':
                            continue
                        held = bool(before) and before[j][d] == '1'
                        v = {'what': ('compound constraint violated by more than 1e-4 after makeFeasible() (jointly satisfiable system), nothing reported: '
                                      'call %d of a sequence that re-uses one set of constraint objects' % q) if mf else
                                     ('compound constraint violated by more than 1e-4 after run() and not reported unsatisfiable: call %d of a sequence '
                                      'that re-uses one set of constraint objects' % q),
                             'calls_so_far': ops_text(c['ops'], call['op']), 'call_index': q,
                             'all_sub_constraints_marked_active_in_an_unsatisfiable_dimension': accepted_only,
                             'constraint_objects_already_went_through_makeFeasible': call['used'],
                             'layout_object_is_fresh': call['fresh_layout'],
                             'run_axes': run_axes, 'held_before_the_call': held, 'centres_before_the_call': call['before'],
                             'constraint_index': j, 'constraint': cc, 'type': CODES[cc['code']], 'dim': 'XY'[d],
                             'user_system_jointly_satisfiable_in_dim': c['feasible'][d],
                             'centres_after_the_call': [r[:2] for r in call['R']], 'reported_unsat_X': call['UX'], 'reported_unsat_Y': call['UY'],
                             'sub_constraint_cursor_events_of_this_object': (call['SUB'][j]['log'] if j < len(call['SUB']) else None),
                             'case': c, 'replay': 'echo "%s" | <c07_cc harness> seq    # CALL record %d (op %d)' % (lines[i], q, call['op'])}
                        rep_any = (call['UX'] if d == 0 else call['UY'])
                        if not mf and len(rep_any) > 0:
                            ed, nvars = cc_edges(c, d)
                            if ed is not None and on_positive_closed_walk(nvars, [e for es in ed[0] for e in es], ed[1][j]):
                                v['on_infeasible_cycle'] = True
                                v['fingerprint'] = 'unreported_drop_in_moveTo'
                        v['equality_on_cycle_in_dim'] = c.get('eqoncycle', [None, None])[d]
                        # the known finding is about what the SOLVER rejects; it needs the object to have been offered in this call (its
                        # sub-constraints marked): an object whose sub-constraints were never offered is not that finding
                        offered_all = j < len(call['SUB']) and all(
                            len(offered_of(call['SUB'][a]['log'])) >= call['SUB'][a]['n'] for a in [j] + [x for x in refs_of(cc) if x < len(call['SUB'])])
                        if mf and c['feasible'][d] is True and c.get('eqoncycle', [None, None])[d] and offered_all:
                            v['fingerprint'] = 'makefeasible_rejects_satisfiable_equality:' + ('cycle' if c.get('eqcycle', [None, None])[d] else 'nocycle')
                        v['_case'] = i
                        viols.append(v)
    # ---- the cursor protocol: observer events of every object in every makeFeasible() call vs the extracted model (mf_call)
    if cur_lines:
        rc3, out3, err3 = run_lines(ml, ['cursor'], cur_lines)
        if rc3 != 0 or len(out3) < len(cur_lines):
            viols.append({'what': 'extracted cursor model failed to run', 'rc': rc3, 'stderr': err3[-1500:], 'machinery': True})
        else:
            for k, (i, k_ok) in enumerate(cur_idx):
                c = cases[i]
                mfs = [call for call in parsed[i] if call['kind'] == 'M'][:k_ok]
                model_calls = [x.split() for x in out3[k].split('|')]
                bad = None
                for q, call in enumerate(mfs):
                    if q >= len(model_calls) or len(model_calls[q]) != len(call['SUB']):
                        bad = (q, None, 'the model did not complete the call: ' + (' '.join(model_calls[q]) if q < len(model_calls) else 'no output'))
                        break
                    for j, sb in enumerate(call['SUB']):
                        try:
                            mk, mn, mcur, mflags, mtrace = model_calls[q][j].split(':', 4)
                            int(mn), int(mcur)
                        except ValueError:
                            bad = (q, None, 'model output for object %d cannot be interpreted: %s' % (j, model_calls[q][j][:200])); break
                        stats['cursor_objects_compared'] += 1
                        stats['by_object_kind'][mk] = stats['by_object_kind'].get(mk, 0) + 1
                        stats['cursor_subconstraints_offered'] += len(offered_of(sb['log']))
                        stats['cursor_rejections_observed'] += decisions_of(sb).count('0')
                        same = ((mk == 'C') == (sb['combine'] == '1') and int(mn) == sb['n'] and int(mcur) == sb['cur1'] and mflags == sb['flags']
                                and mtrace == sb['log'])
                        if not same:
                            bad = (q, j, None); break
                    if bad:
                        break
                if bad:
                    stats['cursor_disagreements'] += 1
                    q, j, msg = bad
                    call = mfs[q]
                    v = {'what': 'makeFeasible() does not follow the sub-constraint cursor protocol of the model (Cola/SubCursorModel.v mf_call; theorem '
                                 'C07_makeFeasible_accounts_for_every_subconstraint rests on it): every sub-constraint of every compound constraint object '
                                 'must be offered exactly once in THIS call and end active or marked unsatisfiable, whatever earlier calls did to the object',
                         'makeFeasible_call_number': q, 'calls_so_far': ops_text(c['ops'], call['op']),
                         'constraint_objects_already_went_through_makeFeasible': call['used'], 'layout_object_is_fresh': call['fresh_layout'],
                         'case': c, 'replay': 'echo "%s" | <c07_cc harness> seq    # SUB fields of the CALL record of op %d: combine n cursor_before cursor_after flags events' % (lines[i], call['op'])}
                    if j is not None:
                        sb = call['SUB'][j]
                        mk, mn, mcur, mflags, mtrace = model_calls[q][j].split(':', 4)
                        off = offered_of(sb['log'])
                        v.update({'constraint_index': j, 'constraint': c['ccs'][j], 'type': CODES[c['ccs'][j]['code']],
                                  'implementation': {'sub_constraints': sb['n'], 'cursor_before_call': sb['cur0'], 'cursor_after_call': sb['cur1'],
                                                     'satisfied_flags': sb['flags'], 'events': sb['log'], 'combine': sb['combine']},
                                  'model': {'kind': mk, 'sub_constraints': int(mn), 'cursor_after_call': int(mcur), 'satisfied_flags': mflags, 'events': mtrace},
                                  'sub_constraints_never_offered_in_this_call': [x for x in range(sb['n']) if x not in off] if mk != 'S' else [],
                                  'sub_constraints_offered_more_than_once': sorted(set(x for x in off if off.count(x) > 1))})
                    else:
                        v['model_output'] = msg
                    v['_case'] = i
                    v['_cursor'] = True
                    viols.append(v)
    # report per sequence at most one unexplained checker failure and the cursor disagreement, sequence by sequence (corpus first)
    seen = set()
    kept = []
    for v in viols:
        if '_case' in v and not v.get('fingerprint'):
            key = (v['_case'], bool(v.get('_cursor')))
            if key in seen:
                stats['further_failures_same_sequence_not_listed'] = stats.get('further_failures_same_sequence_not_listed', 0) + 1
                continue
            seen.add(key)
        kept.append(v)
    kept.sort(key=lambda v: v.get('_case', -1))
    for v in kept:
        v.pop('_case', None); v.pop('_cursor', None)
    return cases, kept, stats


def run(tier):
    res = C.Result(PID, tier, 'proof')
    rng = C.SplitMix64(C.get_seed() ^ 0xC07)
    info = C.prove(res, PID)
    res.assumptions = [
        'the hypothesis of C07_projection_establishes ("every generated separation constraint holds to eps on the projection\'s output") is property C01; it is not re-proved here',
        'the control-flow trace of ConstrainedFDLayout::run (run_trace) is a hand model of colafd.cpp:286-380, 1063-1161: no topology addon, no preIteration callback, the convergence test does not write X/Y, at least one iteration; '
        'its projection sub-sequence (one entry per IncSolver solve: moveTo and applyForcesAndConstraints) is compared on every run()-mode V-run, for all four (xAxis, yAxis) combinations and both '
        'settings of the private rungekutta switch, with what a constraint-free probe CompoundConstraint observes through the virtual updatePosition(dim) (called once after each solve); '
        'the writes other than projections (descent, blend, random displacement) are not observed',
        'single-axis runs run(true,false) / run(false,true) / run(false,false), with and without a preceding makeFeasible(): calibrated on the unchanged tree, setPosition() projects BOTH axes before '
        'every descent evaluation and after the last step whatever the flags, so the oracle is the same as for run(): every user constraint of BOTH dimensions holds to 1e-4 or is reported',
        'sub-constraint cursor model (Cola/SubCursorModel.v): the solver\'s accept / reject decision inside makeFeasible() is NOT modelled - it is the Section variable `accept` '
        '(an oracle over the whole event log; every theorem quantifies over it); in the correspondence the oracle is instantiated with the decisions the compiled makeFeasible() was '
        'observed to take (argument of markCurrSubConstraintAsActive), so the comparison checks the cursor / flag / call-order protocol, not the decisions; the order in which '
        'makeFeasible() visits the objects (priority sort) is not compared (the theorems do not depend on it); the observers are subclasses of the real classes defined in the harness '
        '(they read the protected cursor and flags of their own base) - no hook in /repo; NonOverlapConstraints / ClusterContainmentConstraints (own cursor override, rebuilt per call) '
        'are outside this model',
        'family reuse: a makeFeasible() call in a dimension whose user system is NOT jointly satisfiable is judged only on constraints whose sub-constraints (and those of the '
        'alignments they refer to) all ended accepted (`satisfied` flag), and only when the case has no FixedRelativeConstraint (combined branch adds without testing: calibrated, '
        '~1% of such constraints end violated on the unchanged tree - not judged)',
        'vpsc::Rectangle borders are 0 outside makeFeasible; binary64 arithmetic is exact on the dyadic parameters of the correspondence (validated by it)',
        'V-runs: final centres are rounded to 2^-20 before the exact checker, whose tolerance is 1e-4 + 4*2^-20; makeFeasible()-only runs are checked only when the '
        'user system is jointly satisfiable (exact Bellman-Ford oracle on the model\'s constraints) because makeFeasible has no reporting channel',
        'known finding makefeasible_rejects_satisfiable_equality is matched only when an equality constraint lies on an undirected cycle of the '
        'dimension\'s user constraint graph (necessary for IncSolver to flag anything in a satisfiable system); the rollback family generates forests of '
        'equalities, so a violated constraint there is never classified as known']
    res.cov['trusted_base'] = list(res.cov.get('trusted_base', [])) + [
        'C07 cursor model: oracle `accept` (Section variable of Cola/SubCursorModel.v) stands for IncSolver::satisfy\'s verdict on each alternative; '
        'hand-written model of compound_constraints.cpp:1531-1552 and the loops colafd.cpp:660-853, tied by comparing observer-subclass event logs of every makeFeasible() call '
        'of the family reuse with cc_trace of the extracted mf_call']
    cpp = C.build_harness('c07_cc', ['libcola', 'libvpsc'], 'exc')
    ml = C.ocaml_build('c07model', 'C07model.v', 'c07_driver.ml', 'c07_model.ml')
    ncorr = 1500 if tier == 'quick' else 12000
    nlay = 500 if tier == 'quick' else 4000
    nroll = 300 if tier == 'quick' else 2500
    nsingle = 400 if tier == 'quick' else 3000
    nreuse = 400 if tier == 'quick' else 3000
    ncml = 300 if tier == 'quick' else 2500
    cases, diffs, hist, ntriv, samples = correspondence(res, rng.fork(), ncorr, cpp, ml)
    # last line of defence (seeded change C07-8 made the check itself die on bytes the library printed): whatever a family's driver
    # trips over - output it cannot interpret, a protocol mismatch between model and implementation - is REPORTED, never an exception
    crashed = []

    def guarded(name, fn, fr, *a, **kw):
        import traceback
        try:
            return fn(res, fr, *a, **kw)
        except Exception:
            crashed.append({'what': 'the check\'s driver for family %s raised on the output of the programs under test (reported instead of crashing; '
                                    'replay: VERIF_SEED=%d ./check C07)' % (name, C.get_seed()), 'traceback': traceback.format_exc()[-2500:], 'machinery': True})
            zero = {'layouts': 0, 'cc_evaluated': 0, 'cc_evaluated_after_mf': 0, 'cc_evaluated_after_run': 0, 'cursor_objects_compared': 0, 'calls': 0,
                    'cc_in_force_evaluated': 0, 'runs': 0, 'driver_crashed': True}
            return [], [], zero
    # family 'reuse' first: its corpus entries are the regression for seeded changes C07-6 and C07-8
    rcases, rviols, rstats = guarded('reuse', reuse_sequences, rng.fork(), nreuse, cpp, ml)
    lcases, viols, stats = guarded('layouts', layouts, rng.fork(), nlay, cpp, ml, nroll=nroll, nsingle=nsingle)
    # family 'cml-reuse' (own rng fork taken LAST so that the other families' streams are unchanged); its corpus entries are the
    # regression for seeded change C07-7 and are reported first
    ccases, cviols, cstats = guarded('cml-reuse', cml_sequences, rng.fork(), ncml, cpp, ml)
    viols = cviols + rviols + viols + crashed
    # ---- decide
    real = 0
    viols.sort(key=lambda v: 1 if v.get('fingerprint') else 0)      # stable: unexplained failures are reported first
    for v in viols:
        if v.get('machinery'):
            continue
        fp = v.pop('fingerprint', None)
        v.pop('trace_diff', None)
        if res.violation(v, fingerprint=fp):
            real += 1
        if len(res.violations) >= 8:
            break
    machinery = [v for v in viols if v.get('machinery')]
    if real == 0 and (not info['ok'] or diffs or machinery):
        # a proof or the model/implementation correspondence broke.  Search: the verified checker has just been run on
        # `nlay` real layouts (above) and on the corpus without finding a violated, unreported constraint.
        res.violation({'what': 'proof obligation or generator correspondence no longer checks; the verified checker found no violated '
                               'constraint on %d real layouts' % stats['layouts'],
                       'broken_files': info.get('broken'), 'broken_lemmas': info.get('broken_lemmas'), 'forbidden': info.get('forbidden'),
                       'correspondence_disagreements': diffs[:3], 'machinery': machinery[:2], 'coq_log_tail': info['log'][-2500:]},
                      no_input=True)
    res.cov.update({
        'evaluations': 2 * len(cases) + stats['cc_evaluated'] + rstats['cc_evaluated_after_mf'] + rstats['cc_evaluated_after_run'] + rstats['cursor_objects_compared'] + cstats['cc_in_force_evaluated'],
        'distinct_nontrivial': ntriv + stats['layouts'] + rstats['calls'] + cstats['runs'],
        'rule': 'correspondence: (case, dimension) pairs whose generated constraint list is non-empty; V: layouts actually run to completion and checked; '
                'family reuse: makeFeasible()/run() calls of the sequences, each judged on its own',
        'exhaustive': False,
        'samples': samples,
        'traces_validated_against_impl': 2 * len(cases),
        'correspondence': {'cases': len(cases), 'dimension_runs': 2 * len(cases), 'disagreements': len(diffs), 'histogram': hist},
        'layout_validation': stats,
        'reuse_sequences': rstats,
        'cml_reuse_sequences': cstats,
        'layout_feasibility_histogram': {'X_infeasible': sum(1 for c in lcases if c.get('feasible', [None])[0] is False),
                                         'Y_infeasible': sum(1 for c in lcases if c.get('feasible', [None, None])[1] is False),
                                         'both_feasible': sum(1 for c in lcases if c.get('feasible') == [True, True])},
    })
    return res.finish()


def replay(path):
    obj = json.load(open(path))
    print(json.dumps(obj, indent=1)[:6000])
    case = obj.get('case')
    if case and 'replay' in obj:
        cpp = C.build_harness('c07_cc', ['libcola', 'libvpsc'], 'exc')
        layout = 'layout' in obj['replay']
        if 'cops' in case and 'harness> cml' in obj['replay']:
            print('--- calls: ' + cops_text(case['cops']))
            rc, out, err, dt = C.sh([cpp, 'cml', '6'], input=cml_line(case) + '\n', timeout=120)
            print('--- implementation now (one CALL record per run(): rectangles, registered unsatisfiable lists, entries in unregistered lists, '
                  'vector in force and its members):\n' + out.replace(' CALL ', '\n CALL '))
            return 0
        if 'ops' in case and 'harness> seq' in obj['replay']:
            print('--- calls: ' + ops_text(case['ops']))
            rc, out, err, dt = C.sh([cpp, 'seq', '6'], input=seq_line(case) + '\n', timeout=120)
            print('--- implementation now (one CALL record per makeFeasible()/run(): rectangles, reported lists, SUB = per constraint object '
                  'combine n cursor_before cursor_after flags events):\n' + out.replace(' CALL ', '\n CALL '))
            return 0
        rc, out, err, dt = C.sh([cpp, 'layout' if layout else 'gen', '6'], input=case_line(case, layout=layout) + '\n', timeout=120)
        print('--- implementation now:\n' + out)
    return 0


def warm():
    C.build_harness('c07_cc', ['libcola', 'libvpsc'], 'exc')
    C.ocaml_build('c07model', 'C07model.v', 'c07_driver.ml', 'c07_model.ml')


META = {
    'property_id': PID,
    'level_claimed': {
        'category': 'proof',
        'text': 'Coq theorems over a hand-written Gallina model of compound_constraints.cpp (generateVariables / generateSeparationConstraints of every '
                'compound constraint type) that is compared exactly with the compiled library on every run: for each type the generated separation '
                'constraints are sound and complete for its declarative meaning on the rectangle centres (exists auxiliary values <-> meaning, over Q); '
                'if a projection satisfies the generated constraints to eps (property C01, hypothesis) every compound constraint holds to 3*eps; in the '
                'control-flow model of ConstrainedFDLayout::run the last write to X and to Y is a projection output and X constraints do not read Y, for every '
                '(xAxis, yAxis) flag combination: the trace ends with the projection of X then of Y also in single-axis runs, the axis that is not laid out is written '
                'only by projections and the random displacement (C07_single_axis_*), closed form of the projection sequence (C07_run_projections, compared with the '
                'compiled run() on every layout), and the variant that moves only the laid-out axes is refuted (C07_axes_only_variant_*). '
                'makeFeasible()\'s sub-constraint cursor protocol (state machine Cola/SubCursorModel.v: per constraint object the sub-constraint list, cursor and satisfied flags; '
                'mark all inactive + rewind, while remaining: take alternatives, try, mark, advance; combined and cursor-skipping objects; the solver verdict an oracle): '
                'for EVERY state earlier calls left the objects in (any history, completed or aborted) and every oracle, one call offers every sub-constraint of every object exactly once '
                'and each ends in the valid set or marked unsatisfiable, flag = which (C07_makeFeasible_accounts_for_every_subconstraint, C07_makeFeasible_reused_objects); without the '
                'rewind the statement is refuted (C07_makeFeasible_without_rewind_refuted: the second call offers nothing) although a first call is identical '
                '(C07_makeFeasible_without_rewind_first_call_same); compared per call and per object with the compiled library in the family reuse (constraint objects re-used across '
                'makeFeasible() calls, same and fresh layout objects, run() interleaved, verified checker after every call). '
                'Family cml-reuse: one ConstrainedMajorizationLayout object, up to three run()/runOnce() calls with the registered constraint vector grown or '
                'replaced (setConstraints(&other)) and the unsatisfiable lists re-registered in between; the verified checker judges every run against the '
                'constraint set in force AT THAT RUN (pool jointly satisfiable by construction: witness placement; separations, alignments, alignment-pair '
                'separations only), so a layout object that keeps the first run\'s GradientProjection / constraint snapshot is caught (seeded C07-7). '
                'PARTIAL: the accept / reject decisions of makeFeasible()\'s search, the solver delivering the hypothesis, the reporting of dropped constraints and '
                'ConstrainedMajorizationLayout are only validated on real runs by the extracted verified checker (cc_holdsb, proved equivalent to the meaning), '
                'including a directed family for makeFeasible\'s rollback path (overlap avoidance + rectangles tied by user equalities in both dimensions: '
                'constraints that held before makeFeasible() must hold after it).',
        'design_ref': 'DESIGN.md 5.7'},
    'level_note': 'Trusted: Coq kernel; hand-written model CompoundCsModel.v (tie = exact comparison of generated (left,right,gap,equality) multisets, auxiliary '
                  'variables and error kinds with the compiled code on random dyadic inputs, every run); extraction (ExtrOcamlBasic), OCaml/C++/Python drivers; '
                  'exact-rational model of binary64; hand-written model SubCursorModel.v of the sub-constraint cursor protocol whose solver verdict is an ORACLE (Section variable `accept`, '
                  'instantiated with the observed decisions in the correspondence: tie = exact comparison of observer-subclass event logs, cursor and flags per makeFeasible() call). '
                  'No axioms (Print Assumptions: closed). Not covered by proof: force computation, step size, the decisions of makeFeasible\'s '
                  'priority/rollback search (which alternatives the solver accepts), VPSC itself (C01/C02), majorization loop '
                  '(validated only: single run per object in the layout family; several runs on one ConstrainedMajorizationLayout object with the constraint vector grown / '
                  'replaced in between in the family cml-reuse, judged per run against the set in force). Harness or model output the check cannot interpret is a reported '
                  'violation with the case, never an exception (see META notes).',
    'technique': 'Coq proof over a hand-written model + exact generator correspondence + extracted verified checker on real layouts',
    'notes': 'Round C07-7/C07-8. (1) C07-8 (makeFeasible combined branch no longer registers the new constraints with the live IncSolver) was already in the domain of '
             'the family reuse (FixedRelativeConstraint + makeFeasible() judged on its own) but the check CRASHED: with the change makeFeasible() reaches its '
             '"++++ IN ERROR BLOCK" diagnostics, which print a dangling char* (arbitrary bytes) on stderr, and vlib.common.sh decoded the harness stderr as strict UTF-8 '
             '(UnicodeDecodeError).  Fixed generally: sh() decodes with errors=replace; parse_seq / parse_layout / parse_cml / parse_gen_safe validate every field '
             '(event-log and flag syntax by regular expression, list lengths, call counts) and anything they cannot interpret, a checker/model output whose shape does not '
             'match the case, or a harness record that does not follow the op list becomes a violation carrying the case and a replay line; run() wraps each family driver '
             '(guarded) so that a remaining exception is reported (machinery violation with the traceback and the seed) instead of exit 2.  Tested by mangling real harness '
             'output (truncate / garble / drop tokens) through all three drivers.  corpus/c07_seq_04_mf_combined_after_other.json = the demo of C07-8. '
             '(2) C07-7 (ConstrainedMajorizationLayout caches gpX/gpY of the first run()) needs a second run() on the SAME layout object after the constraint set changed; '
             'no family did that (mode 3 = one run per object).  New harness mode cml + family cml-reuse (gen_cml_case: append / other-vector / append+other / other+back / '
             'append+relist / single-axis / runOnce / empty-first); corpus/c07_cml_01/02 = the two halves of the demo.  Single-axis runs are judged only on the axes that run '
             'laid out (calibrated on the unchanged tree: ConstrainedMajorizationLayout::run(x,y) projects only those - unlike ConstrainedFDLayout).  No classifier applies to a '
             'violated constraint in this family (only the char* exception keeps its known fingerprint), so nothing can absorb the seeded change.  setAvoidOverlaps is an op of '
             'the harness mode but is not generated (known finding majorization_fixedrelative_overlap_divergence and the unverified non-overlap oracle).  HEAD: clean for VERIF_SEED=1..4.',
}
