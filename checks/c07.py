"""C07 - libcola: layout output satisfies every constraint or reports it unsatisfiable (DESIGN 5.7).
proof: Coq theorems over the hand-written model of the per-type translation compound constraint -> separation
constraints (Cola/CompoundCsModel.v, proofs in Cola/CompoundCs.v, statements in Properties/C07.v);
tie C: the extracted model generator is compared exactly (multisets of (left,right,gap,equality), auxiliary variable data)
with generateVariables/generateSeparationConstraints of the compiled library on random dyadic parameters;
V: the extracted verified checker cc_holdsb evaluates every compound constraint on the result of
ConstrainedFDLayout::makeFeasible()+run() and ConstrainedMajorizationLayout::run() on random graphs."""
import os, json, math
from fractions import Fraction
from vlib import common as C

PID = 'C07'
TOL = Fraction(1, 10000)
GRID = 1 << 20                       # final centres are rounded to multiples of 2^-20 before the exact checker
SLACK = Fraction(4, GRID)            # so the checker's tolerance is 1e-4 + 4*2^-20 (never stricter than the property)
CODES = {1: 'Separation', 2: 'Separation(alignment pair)', 3: 'Alignment', 4: 'Boundary', 5: 'Distribution',
         6: 'MultiSeparation', 7: 'FixedRelative', 8: 'PageBoundary'}


# ----------------------------------------------------------------------------------------------- case syntax
def cc_tokens(cc):
    k = cc['code']
    if k == 1:
        return [k, cc['d'], cc['l'], cc['r'], cc['g'], int(cc['e'])]
    if k == 2:
        return [k, cc['d'], cc['la'], cc['ra'], cc['g'], int(cc['e'])]
    if k == 3:
        return [k, cc['d'], cc['pos'], int(cc['fixed']), len(cc['sh'])] + [t for so in cc['sh'] for t in so]
    if k == 4:
        return [k, cc['d'], cc['pos'], len(cc['sh'])] + [t for so in cc['sh'] for t in so]
    if k == 5:
        return [k, cc['d'], cc['sep'], len(cc['prs'])] + [t for ab in cc['prs'] for t in ab]
    if k == 6:
        return [k, cc['d'], cc['sep'], int(cc['e']), len(cc['prs'])] + [t for ab in cc['prs'] for t in ab]
    if k == 7:
        return [k, int(cc['fixedpos']), len(cc['ids'])] + list(cc['ids'])
    if k == 8:
        return [k, cc['xlo'], cc['xhi'], cc['ylo'], cc['yhi'], cc['w'], len(cc['sh'])] + [t for s in cc['sh'] for t in s]
    raise ValueError(k)


def case_line(case, layout=False):
    t = [case['n']] + [v for r in case['rects'] for v in r] + [len(case['ccs'])]
    for cc in case['ccs']:
        t += cc_tokens(cc)
    if layout:
        t += [len(case['edges'])] + [v for e in case['edges'] for v in e] + [case['ideal'], case['mode'], case['overlap'], case['neighbour']]
    return ' '.join(str(int(x)) for x in t)


# ----------------------------------------------------------------------------------------------- generators
def gen_rects(rng, n, coincide=False, spread=200):
    rects = []
    for i in range(n):
        w, h = rng.range(2, 12) * 32, rng.range(2, 12) * 32          # widths 4..24 in units of 1/16 -> *16
        if coincide:
            cx, cy = 50 * 16, 50 * 16
        else:
            cx, cy = rng.range(0, spread) * 16, rng.range(0, spread) * 16
        rects.append([cx - w // 2, cx + w // 2, cy - h // 2, cy + h // 2])
    return rects


def gen_ccs(rng, n, kinds, nmax, satisfiable=True, bad_index=False, cross_dim=False, order=None):
    """random mix of compound constraints.  satisfiable: constraints are built so that the placement `order`
    (a random permutation per dimension used as a witness: rank*W) satisfies all of them."""
    ccs = []
    ncc = rng.range(1, nmax)
    # alignments first decided so that references exist; they are inserted at random list positions later
    plan = [rng.choice(kinds) for _ in range(ncc)]
    if any(k in (2, 5, 6) for k in plan) and plan.count(3) < 2:
        plan += [3, 3]
    plan = rng.shuffle(plan)
    align_pos = {0: [], 1: []}
    dims = []
    for i, k in enumerate(plan):
        d = rng.below(2)
        dims.append(d)
        if k == 3:
            align_pos[d].append(i)
    used_in_align = {0: set(), 1: set()}
    for i, k in enumerate(plan):
        d = dims[i]
        idx = lambda: rng.below(n + 3) if (bad_index and rng.chance(1, 6)) else rng.below(n)
        if k == 1:
            l, r = idx(), idx()
            if satisfiable and l == r:
                r = (l + 1) % n
            ccs.append({'code': 1, 'd': d, 'l': l, 'r': r, 'g': rng.range(-40, 60) * 8, 'e': rng.chance(1, 4)})
        elif k == 2:
            if len(align_pos[d]) < 2:
                d = 1 - d
            if len(align_pos[d]) < 2:
                ccs.append({'code': 1, 'd': d, 'l': 0, 'r': 1 % n, 'g': 16, 'e': False})
                continue
            la = rng.choice(align_pos[d]); ra = rng.choice([a for a in align_pos[d] if a != la])
            ccs.append({'code': 2, 'd': d, 'la': la, 'ra': ra, 'g': rng.range(-20, 60) * 8, 'e': rng.chance(1, 4)})
        elif k == 3:
            m = rng.choice([0, 1, 2, 2, 3, 3, 4])
            sh = []
            for _ in range(m):
                s = idx()
                if satisfiable and (s in used_in_align[d]):
                    continue
                used_in_align[d].add(s)
                sh.append([s, rng.range(-3, 3) * 40])
            ccs.append({'code': 3, 'd': d, 'pos': rng.range(0, 200) * 16, 'fixed': rng.chance(1, 5), 'sh': sh})
        elif k == 4:
            m = rng.range(0, 4)
            sh = [[idx(), rng.choice([-64, -24, -8, 0, 0, 8, 24, 64])] for _ in range(m)]
            ccs.append({'code': 4, 'd': d, 'pos': rng.range(0, 200) * 16, 'sh': sh})
        elif k in (5, 6):
            dd = d
            pool = align_pos[dd]
            if cross_dim and rng.chance(1, 4):
                pool = align_pos[0] + align_pos[1]
            if len(pool) < 2:
                pool = align_pos[1 - dd]; dd = 1 - dd
            if len(pool) < 2:
                ccs.append({'code': 1, 'd': d, 'l': 0, 'r': 1 % n, 'g': 16, 'e': False})
                continue
            m = rng.range(0, 3)
            prs = []
            for _ in range(m):
                a = rng.choice(pool); b = rng.choice([x for x in pool if x != a])
                prs.append([a, b])
            if k == 5:
                ccs.append({'code': 5, 'd': dd, 'sep': rng.range(0, 40) * 8, 'prs': prs})
            else:
                ccs.append({'code': 6, 'd': dd, 'sep': rng.range(-10, 40) * 8, 'e': rng.chance(1, 3), 'prs': prs})
        elif k == 7:
            if n < 2:
                ccs.append({'code': 1, 'd': d, 'l': 0, 'r': 0, 'g': 0, 'e': False}); continue
            a = rng.below(n); b = rng.choice([x for x in range(n) if x != a])
            ids = [a, b] + [rng.below(n) for _ in range(rng.range(0, 3))]
            ccs.append({'code': 7, 'fixedpos': rng.chance(1, 3), 'ids': rng.shuffle(ids)})
        elif k == 8:
            xlo, ylo = rng.range(-100, 50) * 16, rng.range(-100, 50) * 16
            m = rng.range(0, 4)
            ccs.append({'code': 8, 'xlo': xlo, 'xhi': xlo + rng.range(1, 400) * 16, 'ylo': ylo, 'yhi': ylo + rng.range(1, 400) * 16,
                        'w': rng.choice([0, 16, 1600, 8]), 'sh': [[idx(), rng.range(1, 12) * 16, rng.range(1, 12) * 16] for _ in range(m)]})
    return ccs


def gen_case_corr(rng, stream):
    n = rng.range(2, 8)
    case = {'n': n, 'rects': gen_rects(rng, n, coincide=(stream == 'degenerate' and rng.chance(1, 3)))}
    kinds = [1, 2, 3, 3, 4, 5, 6, 7, 8]
    if stream == 'single':
        kinds = [rng.choice([1, 3, 4, 7, 8])]
    case['ccs'] = gen_ccs(rng, n, kinds, 1 if stream == 'single' else 8, satisfiable=False,
                          bad_index=(stream == 'degenerate'), cross_dim=(stream == 'degenerate'))
    case['stream'] = stream
    return case


# ----------------------------------------------------------------------------------------------- parsing results
def fr(tok):
    if '/' in tok:
        a, b = tok.split('/')
        return float(Fraction(int(a), int(b)))
    return float(tok)


def parse_gen(line):
    t = line.split()
    if not t:
        return ('BAD', line)
    if t[0] != 'OK':
        return (' '.join(t[:2]),)
    if any(x in ('BADID', 'BADFIX', 'NOCREATOR') for x in t):
        return ('BAD', line)
    p = 1
    na = int(t[p]); p += 1
    aux = []
    for _ in range(na):
        aux.append((fr(t[p]), fr(t[p + 1]), int(t[p + 2]))); p += 3
    assert t[p] == 'F'; p += 1
    nf = int(t[p]); p += 1
    fx = sorted(set(int(x) for x in t[p:p + nf])); p += nf      # a set: which rectangle variables become fixed
    assert t[p] == 'C'; p += 1
    nc = int(t[p]); p += 1
    cs = []
    for _ in range(nc):
        cs.append((int(t[p]), int(t[p + 1]), fr(t[p + 2]), int(t[p + 3]))); p += 4
    return ('OK', aux, fx, sorted(cs))


def run_lines(exe, args, lines, timeout=900):
    rc, out, err, dt = C.sh([exe] + args, input='\n'.join(lines) + '\n', timeout=timeout)
    return rc, out.split('\n'), err


# ----------------------------------------------------------------------------------------------- correspondence (C)
def correspondence(res, rng, ncases, cpp, ml):
    cases = []
    for i in range(ncases):
        stream = ['mixed', 'mixed', 'single', 'degenerate'][i % 4]
        cases.append(gen_case_corr(rng.fork(), stream))
    for f in sorted(os.listdir(os.path.join(C.VERIF, 'corpus'))):
        if f.startswith('c07_gen_') and f.endswith('.json'):
            cases.insert(0, json.load(open(os.path.join(C.VERIF, 'corpus', f))))
    lines = [case_line(c) for c in cases]
    rc1, o1, e1 = run_lines(cpp, ['gen'], lines)
    rc2, o2, e2 = run_lines(ml, ['gen'], lines)
    diffs = []
    hist = {}
    ntriv = 0
    samples = []
    if rc1 != 0 or rc2 != 0 or len(o1) < 2 * len(cases) or len(o2) < 2 * len(cases):
        diffs.append({'what': 'harness or model driver failed', 'rc_cpp': rc1, 'rc_model': rc2, 'stderr_cpp': e1[-1500:], 'stderr_model': e2[-1500:],
                      'lines_cpp': len(o1), 'lines_model': len(o2), 'expected_lines': 2 * len(cases)})
        return cases, diffs, hist, 0, samples
    for i, c in enumerate(cases):
        for d in (0, 1):
            a, b = parse_gen(o1[2 * i + d]), parse_gen(o2[2 * i + d])
            key = a[0] if a[0] != 'OK' else 'OK'
            hist[key] = hist.get(key, 0) + 1
            if a[0] == 'OK' and len(a[3]) > 0:
                ntriv += 1
            if a != b:
                diffs.append({'what': 'generated separation constraints / auxiliary variables differ between compound_constraints.cpp and the model',
                              'case': c, 'dim': 'XY'[d], 'implementation': o1[2 * i + d], 'model': o2[2 * i + d],
                              'replay': 'echo "%s" | <c07_cc harness> gen' % lines[i]})
        for cc in c['ccs']:
            hist[CODES[cc['code']]] = hist.get(CODES[cc['code']], 0) + 1
        if i < 3:
            samples.append({'input': lines[i], 'implementation_X': o1[2 * i], 'implementation_Y': o1[2 * i + 1]})
    return cases, diffs, hist, ntriv, samples


# ----------------------------------------------------------------------------------------------- layouts (V)
def gen_layout_case(rng, idx):
    n = rng.range(3, 10)
    kind = idx % 8
    coincide = (kind == 1)
    rects = gen_rects(rng, n, coincide=coincide)
    if kind == 2:                                   # a few coincident pairs
        for _ in range(2):
            a, b = rng.below(n), rng.below(n)
            w, h = rects[a][1] - rects[a][0], rects[a][3] - rects[a][2]
            cx, cy = (rects[b][0] + rects[b][1]) // 2, (rects[b][2] + rects[b][3]) // 2
            rects[a] = [cx - w // 2, cx + w // 2, cy - h // 2, cy + h // 2]
    edges = []
    if kind != 3:                                   # kind 3: edgeless
        for v in range(1, n):
            if rng.chance(4, 5):
                edges.append([rng.below(v), v])
        for _ in range(rng.below(4)):
            a, b = rng.below(n), rng.below(n)
            if a != b:
                edges.append([a, b])
    stream = 'unsat' if idx % 5 == 4 else 'sat'
    ccs = []
    if stream == 'sat':
        # acyclic separations l<r in index order, alignments over distinct shapes, ... (mostly jointly satisfiable)
        for _ in range(rng.below(4)):
            a, b = rng.below(n), rng.below(n)
            if a == b:
                continue
            a, b = min(a, b), max(a, b)
            ccs.append({'code': 1, 'd': rng.below(2), 'l': a, 'r': b, 'g': rng.range(0, 60) * 16, 'e': rng.chance(1, 4)})
        extra = gen_ccs(rng, n, [3, 3, 4, 2, 5, 6, 7, 8], 4, satisfiable=True)
        ccs += extra
        # references into the list are positions: gen_ccs produced positions relative to its own list -> shift
        off = len(ccs) - len(extra)
        for c in extra:
            if c['code'] == 2:
                c['la'] += off; c['ra'] += off
            if c['code'] in (5, 6):
                c['prs'] = [[a + off, b + off] for a, b in c['prs']]
    else:
        ccs = gen_ccs(rng, n, [1, 1, 1, 2, 3, 3, 4, 5, 6, 7], 7, satisfiable=False)
        # cycles of separations on purpose
        a, b = rng.below(n), rng.below(n)
        if a != b and rng.chance(1, 2):
            d = rng.below(2)
            ccs.append({'code': 1, 'd': d, 'l': a, 'r': b, 'g': 20 * 16, 'e': False})
            ccs.append({'code': 1, 'd': d, 'l': b, 'r': a, 'g': 20 * 16, 'e': False})
    # page boundaries' shapes use the real half sizes; distributions get >= 2 pairs sometimes: fine as generated
    mode = [0, 0, 0, 0, 1, 2, 3, 3][rng.below(8)]
    case = {'n': n, 'rects': rects, 'ccs': ccs, 'edges': edges, 'ideal': rng.choice([40, 60, 100]) * 16, 'mode': mode,
            'overlap': int(rng.chance(1, 2)) if mode != 3 else int(rng.chance(1, 4)), 'neighbour': int(rng.chance(1, 4)),
            'stream': stream, 'kind': ['generic', 'all-coincident', 'coincident-pairs', 'edgeless', 'generic', 'generic', 'generic', 'generic'][kind]}
    return case


def refs_of(cc):
    if cc['code'] == 2:
        return [cc['la'], cc['ra']]
    if cc['code'] in (5, 6):
        return [x for ab in cc['prs'] for x in ab]
    return []


def parse_layout(line, n):
    t = line.split()
    if not t or t[0] != 'R':
        return None
    p = 1
    R = []
    for i in range(n):
        R.append([float(x) for x in t[p:p + 4]]); p += 4
    out = {'R': R, 'UX': [], 'UY': [], 'PG': {}, 'EXC': None}
    while p < len(t):
        if t[p] in ('UX', 'UY'):
            k = int(t[p + 1]); out[t[p]] = [int(x) for x in t[p + 2:p + 2 + k]]; p += 2 + k
        elif t[p] == 'PG':
            out['PG'][int(t[p + 1])] = [float(x) for x in t[p + 2:p + 6]]; p += 6
        elif t[p] == 'EXC':
            out['EXC'] = ' '.join(t[p + 1:]); break
        else:
            p += 1
    return out


def checker_line(case, R):
    tol = TOL + SLACK
    cs = []
    for r in R:
        cs += [int(round(r[0] * GRID)), int(round(r[1] * GRID))]
    return '%s | %d %d | %d %s' % (case_line(case), tol.numerator, tol.denominator, GRID, ' '.join(str(c) for c in cs))


def layouts(res, rng, ncases, cpp, ml, corpus=True):
    cases = [gen_layout_case(rng.fork(), i) for i in range(ncases)]
    if corpus:
        for f in sorted(os.listdir(os.path.join(C.VERIF, 'corpus'))):
            if f.startswith('c07_layout_') and f.endswith('.json'):
                cases.insert(0, json.load(open(os.path.join(C.VERIF, 'corpus', f))))
    lines = [case_line(c, layout=True) for c in cases]
    rc, out, err = run_lines(cpp, ['layout'], lines, timeout=1800)
    stats = {'layouts': 0, 'reported_unsat': 0, 'exceptions': 0, 'cc_evaluated': 0, 'cc_excluded_reported': 0, 'by_mode': {}, 'by_kind': {},
             'by_type': {}, 'unchecked_huge': 0}
    viols = []
    if rc != 0 or len(out) < len(cases):
        # the harness died: find the case
        done = len([l for l in out if l.strip()])
        bad = cases[done] if done < len(cases) else None
        viols.append({'what': 'layout harness crashed (signal/abort) on this case', 'rc': rc, 'case': bad,
                      'stderr': err[-1500:], 'replay': 'echo "%s" | <c07_cc harness> layout' % (lines[done] if bad else '')})
        cases = cases[:done]
    chk_lines, chk_idx, parsed = [], [], []
    for i, c in enumerate(cases):
        r = parse_layout(out[i], c['n'])
        parsed.append(r)
        if r is None:
            if out[i].startswith('SKIP'):
                continue
            viols.append({'what': 'unparsable harness output', 'case': c, 'output': out[i][:300]}); continue
        stats['layouts'] += 1
        mk = 'mode%d' % c['mode']
        stats['by_mode'][mk] = stats['by_mode'].get(mk, 0) + 1
        stats['by_kind'][c['kind']] = stats['by_kind'].get(c['kind'], 0) + 1
        if r['EXC']:
            stats['exceptions'] += 1
            viols.append({'what': 'layout threw: the postcondition of C07 is not delivered', 'exception': r['EXC'], 'case': c,
                          'replay': 'echo "%s" | <c07_cc harness> layout' % lines[i]})
            continue
        bad_num = [j for j, q in enumerate(r['R']) if not all(math.isfinite(x) for x in q)]
        if bad_num:
            viols.append({'what': 'NaN or infinite coordinate in the result', 'nodes': bad_num, 'result': r['R'], 'case': c,
                          'replay': 'echo "%s" | <c07_cc harness> layout' % lines[i]})
            continue
        size_bad = [j for j, q in enumerate(r['R']) if abs(q[2] - (c['rects'][j][1] - c['rects'][j][0]) / 16.0) > 1e-9 or
                    abs(q[3] - (c['rects'][j][3] - c['rects'][j][2]) / 16.0) > 1e-9]
        if size_bad:
            viols.append({'what': 'rectangle size changed by the layout', 'nodes': size_bad, 'result': r['R'], 'case': c,
                          'replay': 'echo "%s" | <c07_cc harness> layout' % lines[i]})
            continue
        if max(abs(x) for q in r['R'] for x in q[:2]) > 2.0 ** 40:
            stats['unchecked_huge'] += 1
            continue
        if r['UX'] or r['UY']:
            stats['reported_unsat'] += 1
        chk_lines.append(checker_line(c, r['R'])); chk_idx.append(i)
    if chk_lines:
        rc2, out2, err2 = run_lines(ml, ['check'], chk_lines)
        if rc2 != 0 or len(out2) < len(chk_lines):
            viols.append({'what': 'extracted checker failed to run', 'rc': rc2, 'stderr': err2[-1500:], 'machinery': True})
        else:
            for k, i in enumerate(chk_idx):
                c, r = cases[i], parsed[i]
                flags = out2[k].split()
                for j, cc in enumerate(c['ccs']):
                    tname = CODES[cc['code']]
                    for d in (0, 1):
                        rep = set(x for x in (r['UX'] if d == 0 else r['UY']) if x >= 0)
                        excluded = (j in rep) or any(a in rep for a in refs_of(cc))
                        if excluded:
                            stats['cc_excluded_reported'] += 1
                            continue
                        stats['cc_evaluated'] += 1
                        stats['by_type'][tname] = stats['by_type'].get(tname, 0) + 1
                        if flags[j][d] != '1':
                            viols.append({'what': 'compound constraint violated by more than 1e-4 in the final layout and not reported unsatisfiable',
                                          'constraint_index': j, 'constraint': cc, 'type': tname, 'dim': 'XY'[d],
                                          'final_centres': [q[:2] for q in r['R']], 'reported_unsat_X': r['UX'], 'reported_unsat_Y': r['UY'],
                                          'case': c, 'replay': 'echo "%s" | <c07_cc harness> layout' % lines[i]})
                    if cc['code'] == 8 and j in r['PG']:
                        # soft page boundary: every rectangle inside the *actual* margins the constraint reports
                        xl, xr, yl, yr = r['PG'][j]
                        for s, hx, hy in cc['sh']:
                            if s < c['n']:
                                x, y = r['R'][s][0], r['R'][s][1]
                                if cc['w'] != 0 and (x - hx / 16.0 < xl - 1e-4 or x + hx / 16.0 > xr + 1e-4 or y - hy / 16.0 < yl - 1e-4 or y + hy / 16.0 > yr + 1e-4) \
                                        and j not in r['UX'] and j not in r['UY']:
                                    viols.append({'what': 'rectangle outside the actual page margins reported by PageBoundaryConstraints', 'constraint_index': j,
                                                  'shape': s, 'margins': r['PG'][j], 'centre': [x, y], 'case': c,
                                                  'replay': 'echo "%s" | <c07_cc harness> layout' % lines[i]})
    return cases, viols, stats


def run(tier):
    res = C.Result(PID, tier, 'proof')
    rng = C.SplitMix64(C.get_seed() ^ 0xC07)
    info = C.prove(res, PID)
    cpp = C.build_harness('c07_cc', ['libcola', 'libvpsc'], 'exc')
    ml = C.ocaml_build('c07model', 'C07model.v', 'c07_driver.ml', 'c07_model.ml')
    ncorr = 600 if tier == 'quick' else 4000
    cases, diffs, hist, ntriv, samples = correspondence(res, rng.fork(), ncorr, cpp, ml)
    print(len(cases), len(diffs), hist, ntriv)
    for d in diffs[:3]:
        print(json.dumps(d)[:1500])
    return 0


def warm():
    C.build_harness('c07_cc', ['libcola', 'libvpsc'], 'exc')
    C.ocaml_build('c07model', 'C07model.v', 'c07_driver.ml', 'c07_model.ml')
