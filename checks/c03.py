"""C03 - libavoid: every route joins its two endpoints and stays out of obstacles (DESIGN 5.3).
proof: Properties/C03.v (exact segment/polygon decider, verified route checker route_ok, the blocking test of
EdgeInf::firstBlocker / Router::newBlockingShape as a fold of the cpp2v-generated segmentShapeIntersect: complete when an
edge is properly crossed, refuted on degenerate chords; reference router returns visible paths only).
tie: T (Gen/Geometry.v regenerated every run) + V: the extracted route_ok runs on the real displayRoute() of every connector
(both routing modes, buffer 0 and > 0, nudging on) over a generic-position stream and a separate degenerate stream.
A failing route whose every offending segment satisfies the extracted classifier degenerate_chord is the known finding F-b."""
import os, json, hashlib
from vlib import common as C
from checks import avoid_lib as A

PID = 'C03'

# (name, mode, segmentPenalty, shapeBufferDistance, idealNudgingDistance, rect_only)
CONFIGS = [
    ('poly-pen0', 0, 0, 0, 0, False),
    ('poly-pen10', 0, 10, 0, 0, False),
    ('poly-pen0-buf3', 0, 0, 3, 0, False),
    ('poly-pen1-buf2', 0, 1, 2, 0, False),
    ('orth-nudge4', 1, 10, 0, 4, False),
    ('orth-buf3-nudge4', 1, 10, 3, 4, False),
    ('orth-nonudge', 1, 10, 0, 0, False),
]
DEG_CONFIGS = [
    ('deg-poly-pen0', 0, 0, 0, 0),
    ('deg-poly-pen10', 0, 10, 0, 0),
    ('deg-orth', 1, 10, 0, 4),
]


def check_cases(res, exe, drv, cases, stats, samples):
    """cases: list of dict(stream, cfg, polys, conns, mode, pen, buf, nudge, script).  Runs all of them in one harness
    process, checks every displayRoute with the extracted route_ok, classifies failures."""
    lines = []
    for c in cases:
        lines += c['script']
    runs, rc, err = A.run_harness(exe, lines)
    if rc != 0 or len(runs) != len(cases):
        # locate the crashing case by running them one by one
        for c in cases:
            r1, rc1, err1 = A.run_harness(exe, c['script'])
            if rc1 != 0 or len(r1) != 1:
                res.violation({'what': 'harness crashed (no route produced)', 'rc': rc1, 'stderr': err1[-1500:], 'script': c['script'],
                               'replay': 'feed "script" lines to build/bin/c03_route-exc-*'})
                return
        res.violation({'what': 'harness batch failed but every single case ran', 'rc': rc, 'stderr': err[-1500:]}, no_input=True)
        return
    queries, meta = [], []
    for c, run in zip(cases, runs):
        if run['exc'] is not None or len(run['dumps']) != 1:
            fp = None
            res.violation({'what': 'assertion / exception inside libavoid while routing a valid scene', 'exception': run['exc'],
                           'script': c['script'], 'config': c['cfg'], 'replay': 'feed "script" lines to build/bin/c03_route-exc-*'})
            stats['exceptions'] += 1
            continue
        d = run['dumps'][0]
        for i, (s, t) in enumerate(c['conns']):
            cid = 100 + i
            route = d['disp'].get(cid, [])
            queries.append(A.q_chk(c['polys'], s, t, route))
            meta.append((c, d, cid, s, t, route))
    ans = A.run_driver(drv, queries)
    fails = []
    for a, m in zip(ans, meta):
        c, d, cid, s, t, route = m
        stats['routes'] += 1
        stats['by_config'][c['cfg']] = stats['by_config'].get(c['cfg'], 0) + 1
        key = hashlib.sha256(repr((c['cfg'], c['polys'], s, t)).encode()).hexdigest()
        if len(route) > 2:
            stats['nontrivial'].add(key)
        nb = min(len(route) - 2, 6) if len(route) >= 2 else -1
        stats['bends_hist'][nb] = stats['bends_hist'].get(nb, 0) + 1
        if len(samples) < 4 and len(route) > 2 and c['cfg'] not in [x['config'] for x in samples]:
            samples.append({'config': c['cfg'], 'shapes': c['polys'], 'src': s, 'dst': t, 'displayRoute': route, 'route_ok': a})
        off = A.parse_chk(a)
        if off:
            fails.append((m, off))
    # classification of failures
    for (c, d, cid, s, t, route), off in fails:
        obj = {'what': 'displayRoute fails the verified checker route_ok', 'config': c['cfg'], 'stream': c['stream'],
               'mode': c['mode'], 'segmentPenalty': c['pen'], 'shapeBufferDistance': c['buf'], 'idealNudgingDistance': c['nudge'],
               'shapes': c['polys'], 'src': s, 'dst': t, 'displayRoute': route, 'raw_route': d['route'].get(cid),
               'offenders_(segment,shape,degenerate_chord)': off, 'script': c['script'],
               'replay': './check C03 --replay <this file>  (runs "script" on harness/c03_route.cpp and re-checks)'}
        if off == [(-1, -1, 0)]:
            obj['what'] = 'displayRoute has fewer than two points or does not start/end at the attachment points'
            res.violation(obj)
            stats['violations'] += 1
            continue
        # is there an obstacle-free path at all?  (the property only speaks about that case)
        pl = A.parse_route_answer(A.run_driver(drv, [A.q_plain(c['polys'], s, t)])[0])
        if pl is None:
            stats['no_free_path'] += 1
            continue
        # With a buffer distance the routing polygon of a sharp-cornered shape is a mitred offset that reaches far beyond the
        # shape; an endpoint inside it is "contained" for the router (Router::contains) and the shape is ignored for that
        # connector.  Such endpoints are outside the generated domain (endpoints in free space w.r.t. the routing polygons).
        if c['buf'] > 0:
            from fractions import Fraction as F
            idsb = sorted(d['shapes'].keys())
            zone = True
            for (seg, shp, dg) in off:
                B = [(F(x), F(y)) for x, y in d['bshapes'][idsb[shp]]]
                if not (A.inside_strict(B, s) or A.inside_strict(B, t)):
                    zone = False
            if zone:
                stats['endpoint_in_buffer_zone'] = stats.get('endpoint_in_buffer_zone', 0) + 1
                continue
        # Classification on the raw route() (the visibility-graph edges the search used; displayRoute merges collinear
        # runs): known finding iff the raw route itself offends, and every offending raw segment is a degenerate chord of
        # the routing polygon (shape grown by the buffer distance) it crosses.
        ids = sorted(d['shapes'].keys())
        bpolys = [d['bshapes'][i] for i in ids]
        raw = d['route'].get(cid, [])
        roff = A.parse_chk(A.run_driver(drv, [A.q_chk(bpolys, s, t, raw)])[0]) if len(raw) >= 2 else [(-1, -1, 0)]
        obj['raw_route_offenders_vs_routing_polygons_(segment,shape,degenerate_chord)'] = roff
        if roff and roff != [(-1, -1, 0)] and all(o[2] == 1 for o in roff):
            stats['known_degenerate_chord'] += 1
            if not res.violation(obj, fingerprint='degenerate_chord'):
                continue
        else:
            res.violation(obj)
        stats['violations'] += 1


def make_case(stream, cfgname, polys, conns, mode, pen, buf, nudge):
    return {'stream': stream, 'cfg': cfgname, 'polys': polys, 'conns': conns, 'mode': mode, 'pen': pen, 'buf': buf, 'nudge': nudge,
            'script': A.scene_script(polys, conns, mode, pen, buf, nudge, 1)}


def corpus_cases():
    out = []
    for f in sorted(os.listdir(os.path.join(C.VERIF, 'corpus'))):
        if f.startswith('c03_') and f.endswith('.json'):
            j = json.load(open(os.path.join(C.VERIF, 'corpus', f)))
            out.append((f, j))
    return out


def run_corpus(res, exe, drv, stats):
    """corpus entries: {'script': [...], 'shapes': [...], 'conns': [[s,d]...]} - the LAST dump of the run is checked"""
    for name, j in corpus_cases():
        runs, rc, err = A.run_harness(exe, j['script'])
        if rc != 0 or not runs or runs[0]['exc'] or not runs[0]['dumps']:
            res.violation({'what': 'corpus case does not run', 'corpus': name, 'rc': rc, 'exception': runs[0]['exc'] if runs else None,
                           'script': j['script']})
            continue
        d = runs[0]['dumps'][-1]
        polys = [tuple(map(tuple, P)) for P in j['shapes']]
        for i, (s, t) in enumerate(j['conns']):
            route = d['disp'][100 + i]
            a = A.run_driver(drv, [A.q_chk(polys, tuple(s), tuple(t), route)])[0]
            stats['corpus'] += 1
            off = A.parse_chk(a)
            if off:
                obj = {'what': 'corpus case: displayRoute fails route_ok', 'corpus': name, 'shapes': j['shapes'], 'src': s, 'dst': t,
                       'displayRoute': route, 'offenders_(segment,shape,degenerate_chord)': off, 'script': j['script']}
                if off != [(-1, -1, 0)] and all(o[2] == 1 for o in off):
                    stats['known_degenerate_chord'] += 1
                    if not res.violation(obj, fingerprint='degenerate_chord'):
                        continue
                else:
                    res.violation(obj)
                stats['violations'] += 1


def run(tier):
    res = C.Result(PID, tier, 'proof')
    info = C.prove(res, PID, gen_modules=['Geometry'])
    res.assumptions = [
        'route_ok is run on the un-buffered polygons and on the exact rational value of every printed binary64 coordinate',
        'orthogonal mode treats a shape as its bounding box (Obstacle::routingBox), so in orthogonal configurations the generated '
        'endpoints lie outside every shape\'s bounding box (an endpoint inside the box of a triangle is inside the obstacle for that mode)',
        'the blocking-test theorems are about Gen/Geometry.v (cpp2v, regenerated this run); Lee\'s rotational sweep and the '
        'orthogonal sweep are not modelled - their effect is only observed through route validity (V), which is validation, not proof']
    exe = A.harness()
    drv = A.driver()
    rng = C.SplitMix64(C.get_seed() ^ 0xC03)
    n_gen, n_deg = (40, 120) if tier == 'quick' else (220, 700)
    stats = {'routes': 0, 'by_config': {}, 'nontrivial': set(), 'bends_hist': {}, 'violations': 0, 'known_degenerate_chord': 0,
             'no_free_path': 0, 'exceptions': 0, 'corpus': 0}
    samples = []
    run_corpus(res, exe, drv, stats)
    cases = []
    for (name, mode, pen, buf, nudge, ro) in CONFIGS:
        for _ in range(n_gen):
            polys, conns = A.gen_scene(rng, nmax=8, R=40, gap=1, buf=buf, rect_only=ro, use_bbox=(mode == 1))
            if conns:
                cases.append(make_case('generic', name, polys, conns, mode, pen, buf, nudge))
    for (name, mode, pen, buf, nudge) in DEG_CONFIGS:
        for _ in range(n_deg):
            polys, conns = A.gen_degenerate_scene(rng, use_bbox=(mode == 1))
            if polys and conns:
                cases.append(make_case('degenerate', name, polys, conns, mode, pen, buf, nudge))
    B = 400
    for i in range(0, len(cases), B):
        check_cases(res, exe, drv, cases[i:i + B], stats, samples)
    res.cov.update({
        'evaluations': stats['routes'] + stats['corpus'],
        'distinct_nontrivial': len(stats['nontrivial']),
        'rule': 'one evaluation = one connector routed by Avoid::Router in a generated scene and its displayRoute() checked by the '
                'extracted route_ok; generic stream: 1-8 convex integer polygons with boxes separated by >= 1 + 2*buffer, endpoints in '
                'free space; degenerate stream: touching shapes, shared corners, endpoints collinear with shape sides / through shape '
                'vertices; non-trivial = distinct (config, scene, connector) whose displayed route has at least one bend',
        'samples': samples,
        'traces_validated_against_impl': stats['routes'] + stats['corpus'],
        'routes_by_config': stats['by_config'], 'bends_histogram': {str(k): v for k, v in sorted(stats['bends_hist'].items())},
        'no_free_path_cases_skipped': stats['no_free_path'], 'endpoint_in_mitred_buffer_zone_skipped': stats.get('endpoint_in_buffer_zone', 0), 'libavoid_exceptions': stats['exceptions'],
        'known_degenerate_chord_cases': stats['known_degenerate_chord'], 'checker_failures_reported': stats['violations'],
        'corpus_cases': stats['corpus'], 'exhaustive': False})
    if not res.violations and not info['ok']:
        res.violation({'what': 'a proof obligation of C03 no longer checks (or cpp2v left the fragment); the search - route_ok on every '
                               'real route of both streams and the corpus - found no route through an obstacle',
                       'broken_files': info.get('broken'), 'broken_lemmas': info.get('broken_lemmas'),
                       'unsupported': info.get('unsupported'), 'forbidden': info.get('forbidden'),
                       'coq_log_tail': info['log'][-3000:]}, no_input=True)
    return res.finish()


def replay(path):
    j = json.load(open(path))
    exe = A.harness(); drv = A.driver()
    runs, rc, err = A.run_harness(exe, j['script'])
    print('harness rc', rc, 'exception', runs[0]['exc'] if runs else None)
    if not runs or not runs[0]['dumps']:
        return 1
    d = runs[0]['dumps'][-1]
    polys = [tuple(map(tuple, P)) for P in j['shapes']]
    bad = 0
    for cid, route in sorted(d['disp'].items()):
        s, t = d['ends'][cid]
        a = A.run_driver(drv, [A.q_chk(polys, s, t, route)])[0]
        print('connector', cid, 'displayRoute', route, '->', a)
        bad += a != 'ok'
    return 1 if bad else 0


def warm():
    A.harness()
    A.driver()


META = {
    'property_id': PID,
    'level_claimed': {
        'category': 'proof',
        'text': 'Coq theorems (Properties/C03.v), all inputs: (1) the exact segment-vs-convex-polygon decider (Cyrus-Beck over Q) is correct, hence '
                'the route checker route_ok decides "at least two points, starts/ends at the attachments, no point of any segment strictly inside '
                'a shape not containing an endpoint"; (2) the per-shape loop of EdgeInf::firstBlocker / Router::newBlockingShape, as a fold of the '
                'cpp2v-regenerated segmentShapeIntersect, equals "some edge properly crossed or two endpoint touches", is order independent, is '
                'complete on non-degenerate chords (blocked_complete: a segment through the interior that hits the relative interior of an edge is blocked; '
                'for strictly convex shapes the unblocked family is exactly "meets the boundary only at vertices / own endpoints, fewer than two endpoint touches") '
                'and is REFUTED on degenerate chords (square (0,0)-(10,10), segment (-5,-5)-(15,15); '
                'known finding F-b, replayed on the real router every run); (3) the reference router only returns chains of visible segments, '
                'so its routes pass route_ok. Tie: translator for the predicates + the extracted route_ok run on every real displayRoute of a '
                'generic and a degenerate scene stream (V: validation and search, not proof of the implementation).',
        'design_ref': 'DESIGN.md 5.3'},
    'level_note': 'partial + finding. Trusted: Coq kernel; cpp2v.py + clang AST; exact-rational model of binary64; extraction (ExtrOcamlBasic) and the '
                  'OCaml/C++ drivers. Not modelled: Lee\'s rotational sweep (visibility.cpp), the orthogonal sweep and nudging - seen only through '
                  'route validity on generated scenes. The classifier degenerate_chord is proved equal to its declarative meaning (degenerate_chord_exact, '
                  'boundary_vertices_iff); the blocking test is proved sound for strictly convex shapes with distinct vertices and non-empty interior '
                  '(blocked_sound, blocked_exact); the reference search is proved never to answer SearchFail (route_plain_total). '
                  'Orthogonal mode treats shapes as bounding boxes, so endpoints are generated outside the boxes there.',
    'technique': 'Coq proof over cpp2v-regenerated Gallina + verified route checker run on the implementation\'s routes',
}
