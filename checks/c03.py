"""C03 - libavoid: every route joins its two endpoints and stays out of obstacles (DESIGN 5.3).
proof: Properties/C03.v (exact segment/polygon decider, verified route checker route_ok, the blocking test of
EdgeInf::firstBlocker / Router::newBlockingShape as a fold of the cpp2v-generated segmentShapeIntersect: complete when an
edge is properly crossed, refuted on degenerate chords; reference router returns visible paths only).
tie: T (Gen/Geometry.v regenerated every run) + V: the extracted route_ok runs on the real displayRoute() of every connector
(both routing modes, buffer 0 and > 0, nudging on) over a generic-position stream and a separate degenerate stream.
A failing route whose every offending segment satisfies the extracted classifier degenerate_chord is the known finding F-b.
Two further families: "contains" (multi-transaction histories in which an endpoint starts strictly inside a shape that then leaves
it; route_ok with the containment exemption evaluated on the CURRENT polygons after every processTransaction) and "hyperedge"
(free junction + 3-5 orthogonal connectors, obstacles near the trunks, both hyperedge-improvement options, with / without nudging;
the exemption-free core segs_clear on every connector's displayRoute, junction ends at position() or recommendedPosition()).
Third round (DESIGN 9.10): the edge loop of Router::newBlockingShape is itself translated by cpp2v (Gen/BlockingLoop.v, a loop slice) and proved equal to the
hand model (Avoid/BlockingGen.v); the real EdgeInf::firstBlocker / Router::newBlockingShape are run on (segment, polygon) inputs against the extracted
spec_shapeBlocks (harness/c03_block.cpp, check_blocking); history families "wedged" (three mutually touching rectangles, activation order of the wedged one)
and "pocket" (unroutable, then routable); scene family "zbend" (Z-bend connectors in a shared corridor, unifying nudging pre-step).  A route along a degenerate
chord is a known finding only if the proved per-shape test does not block it (degenerate_chord) or, when it does, if the edge was last computed by the rotational
sweep with the shape already active (sweep_border_chord, path-sensitive classifier avoid_lib.sweep_computed_edge_last).
Fourth round (DESIGN 9.20): history families with shapeBufferDistance 4 / 10 (rectangles; route_ok against the ROUTING polygons = rectangles grown by the buffer distance, tied to the
harness's B lines; "bufzone" = only the buffer zone of an added / moved / grown rectangle lies across a current route; seeded change C06-8); dual-mode routers (harness mode 2) with
routing-type switches on existing connectors (op Y = ConnRef::setRoutingType, family "typeswitch"; an orthogonal connector's route must also be axis-parallel; seeded change C03-8);
scene family "sharedpin" (harness ops N = ShapeConnectionPin, Q = connector to ConnEnd(shape, class)): 2-4 orthogonal connectors share ONE non-exclusive off-centre pin as destination,
obstacles between sources and target; route_ok with the pin position as the attachment point (seeded change C03-7)."""
import os, json, hashlib
from vlib import common as C
from checks import avoid_lib as A

PID = 'C03'

# (name, mode, segmentPenalty, shapeBufferDistance, idealNudgingDistance, rect_only)
CONFIGS = [
    ('poly-pen0', 0, 0, 0, 0, False),
    ('poly-pen10', 0, 10, 0, 0, False),
    ('poly-pen0-buf3', 0, 0, 3, 0, False),
    ('poly-pen1-buf2', 0, 1, 2, 0, False),
    ('orth-nudge4', 1, 10, 0, 4, False),
    ('orth-buf3-nudge4', 1, 10, 3, 4, False),
    ('orth-nonudge', 1, 10, 0, 0, False),
]
DEG_CONFIGS = [
    ('deg-poly-pen0', 0, 0, 0, 0),
    ('deg-poly-pen10', 0, 10, 0, 0),
    ('deg-orth', 1, 10, 0, 4),
]


def check_cases(res, exe, drv, cases, stats, samples):
    """cases: list of dict(stream, cfg, polys, conns, mode, pen, buf, nudge, script).  Runs all of them in one harness
    process, checks every displayRoute with the extracted route_ok, classifies failures."""
    lines = []
    for c in cases:
        lines += c['script']
    runs, rc, err = A.run_harness(exe, lines)
    if rc != 0 or len(runs) != len(cases):
        # locate the crashing case by running them one by one
        for c in cases:
            r1, rc1, err1 = A.run_harness(exe, c['script'])
            if rc1 != 0 or len(r1) != 1:
                res.violation({'what': 'harness crashed (no route produced)', 'rc': rc1, 'stderr': err1[-1500:], 'script': c['script'],
                               'replay': 'feed "script" lines to build/bin/c03_route-exc-*'})
                return
        res.violation({'what': 'harness batch failed but every single case ran', 'rc': rc, 'stderr': err[-1500:]}, no_input=True)
        return
    queries, meta = [], []
    for c, run in zip(cases, runs):
        if run['exc'] is not None or len(run['dumps']) != 1:
            fp = None
            res.violation({'what': 'assertion / exception inside libavoid while routing a valid scene', 'exception': run['exc'],
                           'script': c['script'], 'config': c['cfg'], 'replay': 'feed "script" lines to build/bin/c03_route-exc-*'})
            stats['exceptions'] += 1
            continue
        d = run['dumps'][0]
        for i, (s, t) in enumerate(c['conns']):
            cid = 100 + i
            route = d['disp'].get(cid, [])
            queries.append(A.q_chk(c['polys'], s, t, route))
            meta.append((c, d, cid, s, t, route))
    ans = A.run_driver(drv, queries)
    fails = []
    for a, m in zip(ans, meta):
        c, d, cid, s, t, route = m
        stats['routes'] += 1
        stats['by_config'][c['cfg']] = stats['by_config'].get(c['cfg'], 0) + 1
        key = hashlib.sha256(repr((c['cfg'], c['polys'], s, t)).encode()).hexdigest()
        if len(route) > 2:
            stats['nontrivial'].add(key)
        nb = min(len(route) - 2, 6) if len(route) >= 2 else -1
        stats['bends_hist'][nb] = stats['bends_hist'].get(nb, 0) + 1
        if len(samples) < 4 and len(route) > 2 and c['cfg'] not in [x['config'] for x in samples]:
            samples.append({'config': c['cfg'], 'shapes': c['polys'], 'src': s, 'dst': t, 'displayRoute': route, 'route_ok': a})
        off = A.parse_chk(a)
        if off:
            fails.append((m, off))
    # classification of failures
    for (c, d, cid, s, t, route), off in fails:
        obj = {'what': 'displayRoute fails the verified checker route_ok', 'config': c['cfg'], 'stream': c['stream'],
               'mode': c['mode'], 'segmentPenalty': c['pen'], 'shapeBufferDistance': c['buf'], 'idealNudgingDistance': c['nudge'],
               'shapes': c['polys'], 'src': s, 'dst': t, 'displayRoute': route, 'raw_route': d['route'].get(cid),
               'offenders_(segment,shape,degenerate_chord)': off, 'script': c['script'],
               'replay': './check C03 --replay <this file>  (runs "script" on harness/c03_route.cpp and re-checks)'}
        if off == [(-1, -1, 0)]:
            obj['what'] = 'displayRoute has fewer than two points or does not start/end at the attachment points'
            res.violation(obj)
            stats['violations'] += 1
            continue
        # is there an obstacle-free path at all?  (the property only speaks about that case)
        pl = A.parse_route_answer(A.run_driver(drv, [A.q_plain(c['polys'], s, t)])[0])
        if pl is None:
            stats['no_free_path'] += 1
            continue
        # With a buffer distance the routing polygon of a sharp-cornered shape is a mitred offset that reaches far beyond the
        # shape; an endpoint inside it is "contained" for the router (Router::contains) and the shape is ignored for that
        # connector.  Such endpoints are outside the generated domain (endpoints in free space w.r.t. the routing polygons).
        if c['buf'] > 0:
            from fractions import Fraction as F
            idsb = sorted(d['shapes'].keys())
            zone = True
            for (seg, shp, dg) in off:
                B = [(F(x), F(y)) for x, y in d['bshapes'][idsb[shp]]]
                if not (A.inside_strict(B, s) or A.inside_strict(B, t)):
                    zone = False
            if zone:
                stats['endpoint_in_buffer_zone'] = stats.get('endpoint_in_buffer_zone', 0) + 1
                continue
        # Classification on the raw route() (the visibility-graph edges the search used; displayRoute merges collinear
        # runs): known finding iff the raw route itself offends, and every offending raw segment is a degenerate chord of
        # the routing polygon (shape grown by the buffer distance) it crosses.
        ids = sorted(d['shapes'].keys())
        bpolys = [d['bshapes'][i] for i in ids]
        raw = d['route'].get(cid, [])
        roff = A.parse_chk(A.run_driver(drv, [A.q_chk(bpolys, s, t, raw)])[0]) if len(raw) >= 2 else [(-1, -1, 0)]
        obj['raw_route_offenders_vs_routing_polygons_(segment,shape,degenerate_chord)'] = roff
        cops = [('A', ids[k], [(int(x), int(y)) for x, y in P]) for k, P in enumerate(c['polys'])] + \
               [('C', 100 + k, sd[0], sd[1]) for k, sd in enumerate(c['conns'])] + [('P',)]
        fp = A.classify_border_chords(drv, bpolys, ids, raw, roff, cops, 1) if len(raw) >= 2 else None
        if fp:
            stats['known_' + fp] = stats.get('known_' + fp, 0) + 1
            obj['classifier'] = fp
            if not res.violation(obj, fingerprint=fp):
                continue
        else:
            if c['stream'] == 'zbend' and stats.get('zbend_violations', 0) >= 4:
                stats['zbend_violations'] += 1; stats['violations'] += 1
                continue                                  # four reproducers of one directed family per run are enough
            if c['stream'] == 'zbend':
                stats['zbend_violations'] = stats.get('zbend_violations', 0) + 1
            res.violation(obj)
        stats['violations'] += 1


# "contains" family: (name, mode, segmentPenalty, idealNudgingDistance, transactions); orthogonal mode: rectangles only
CONTAINS_CONFIGS = [('contains-poly-pen0-trans', 0, 0, 0, 1), ('contains-poly-pen10-notrans', 0, 10, 0, 0),
                    ('contains-orth-nudge4-trans', 1, 10, 4, 1), ('contains-orth-nonudge-notrans', 1, 10, 0, 0)]
# directed history families of checks/avoid_lib.py (route_ok after every processTransaction): "noop" = moves that leave a shape's polygon unchanged
# after connectors detour round it (zero move, self-cancelling moves, same polygon, there and back); "addmove" = add + moves + relative move of one
# shape in one transaction; "only" = transactions of only deletions / only additions / only endpoint changes
DIRECTED_CONFIGS = [('noop', 'noop-poly-pen0-trans', 0, 0, 0, 1), ('noop', 'noop-poly-pen10-trans', 0, 10, 0, 1), ('noop', 'noop-poly-pen0-notrans', 0, 0, 0, 0),
                    ('noop', 'noop-orth-nudge4-trans', 1, 10, 4, 1),
                    ('addmove', 'addmove-poly-pen0-trans', 0, 0, 0, 1), ('addmove', 'addmove-orth-nonudge-trans', 1, 10, 0, 1),
                    ('only', 'only-orth-nonudge-trans', 1, 10, 0, 1), ('only', 'only-orth-nudge4-trans', 1, 10, 4, 1), ('only', 'only-poly-pen0-trans', 0, 0, 0, 1)]
# third round (DESIGN 9.10): "wedged" = three mutually touching rectangles, the wedged one becoming active after the visibility edge between its
# neighbours exists (largest id of a transaction, later transaction, moved / grown into the gap); "pocket" = unroutable, then routable
DIRECTED_CONFIGS += [('wedged', 'wedged-poly-pen0-trans', 0, 0, 0, 1), ('wedged', 'wedged-poly-pen0-notrans', 0, 0, 0, 0), ('wedged', 'wedged-poly-pen10-trans', 0, 10, 0, 1),
                     ('pocket', 'pocket-poly-pen0-trans', 0, 0, 0, 1), ('pocket', 'pocket-poly-pen10-notrans', 0, 10, 0, 0),
                     ('pocket', 'pocket-orth-nudge4-trans', 1, 10, 4, 1), ('pocket', 'pocket-orth-nonudge-notrans', 1, 10, 0, 0)]
DIRECTED_GEN = {'noop': A.gen_noop_move_history, 'addmove': A.gen_addmove_history, 'only': A.gen_homogeneous_history,
                'wedged': A.gen_wedged_history, 'pocket': A.gen_pocket_history}
# "zbend" scene family (orthogonal, nudging on, default options): 2-3 connectors with Z-bends in a shared corridor region, one channel narrowed by an extra shape
# shapeBufferDistance > 0 in histories (seeded change C06-8, DESIGN 9.20): rectangles only; route_ok against the ROUTING polygons (rectangles grown by the buffer
# distance) after every processTransaction.  "bufzone" = a rectangle added / moved / grown so that only its buffer zone lies across a connector's current route;
# the other families are the existing generators scaled by S and shrunk by buf (avoid_lib.buffered_ops).  (family, name, mode, pen, nudge, trans, buf, S)
BUF_HIST_CONFIGS = [('bufzone', 'bufzone-poly-pen0-buf10-trans', 0, 0, 0, 1, 10, 11), ('bufzone', 'bufzone-poly-pen10-buf4-notrans', 0, 10, 0, 0, 4, 5),
                    ('bufzone', 'bufzone-orth-nonudge-buf4-trans', 1, 10, 0, 1, 4, 5),
                    ('noop', 'noop-poly-pen0-buf4-trans', 0, 0, 0, 1, 4, 5), ('addmove', 'addmove-poly-pen0-buf10-trans', 0, 0, 0, 1, 10, 11),
                    ('only', 'only-orth-nonudge-buf4-trans', 1, 10, 0, 1, 4, 5), ('only', 'only-poly-pen0-buf10-notrans', 0, 0, 0, 0, 10, 11)]
# dual-mode routers (harness mode 2 = PolyLineRouting | OrthogonalRouting) with routing-type switches on existing connectors (op Y = ConnRef::setRoutingType; seeded change C03-8,
# DESIGN 9.20): family "typeswitch" (avoid_lib.gen_typeswitch_history; rectangles, endpoints outside every box), route_ok after every processTransaction, and an orthogonal
# connector's route must be axis-parallel.  (name, pen, nudge, trans)
TYPESWITCH_CONFIGS = [('typeswitch-dual-pen10-trans', 10, 0, 1), ('typeswitch-dual-pen10-notrans', 10, 0, 0), ('typeswitch-dual-pen10-nudge4-trans', 10, 4, 1)]
ZBEND_CONFIGS = [('zbend-orth-nudge4', 1, 10, 0, 4), ('zbend-orth-pen50-nudge8', 1, 50, 0, 8)]
FP_DISPLACED = 'hyperedge_free_terminal_displaced'
FH_ASSERT = 'orthogonalDirectionsCount(thisDirs) > 0'       # C11 known finding assert:makepath.cpp:orthogonalDirectionsCount (DESIGN 6 F-h)


def hist_script(h, upto=None):
    ops = h['ops'] if upto is None else h['ops'][:upto]
    return ['R %d %s %s %s %d' % (h['mode'], repr(float(h['pen'])), repr(float(h.get('buf', 0))), repr(float(h['nudge'])), h['trans'])] + [A.hist_op_str(o) for o in ops] + ['X']


def check_histories(res, exe, drv, hists, stats, samples):
    """contains family: every history runs on ONE router; after every processTransaction every displayRoute must pass route_ok
    on the scene of that moment (shapes that contain an endpoint NOW are exempt, shapes that used to are not)."""
    lines = []
    for h in hists:
        lines += hist_script(h)
    runs, rc, err = A.run_harness(exe, lines)
    if rc != 0 or len(runs) != len(hists):
        for h in hists:
            r1, rc1, err1 = A.run_harness(exe, hist_script(h))
            if rc1 != 0 or len(r1) != 1:
                res.violation({'what': 'harness crashed on a history of the contains family', 'rc': rc1, 'stderr': err1[-1500:], 'script': hist_script(h),
                               'replay': 'feed "script" lines to build/bin/c03_route-exc-*'})
                return
        res.violation({'what': 'harness batch failed but every single history ran', 'rc': rc, 'stderr': err[-1500:]}, no_input=True)
        return
    queries, meta = [], []
    for h, run in zip(hists, runs):
        ppos = [i for i, o in enumerate(h['ops']) if o[0] == 'P']
        if run['exc'] is not None or len(run['dumps']) != len(ppos):
            res.violation({'what': 'assertion / exception inside libavoid on a legal history (contains family)', 'exception': run['exc'],
                           'script': hist_script(h), 'config': h['cfg'], 'replay': 'feed "script" lines to build/bin/c03_route-exc-*'})
            stats['exceptions'] += 1
            continue
        shapes, conns = {}, {}
        was_inside = {}          # (connector, end) -> ids of shapes that strictly contained that end at an earlier dump (end unmoved since)
        k = 0
        stats['contains_histories'] += 1
        for i, o in enumerate(h['ops']):
            if o[0] != 'P':
                shapes, conns = A.hist_apply(shapes, conns, o)
                if o[0] == 'E':
                    was_inside.pop((o[1], o[2]), None)
                continue
            d = run['dumps'][k]
            k += 1
            ids = sorted(shapes)
            # shapeBufferDistance > 0 (rectangles only, DESIGN 9.20): the obstacles are the routing polygons = the rectangles grown by the buffer distance
            oshapes = A.inflate_shapes(shapes, h.get('buf', 0))
            polys = [oshapes[j] for j in ids]
            if h.get('buf', 0) and {j: [tuple(q) for q in P] for j, P in d['bshapes'].items()} != {j: [tuple(map(float, q)) for q in oshapes[j]] for j in ids}:
                res.violation({'what': 'routingPolygon() of a rectangle is not the rectangle grown by shapeBufferDistance', 'router': d['bshapes'], 'expected': oshapes,
                               'script': hist_script(h, i + 1), 'config': h['cfg']})
                break
            rpolys = {j: [(int(x), int(y)) for x, y in P] for j, P in d['shapes'].items()}
            if rpolys != {j: [tuple(q) for q in shapes[j]] for j in ids}:
                res.violation({'what': 'the router\'s shapes differ from the scene the history describes (contains family; see C06)',
                               'router': rpolys, 'expected': shapes, 'script': hist_script(h, i + 1), 'config': h['cfg']})
                break
            for c in sorted(conns):
                st = conns[c]
                left = False
                for e in (0, 1):
                    now = set(j for j in ids if A.inside_strict(oshapes[j], st[e]))
                    if was_inside.get((c, e), set()) - now:
                        left = True
                    was_inside.setdefault((c, e), set()).update(now)
                route = d['disp'].get(c, [])
                queries.append(A.q_chk(polys, st[0], st[1], route))
                meta.append((h, i, d, c, st[0], st[1], polys, route, left, bool(any(A.inside_strict(P, st[0]) or A.inside_strict(P, st[1]) for P in polys))))
    ans = A.run_driver(drv, queries)
    for a, (h, i, d, c, s, t, polys, route, left, inside_now) in zip(ans, meta):
        stats['routes'] += 1
        stats['contains_routes' if h.get('family', 'contains') == 'contains' else 'directed_routes'] += 1
        stats['by_config'][h['cfg']] = stats['by_config'].get(h['cfg'], 0) + 1
        if inside_now:
            stats['contains_endpoint_inside_now'] += 1
        if left:
            stats['contains_shape_left_endpoint'] += 1
            if len(route) > 2:
                stats['contains_shape_left_endpoint_bent'] += 1
        if len(route) > 2:
            stats['nontrivial'].add(hashlib.sha256(repr((h['cfg'], polys, s, t)).encode()).hexdigest())
        if left and len(route) > 2 and not any(x.get('family') == 'contains' for x in samples):
            samples.append({'family': 'contains', 'config': h['cfg'], 'history': [A.hist_op_str(o) for o in h['ops'][:i + 1]], 'shapes_now': polys,
                            'src': s, 'dst': t, 'displayRoute': route, 'route_ok': a})
        off = A.parse_chk(a)
        if not off and h['mode'] == 2 and d.get('ctype', {}).get(c) == 2 and not A.is_orthogonal(route):
            stats['violations'] += 1
            res.violation({'what': 'an orthogonal connector of a dual-mode router is displayed with a diagonal segment', 'family': h.get('family'), 'config': h['cfg'],
                           'history': [A.hist_op_str(o) for o in h['ops'][:i + 1]], 'shapes': polys, 'connector': c, 'src': s, 'dst': t, 'displayRoute': route,
                           'script': hist_script(h, i + 1), 'replay': './check C03 --replay <this file>'})
            continue
        if not off:
            continue
        obj = {'what': 'displayRoute fails the verified checker route_ok on the CURRENT scene after this history (a shape is exempt only while it '
                       'contains an endpoint now)', 'family': h.get('family', 'contains'), 'config': h['cfg'], 'mode': h['mode'], 'segmentPenalty': h['pen'],
               'idealNudgingDistance': h['nudge'], 'shapeBufferDistance': h.get('buf', 0), 'transactions': h['trans'], 'history': [A.hist_op_str(o) for o in h['ops'][:i + 1]],
               'shapes': polys, 'connector': c, 'src': s, 'dst': t, 'displayRoute': route, 'raw_route': d['route'].get(c),
               'a_shape_that_contained_an_endpoint_earlier_no_longer_does': left,
               'offenders_(segment,shape,degenerate_chord)': off, 'script': hist_script(h, i + 1),
               'replay': './check C03 --replay <this file>  (runs "script" on harness/c03_route.cpp and re-checks the last dump)'}
        if h.get('family', 'contains') != 'contains' and stats['violations'] >= 8:
            stats['violations'] += 1          # directed families: report the first few, count the rest
            continue
        if off == [(-1, -1, 0)]:
            obj['what'] = 'displayRoute has fewer than two points or does not start/end at the attachment points (history family %s)' % h.get('family', 'contains')
            res.violation(obj)
            stats['violations'] += 1
            continue
        if A.parse_route_answer(A.run_driver(drv, [A.q_plain(polys, s, t)])[0]) is None:
            stats['no_free_path'] += 1
            if h.get('family') == 'pocket':
                stats['pocket_closed_steps'] = stats.get('pocket_closed_steps', 0) + 1
            continue
        if h.get('family') == 'pocket':
            stats['pocket_open_failures'] = stats.get('pocket_open_failures', 0) + 1
        raw = d['route'].get(c, [])
        roff = A.parse_chk(A.run_driver(drv, [A.q_chk(polys, s, t, raw)])[0]) if len(raw) >= 2 else [(-1, -1, 0)]
        obj['raw_route_offenders_(segment,shape,degenerate_chord)'] = roff
        fp = A.classify_border_chords(drv, polys, sorted(d['shapes'].keys()), raw, roff, h['ops'][:i + 1], h['trans']) if len(raw) >= 2 else None
        if fp:
            stats['known_' + fp] = stats.get('known_' + fp, 0) + 1
            obj['classifier'] = fp
            if not res.violation(obj, fingerprint=fp):
                continue
        else:
            res.violation(obj)
        stats['violations'] += 1


def hyper_judge(sc, d):
    """-> (problems, queries): route-end problems [(cid, what)] and one CLR query per connector [(cid, route, query)]"""
    probs, qs = [], []
    juncs = d.get('juncs', {})
    for cid, ends in sorted(d.get('hends', {}).items()):
        route = d['disp'].get(cid, [])
        if len(route) < 2:
            probs.append((cid, 'route with fewer than two points', None))
            continue

        def acc(e):
            if e[0] == 'J':
                j = juncs.get(e[1])
                return [] if j is None else [j['pos'], j['rec']]
            return [(e[1], e[2])]
        a0, a1 = acc(ends[0]), acc(ends[1])
        fwd = route[0] in a0 and route[-1] in a1
        bwd = route[0] in a1 and route[-1] in a0
        if not fwd and not bwd:
            # diagnosis label hyperedge_free_terminal_displaced (defect fixed in /repo 4cfc785): improvement on; one end attached to a free point; the route's junction extremity is
            # at position() / recommendedPosition(); its other extremity is not the terminal but shares x or y with it
            disp = None
            if sc['opt'] > 0:
                for (ej, et, aj, at) in ((ends[0], ends[1], a0, a1), (ends[1], ends[0], a1, a0)):
                    if ej[0] == 'J' and et[0] == 'P':
                        for q, r in ((route[0], route[-1]), (route[-1], route[0])):
                            if q in aj and r != at[0] and (r[0] == at[0][0] or r[1] == at[0][1]):
                                disp = {'terminal': at[0], 'route_extremity': r}
            probs.append((cid, 'displaced' if disp else 'route does not run between its two attachments (junction: position() or recommendedPosition())', disp))
        elif not fwd:
            probs.append((cid, 'reversed', None))
        qs.append((cid, route, A.q_clr(sc['shapes'], route)))
    return probs, qs


def check_hyper(res, exe, drv, scenes, stats, samples):
    lines = []
    for sc in scenes:
        lines += A.hyper_script(sc)
    runs, rc, err = A.run_harness(exe, lines)
    if rc != 0 or len(runs) != len(scenes):
        for sc in scenes:
            r1, rc1, err1 = A.run_harness(exe, A.hyper_script(sc))
            if rc1 != 0 or len(r1) != 1:
                res.violation({'what': 'harness crashed on a hyperedge scene', 'family': 'hyper', 'rc': rc1, 'stderr': err1[-1500:], 'scene': sc,
                               'script': A.hyper_script(sc), 'replay': 'feed "script" lines to build/bin/c03_route-exc-*'})
                return
        res.violation({'what': 'harness batch failed but every single hyperedge scene ran', 'rc': rc, 'stderr': err[-1500:]}, no_input=True)
        return
    queries, meta = [], []
    displaced = {}
    for sc, run in zip(scenes, runs):
        cfg = 'hyper-%s-opt%d-%s' % (sc['kind'], sc['opt'], 'nudge' if sc['nudge'] else 'nonudge')
        if run['exc'] is not None or len(run['dumps']) != 1:
            if run['exc'] and FH_ASSERT in run['exc'] and 'makepath.cpp' in run['exc']:
                stats['hyper_c11_fh_assertion_skipped'] += 1          # known finding of C11 (F-h), not re-reported here
                continue
            res.violation({'what': 'assertion / exception inside libavoid while routing a hyperedge scene', 'family': 'hyper', 'exception': run['exc'],
                           'scene': sc, 'script': A.hyper_script(sc), 'replay': 'feed "script" lines to build/bin/c03_route-exc-*'})
            stats['exceptions'] += 1
            continue
        d = run['dumps'][0]
        stats['hyper_scenes'] += 1
        stats['hyper_by_kind'][cfg] = stats['hyper_by_kind'].get(cfg, 0) + 1
        if any(j['pos'] != j['rec'] for j in d.get('juncs', {}).values()):
            stats['hyper_junction_moved'] += 1
        if len(d.get('juncs', {})) != 1 or len(d.get('hends', {})) != len(sc['terms']):
            stats['hyper_topology_changed'] += 1
        probs, qs = hyper_judge(sc, d)
        for cid, what, disp in probs:
            if what == 'reversed':
                stats['hyper_reversed_routes'] += 1          # C11 known finding hyperedge_route_reversed: orientation not required here
                continue
            obj = {'what': 'hyperedge connector: ' + what, 'family': 'hyper', 'connector': cid, 'ends': d['hends'].get(cid),
                   'displayRoute': d['disp'].get(cid), 'junctions': d.get('juncs'), 'scene': sc, 'shapes': sc['shapes'],
                   'script': A.hyper_script(sc), 'replay': './check C03 --replay <this file>'}
            if what == 'displaced':
                obj['what'] = ('hyperedge improvement displaced the free-point terminal of a connector: displayRoute() starts at the junction '
                               '(recommendedPosition) but its other extremity is not the terminal it is attached to')
                obj.update(disp)
                displaced[(id(sc), cid)] = obj                # classified below, once segs_clear of this route is known
                continue
            stats['hyper_end_problems'] += 1
            res.violation(obj)
            stats['violations'] += 1
        for cid, route, q in qs:
            queries.append(q)
            meta.append((sc, d, cid, route, cfg))
    ans = A.run_driver(drv, queries)
    for a, (sc, d, cid, route, cfg) in zip(ans, meta):
        stats['routes'] += 1
        stats['hyper_routes'] += 1
        stats['by_config'][cfg] = stats['by_config'].get(cfg, 0) + 1
        if len(route) > 2:
            stats['nontrivial'].add(hashlib.sha256(repr((cfg, sc['shapes'], sc['junction'], sc['terms'], cid)).encode()).hexdigest())
        if len(route) > 2 and sc['opt'] > 0 and not any(x.get('family') == 'hyper' for x in samples):
            samples.append({'family': 'hyper', 'scene': sc, 'connector': cid, 'ends': d['hends'].get(cid), 'junctions': d.get('juncs'),
                            'displayRoute': route, 'segs_clear': a})
        off = A.parse_chk(a)
        dobj = displaced.pop((id(sc), cid), None)
        if dobj is not None:
            # defect repaired in /repo (4cfc785); the label is kept as a diagnosis only - a displaced free terminal is a plain VIOLATION
            stats['hyper_terminal_displaced'] += 1
            dobj['segs_clear_over_all_shapes'] = a
            dobj['diagnosis'] = FP_DISPLACED
            if off:
                dobj['what'] += ' - and the displayed route also passes through a shape interior'
            stats['violations'] += 1
            if stats['hyper_terminal_displaced'] <= 3:
                res.violation(dobj)
        if off:
            stats['violations'] += 1
            stats['hyper_crossings'] = stats.get('hyper_crossings', 0) + 1
            if stats['hyper_crossings'] > 4:
                continue                                      # four reproducers per run are enough
            res.violation({'what': 'a hyperedge connector\'s displayRoute passes through the interior of a shape (verified segs_clear over all shapes; '
                                   'every attachment of the scene is in free space)', 'family': 'hyper', 'config': cfg,
                           'improvement_option': ['none', 'improveHyperedgeRoutesMovingJunctions', 'improveHyperedgeRoutesMovingAddingAndDeletingJunctions'][sc['opt']],
                           'segmentPenalty': sc['pen'], 'shapeBufferDistance': sc['buf'], 'idealNudgingDistance': sc['nudge'],
                           'shapes': sc['shapes'], 'junction': sc['junction'], 'junction_fixed': sc['fixed'], 'terminals': sc['terms'],
                           'connector': cid, 'ends': d['hends'].get(cid), 'junctions_after': d.get('juncs'), 'displayRoute': route,
                           'offenders_(segment,shape,degenerate_chord)': off, 'scene': sc, 'script': A.hyper_script(sc),
                           'replay': './check C03 --replay <this file>  (runs "script" on harness/c03_route.cpp and re-checks every connector)'})


def check_blocking(res, drv, rng, stats, tier):
    """correspondence for the per-shape blocking loops: the REAL EdgeInf::firstBlocker and Router::newBlockingShape (harness/c03_block.cpp) on
    one segment and one convex polygon against the extracted spec_shapeBlocks (= blocked_by_shape = the cpp2v translation of newBlockingShape's
    loop, C03_blocked_by_shape_eq_spec); generator aimed at the end-point-touch cases + an exhaustive sweep of three small polygons."""
    bexe = A.block_harness()
    qs = A.small_block_sweep() + A.gen_block_queries(rng, 1500 if tier == 'quick' else 12000)
    impl = A.run_block_harness(bexe, qs)
    mq, midx = [], []
    for t in qs:
        midx.append(len(mq))
        mq.append('BLK %s %s %s' % (A.tok_poly(t[0]), A.tok_pt(t[1]), A.tok_pt(t[2])))
        if len(t) == 5:
            mq.append('BLK %s %s %s' % (A.tok_poly(t[4]), A.tok_pt(t[1]), A.tok_pt(t[2])))
    mans = [a.split() for a in A.run_driver_parallel(drv, mq)]
    hist, bad = {}, 0
    for t, im, k in zip(qs, impl, midx):
        P, p, q, tag = t[:4]
        mo = mans[k]
        first_blocks = int(mans[k + 1][0]) if len(t) == 5 else 0
        want = (1 if (int(mo[0]) or first_blocks) else 0, int(mo[0]))          # firstBlocker: any shape blocks; newBlockingShape: the polygon under test
        key = '%s touches=%s crossed=%s' % (tag.split(':')[0] + ('+first' if len(t) == 5 and '+first' not in tag.split(':')[0] else ''), mo[1] if int(mo[1]) < 3 else '3+', mo[2])
        hist[key] = hist.get(key, 0) + 1
        if im[0] == 'EXC' or im != want:
            bad += 1
            if bad <= 3:
                res.violation({'what': 'the per-shape blocking loop of the implementation disagrees with the verified model blocked_by_shape on this segment and polygon '
                                       '(a visibility edge that the model blocks is kept, or vice versa)', 'polygon': P, 'e1': p, 'e2': q, 'generator_case': tag,
                               'first_shape_(walked_before_the_polygon_by_firstBlocker)': t[4] if len(t) == 5 else None, 'first_shape_blocks_(model)': first_blocks,
                               'impl_(firstBlocker_blocked,newBlockingShape_blocked)': im, 'model_(firstBlocker,newBlockingShape)': want, 'model_blocked': int(mo[0]), 'end_point_touches': int(mo[1]),
                               'some_edge_properly_crossed': int(mo[2]), 'segment_passes_through_interior': int(mo[3]), 'degenerate_chord': int(mo[4]),
                               'replay': 'echo "%s" | build/bin/c03_block-exc-*   (prints "B <firstBlocker> <newBlockingShape>")' %
                                         (('B %s %r %r %r %r' % (A.fmt_poly(P), p[0], p[1], q[0], q[1])) if len(t) == 4 else
                                          ('D %s %s %r %r %r %r' % (A.fmt_poly(t[4]), A.fmt_poly(P), p[0], p[1], q[0], q[1])))})
                stats['violations'] += 1
    stats['blocking'] = {'queries': len(qs), 'exhaustive_sweep_queries': len(A.small_block_sweep()), 'disagreements': bad, 'case_histogram': hist}


def make_case(stream, cfgname, polys, conns, mode, pen, buf, nudge):
    return {'stream': stream, 'cfg': cfgname, 'polys': polys, 'conns': conns, 'mode': mode, 'pen': pen, 'buf': buf, 'nudge': nudge,
            'script': A.scene_script(polys, conns, mode, pen, buf, nudge, 1)}


def corpus_cases():
    out = []
    for f in sorted(os.listdir(os.path.join(C.VERIF, 'corpus'))):
        if f.startswith('c03_') and f.endswith('.json'):
            j = json.load(open(os.path.join(C.VERIF, 'corpus', f)))
            out.append((f, j))
    return out


def run_corpus(res, exe, drv, stats):
    """corpus entries: {'script': [...], 'shapes': [...], 'conns': [[s,d]...]} - the LAST dump of the run is checked"""
    for name, j in corpus_cases():
        if j.get('family') == 'hyper':
            sc = dict(j['scene'])
            sc['shapes'] = [[tuple(q) for q in P] for P in sc['shapes']]
            sc['junction'] = tuple(sc['junction']); sc['terms'] = [tuple(t) for t in sc['terms']]
            check_hyper(res, exe, drv, [sc], stats, [])
            stats['corpus'] += 1
            continue
        runs, rc, err = A.run_harness(exe, j['script'])
        if rc != 0 or not runs or runs[0]['exc'] or not runs[0]['dumps']:
            res.violation({'what': 'corpus case does not run', 'corpus': name, 'rc': rc, 'exception': runs[0]['exc'] if runs else None,
                           'script': j['script']})
            continue
        d = runs[0]['dumps'][-1]
        polys = [tuple(map(tuple, P)) for P in j['shapes']]
        for i, (s, t) in enumerate(j['conns']):
            route = d['disp'][100 + i]
            a = A.run_driver(drv, [A.q_chk(polys, tuple(s), tuple(t), route)])[0]
            stats['corpus'] += 1
            off = A.parse_chk(a)
            if off:
                obj = {'what': 'corpus case: displayRoute fails route_ok', 'corpus': name, 'shapes': j['shapes'], 'src': s, 'dst': t,
                       'displayRoute': route, 'offenders_(segment,shape,degenerate_chord)': off, 'script': j['script']}
                raw = d['route'].get(100 + i, [])
                roff = A.parse_chk(A.run_driver(drv, [A.q_chk(polys, tuple(s), tuple(t), raw)])[0]) if len(raw) >= 2 else [(-1, -1, 0)]
                trans = int(j['script'][0].split()[5]) if j['script'] and j['script'][0].startswith('R ') else 1
                fp = A.classify_border_chords(drv, polys, sorted(d['shapes'].keys()), raw, roff, A.parse_hist_ops(j['script']), trans)
                if fp:
                    stats['known_' + fp] = stats.get('known_' + fp, 0) + 1
                    obj['classifier'] = fp
                    if not res.violation(obj, fingerprint=fp):
                        continue
                else:
                    res.violation(obj)
                stats['violations'] += 1


def run(tier):
    res = C.Result(PID, tier, 'proof')
    info = C.prove(res, PID, gen_modules=['Geometry', 'BlockingLoop'])
    res.assumptions = [
        'route_ok is run on the un-buffered polygons and on the exact rational value of every printed binary64 coordinate',
        'orthogonal mode treats a shape as its bounding box (Obstacle::routingBox), so in orthogonal configurations the generated '
        'endpoints lie outside every shape\'s bounding box (an endpoint inside the box of a triangle is inside the obstacle for that mode)',
        'the blocking-test theorems are about Gen/Geometry.v (cpp2v, regenerated this run); Lee\'s rotational sweep and the '
        'orthogonal sweep are not modelled - their effect is only observed through route validity (V), which is validation, not proof',
        'contains family: endpoints may lie strictly inside a shape (integer points; orthogonal mode: rectangles only); a shape is exempt for a '
        'connector only while it strictly contains one of its endpoints in the scene of that moment (route_ok is evaluated on the current polygons '
        'after every processTransaction); no buffer distance in this family',
        'buffered history families (buf4 / buf10): rectangles only; the obstacles are the routing polygons = the rectangles grown by shapeBufferDistance (harness line B compared exactly); the grown boxes stay '
        'separated by >= 1 and endpoints stay outside them after every edit; typeswitch family: dual-mode router, rectangles, endpoints outside every box, segmentPenalty 10; sharedpin family: orthogonal, one '
        'proportional pin (fraction 1/4, 3/4, k/8 along a side, inside offset 5 / 10, outward direction or ConnDirAll, setExclusive(false) or ConnDirAll default), sources not in line with the pin and outside every '
        'box grown by 5; the attachment point demanded by route_ok is the pin position computed from the rectangle and the offsets',
        'hyperedge family: junction and terminals are generated in free space (>= 6 + buffer outside every rectangle), so the exemption-free segs_clear '
        'over all shapes is the oracle; a junction end may be at position() or recommendedPosition(); a route written dst -> src is accepted (C11 known '
        'finding hyperedge_route_reversed); scenes that die on the C11 known assertion makepath.cpp orthogonalDirectionsCount (F-h) are skipped and '
        'counted; fixed junctions only with idealNudgingDistance > 0']
    exe = A.harness()
    drv = A.driver()
    rng = C.SplitMix64(C.get_seed() ^ 0xC03)
    n_gen, n_deg = (40, 120) if tier == 'quick' else (220, 700)
    stats = {'routes': 0, 'by_config': {}, 'nontrivial': set(), 'bends_hist': {}, 'violations': 0, 'known_degenerate_chord': 0,
             'no_free_path': 0, 'exceptions': 0, 'corpus': 0, 'contains_histories': 0, 'contains_routes': 0, 'contains_endpoint_inside_now': 0,
             'contains_shape_left_endpoint': 0, 'contains_shape_left_endpoint_bent': 0, 'contains_variants': {}, 'directed_variants': {}, 'directed_routes': 0,
             'hyper_scenes': 0, 'hyper_routes': 0, 'hyper_by_kind': {}, 'hyper_junction_moved': 0, 'hyper_topology_changed': 0,
             'hyper_reversed_routes': 0, 'hyper_end_problems': 0, 'hyper_terminal_displaced': 0, 'hyper_c11_fh_assertion_skipped': 0}
    samples = []
    run_corpus(res, exe, drv, stats)
    cases = []
    for (name, mode, pen, buf, nudge, ro) in CONFIGS:
        for _ in range(n_gen):
            polys, conns = A.gen_scene(rng, nmax=8, R=40, gap=1, buf=buf, rect_only=ro, use_bbox=(mode == 1))
            if conns:
                cases.append(make_case('generic', name, polys, conns, mode, pen, buf, nudge))
    for (name, mode, pen, buf, nudge) in DEG_CONFIGS:
        for _ in range(n_deg):
            polys, conns = A.gen_degenerate_scene(rng, use_bbox=(mode == 1))
            if polys and conns:
                cases.append(make_case('degenerate', name, polys, conns, mode, pen, buf, nudge))
    rz = C.SplitMix64(C.get_seed() ^ 0xC0356)           # own streams: the older families keep their inputs
    for (name, mode, pen, buf, nudge) in ZBEND_CONFIGS:
        k = 0
        while k < (90 if tier == 'quick' else 600):
            sc = A.gen_zbend_scene(rz)
            if sc is None:
                continue
            k += 1
            cases.append(make_case('zbend', name, sc[0], sc[1], mode, pen, buf, nudge))
    # shared non-exclusive pin scenes (seeded change C03-7, DESIGN 9.20): own stream
    rp = C.SplitMix64(C.get_seed() ^ 0xC0307)
    k = 0
    while k < (80 if tier == 'quick' else 600):
        g = A.gen_sharedpin_scene(rp)
        if g is None:
            continue
        k += 1
        cases.append({'stream': 'sharedpin', 'cfg': 'sharedpin-orth', 'polys': g[0], 'conns': g[1], 'mode': 1, 'pen': g[3], 'buf': 0, 'nudge': g[4], 'script': g[2]})
    B = 400
    for i in range(0, len(cases), B):
        check_cases(res, exe, drv, cases[i:i + B], stats, samples)
    check_blocking(res, drv, C.SplitMix64(C.get_seed() ^ 0xB10C), stats, tier)
    # contains family (histories) and hyperedge family
    n_cont, n_hyp = (30, 600) if tier == 'quick' else (200, 4000)
    hists = []
    for (name, mode, pen, nudge, trans) in CONTAINS_CONFIGS:
        k = 0
        while k < n_cont:
            ops, tags = A.gen_contains_history(rng, rect_only=(mode == 1))
            if ops is None:
                continue
            k += 1
            for t in tags:
                stats['contains_variants'][t] = stats['contains_variants'].get(t, 0) + 1
            hists.append({'cfg': name, 'mode': mode, 'pen': pen, 'nudge': nudge, 'trans': trans, 'ops': ops})
    n_dir = 25 if tier == 'quick' else 200
    rd = C.SplitMix64(C.get_seed() ^ 0xC0355)
    for (fam, name, mode, pen, nudge, trans) in DIRECTED_CONFIGS:
        k = 0
        while k < n_dir:
            ops, tags = DIRECTED_GEN[fam](rd if fam in ('wedged', 'pocket') else rng, rect_only=(mode == 1))
            if ops is None:
                continue
            k += 1
            for t in tags:
                stats['directed_variants'][fam + ':' + t] = stats['directed_variants'].get(fam + ':' + t, 0) + 1
            hists.append({'cfg': name, 'mode': mode, 'pen': pen, 'nudge': nudge, 'trans': trans, 'ops': ops, 'family': fam})
    rb = C.SplitMix64(C.get_seed() ^ 0xC0308)
    for (fam, name, mode, pen, nudge, trans, buf, S) in BUF_HIST_CONFIGS:
        k = tries = 0
        while k < (12 if tier == 'quick' else 100) and tries < 4000:
            tries += 1
            if fam == 'bufzone':
                ops, tags = A.gen_bufzone_history(rb, buf)
            else:
                ops, tags = DIRECTED_GEN[fam](rb, rect_only=True)
                ops = A.buffered_ops(ops, S, buf) if ops else None
            if ops is None or not A.buffered_history_valid(ops, buf):
                continue
            k += 1
            for t in tags:
                stats['directed_variants']['buf:' + fam + ':' + t] = stats['directed_variants'].get('buf:' + fam + ':' + t, 0) + 1
            hists.append({'cfg': name, 'mode': mode, 'pen': pen, 'nudge': nudge, 'trans': trans, 'ops': ops, 'family': fam, 'buf': buf})
    for (name, pen, nudge, trans) in TYPESWITCH_CONFIGS:
        k = 0
        while k < (25 if tier == 'quick' else 200):
            ops, tags = A.gen_typeswitch_history(rb)
            if ops is None:
                continue
            k += 1
            for t in tags:
                t = 'typeswitch:' + (t if t.startswith(('alone', 'end_', 'switch_')) else t.split(':')[0])
                stats['directed_variants'][t] = stats['directed_variants'].get(t, 0) + 1
            hists.append({'cfg': name, 'mode': 2, 'pen': pen, 'nudge': nudge, 'trans': trans, 'ops': ops, 'family': 'typeswitch'})
    for i in range(0, len(hists), 200):
        check_histories(res, exe, drv, hists[i:i + 200], stats, samples)
    hscenes = []
    while len(hscenes) < n_hyp:
        sc = A.gen_hyper_scene(rng)
        if sc is not None:
            hscenes.append(sc)
    for i in range(0, len(hscenes), 400):
        check_hyper(res, exe, drv, hscenes[i:i + 400], stats, samples)
    res.cov.update({
        'evaluations': stats['routes'] + stats['corpus'],
        'distinct_nontrivial': len(stats['nontrivial']),
        'rule': 'one evaluation = one connector routed by Avoid::Router in a generated scene and its displayRoute() checked by the '
                'extracted route_ok; generic stream: 1-8 convex integer polygons with boxes separated by >= 1 + 2*buffer, endpoints in '
                'free space; degenerate stream: touching shapes, shared corners, endpoints collinear with shape sides / through shape '
                'vertices; non-trivial = distinct (config, scene, connector) whose displayed route has at least one bend',
        'samples': samples,
        'traces_validated_against_impl': stats['routes'] + stats['corpus'],
        'routes_by_config': stats['by_config'], 'bends_histogram': {str(k): v for k, v in sorted(stats['bends_hist'].items())},
        'no_free_path_cases_skipped': stats['no_free_path'], 'endpoint_in_mitred_buffer_zone_skipped': stats.get('endpoint_in_buffer_zone', 0), 'libavoid_exceptions': stats['exceptions'],
        'known_degenerate_chord_cases': stats['known_degenerate_chord'], 'known_sweep_border_chord_cases': stats.get('known_sweep_border_chord', 0), 'checker_failures_reported': stats['violations'],
        'corpus_cases': stats['corpus'], 'exhaustive': False,
        'contains_family': {'what': 'multi-transaction histories: an endpoint strictly inside a shape, the shape moved / resized / deleted away (variants: moved '
                                    'back over it, another shape moved or added onto it), then a change that recomputes the endpoint\'s visibility; route_ok on the '
                                    'current scene after every processTransaction; no buffer distance in this family',
                            'histories': stats['contains_histories'], 'routes_checked': stats['contains_routes'],
                            'routes_with_an_endpoint_inside_a_shape_now': stats['contains_endpoint_inside_now'],
                            'routes_after_a_containing_shape_left_the_endpoint': stats['contains_shape_left_endpoint'],
                            'of_those_with_a_bent_route': stats['contains_shape_left_endpoint_bent'], 'variant_histogram': stats['contains_variants']},
        'directed_history_families': {'what': 'noop = moves that leave a polygon unchanged (zero / self-cancelling / same polygon / there and back) after connectors detour '
                                              'round the shape; addmove = add + moves + relative move of one shape in one transaction; only = transactions of only '
                                              'deletions / additions / endpoint changes; route_ok on the current scene after every processTransaction',
                                      'routes_checked': stats['directed_routes'], 'variant_histogram': stats['directed_variants']},
        'blocking_loop_correspondence': dict(stats.get('blocking', {}), what='real EdgeInf::firstBlocker and Router::newBlockingShape on (segment, polygon) vs the extracted '
                                             'spec_shapeBlocks; 0 / 1 / 2 end-point touches on different edges, vertex touches, collinear overlaps, chords through vertices; '
                                             'plus every ordered pair of a 7x7 lattice round a square, a triangle and an octagon'),
        'third_round_families': {'wedged/pocket variant histogram': {k: v for k, v in stats['directed_variants'].items() if k.startswith(('wedged', 'pocket'))},
                                 'pocket_steps_without_any_route_(skipped)': stats.get('pocket_closed_steps', 0),
                                 'zbend_routes_checked': sum(v for k, v in stats['by_config'].items() if k.startswith('zbend'))},
        'hyperedge_family': {'what': 'free (1 in 4 with nudging: fixed) JunctionRef with 3-5 orthogonal connectors to free terminal points, 1-4 rectangular obstacles; kinds: corridor '
                                     '(a branch squeezed between two obstacles next to its terminal\'s column while the other branches pull the trunk that way) and '
                                     'random; improvement option none / MovingJunctions / MovingAddingAndDeletingJunctions; nudging 0 / 4; buffer 0 / 4; 8 symmetries',
                             'scenes_routed': stats['hyper_scenes'], 'connector_routes_checked': stats['hyper_routes'], 'scenes_by_kind_option_nudging': stats['hyper_by_kind'],
                             'scenes_whose_junction_was_moved_by_improvement': stats['hyper_junction_moved'],
                             'scenes_whose_junction_or_connector_set_changed': stats['hyper_topology_changed'],
                             'reversed_routes_accepted_(C11_hyperedge_route_reversed)': stats['hyper_reversed_routes'],
                             'scenes_skipped_on_C11_F-h_assertion': stats['hyper_c11_fh_assertion_skipped'],
                             'connectors_with_displaced_free_terminal_(fixed_4cfc785)': stats['hyper_terminal_displaced'],
                             'route_end_problems_reported': stats['hyper_end_problems'],
                             'routes_through_a_shape_interior': stats.get('hyper_crossings', 0)}})
    res.cov['proof_status'] = {'ok': info['ok'], 'broken_files': info.get('broken'), 'broken_lemmas': info.get('broken_lemmas'), 'unsupported': info.get('unsupported')}
    if res.violations and not info['ok']:
        C.log('C03: proof obligations broken as well: %s %s' % (info.get('broken_lemmas'), info.get('unsupported')))
    if not res.violations and not info['ok']:
        res.violation({'what': 'a proof obligation of C03 no longer checks (or cpp2v left the fragment); the search - route_ok on every '
                               'real route of both streams and the corpus - found no route through an obstacle',
                       'broken_files': info.get('broken'), 'broken_lemmas': info.get('broken_lemmas'),
                       'unsupported': info.get('unsupported'), 'forbidden': info.get('forbidden'),
                       'coq_log_tail': info['log'][-3000:]}, no_input=True)
    return res.finish()


def replay(path):
    j = json.load(open(path))
    exe = A.harness(); drv = A.driver()
    runs, rc, err = A.run_harness(exe, j['script'])
    print('harness rc', rc, 'exception', runs[0]['exc'] if runs else None)
    if not runs or not runs[0]['dumps']:
        return 1
    d = runs[0]['dumps'][-1]
    polys = [tuple(map(tuple, P)) for P in j['shapes']]
    bad = 0
    if j.get('family') == 'hyper':
        sc = j['scene']
        sc['shapes'] = polys
        probs, qs = hyper_judge(sc, d)
        for cid, what, disp in probs:
            print('connector', cid, what, disp or '')
            bad += what != 'reversed'
        for cid, route, q in qs:
            a = A.run_driver(drv, [q])[0]
            print('connector', cid, 'ends', d['hends'].get(cid), 'displayRoute', route, '->', a)
            bad += a != 'ok'
        print('junctions', d.get('juncs'))
        return 1 if bad else 0
    for cid, route in sorted(d['disp'].items()):
        s, t = d['ends'][cid]
        a = A.run_driver(drv, [A.q_chk(polys, s, t, route)])[0]
        print('connector', cid, 'displayRoute', route, '->', a)
        bad += a != 'ok'
    return 1 if bad else 0


def warm():
    A.harness()
    A.driver()


META = {
    'property_id': PID,
    'level_claimed': {
        'category': 'proof',
        'text': 'Coq theorems (Properties/C03.v), all inputs: (1) the exact segment-vs-convex-polygon decider (Cyrus-Beck over Q) is correct, hence '
                'the route checker route_ok decides "at least two points, starts/ends at the attachments, no point of any segment strictly inside '
                'a shape not containing an endpoint"; (2) the per-shape loop of EdgeInf::firstBlocker / Router::newBlockingShape, as a fold of the '
                'cpp2v-regenerated segmentShapeIntersect, equals "some edge properly crossed or two endpoint touches", is order independent, is '
                'complete on non-degenerate chords (blocked_complete: a segment through the interior that hits the relative interior of an edge is blocked; '
                'for strictly convex shapes the unblocked family is exactly "meets the boundary only at vertices / own endpoints, fewer than two endpoint touches") '
                'and is REFUTED on degenerate chords (square (0,0)-(10,10), segment (-5,-5)-(15,15); '
                'known finding F-b, replayed on the real router every run); (3) the reference router only returns chains of visible segments, '
                'so its routes pass route_ok. Tie: translator for the predicates + the extracted route_ok run on every real displayRoute of a '
                'generic and a degenerate scene stream, on multi-transaction histories in which an endpoint starts inside a shape that later leaves it '
                '(exemption evaluated on the current scene), and segs_clear (C03_segs_clear_exact: no segment through any shape, no exemption) on every connector of '
                'hyperedge scenes (free junction, 3-5 orthogonal connectors, both improvement options, with/without nudging); correspondence of the real '
                'EdgeInf::firstBlocker and Router::newBlockingShape with spec_shapeBlocks on (segment, polygon) inputs (touch cases + exhaustive 7x7 lattice sweep of three polygons); '
                'directed families wedged / pocket / zbend (DESIGN 9.10); fourth round (DESIGN 9.20): buffered rectangle histories judged against the routing polygons (bufzone, noop, addmove, only), '
                'dual-mode routers with routing-type switches (typeswitch), shared non-exclusive pin scenes (sharedpin) '
                '(V: validation and search, not proof of the implementation).',
        'design_ref': 'DESIGN.md 5.3'},
    'level_note': 'partial + finding. Trusted: Coq kernel; cpp2v.py + clang AST; exact-rational model of binary64; extraction (ExtrOcamlBasic) and the '
                  'OCaml/C++ drivers. Not modelled: Lee\'s rotational sweep (visibility.cpp), the orthogonal sweep and nudging - seen only through '
                  'route validity on generated scenes. The classifier degenerate_chord is proved equal to its declarative meaning (degenerate_chord_exact, '
                  'boundary_vertices_iff); the blocking test is proved sound for strictly convex shapes with distinct vertices and non-empty interior '
                  '(blocked_sound, blocked_exact); the reference search is proved never to answer SearchFail (route_plain_total). '
                  'Orthogonal mode treats shapes as bounding boxes, so endpoints are generated outside the boxes there (contains family: strictly inside rectangles). '
                  'Hyperedge improvement (hyperedgeimprover.cpp / hyperedgetree.cpp) is not modelled: seen only through segs_clear and the route-end oracle on generated '
                  'scenes; the defect they exposed (free-point terminal dragged along by the segment shifting, diagnosis label hyperedge_free_terminal_displaced) is repaired '
                  'in /repo (4cfc785) and kept as the regression scene corpus/c03_hyper_terminal.json. '
                  'Blocking loops: newBlockingShape\'s loop is tied by translation (cpp2v loop slice: for-loop + the declarations of its state in the same block; break -> broke flag; '
                  'the surrounding iteration over the visibility graph, the inPoly exemption for connector ends and the removal of the edge are NOT translated); '
                  'EdgeInf::firstBlocker walks VertInf pointers and is tied by correspondence only (harness/c03_block.cpp vs the extracted spec_shapeBlocks). '
                  'Known findings: degenerate_chord (F-b; classifier now also requires that the proved per-shape test does not block the chord, i.e. fewer than two end-point touches) and '
                  'sweep_border_chord (the rotational sweep accepts a chord whose two ends lie on the border of an already active third shape; classifier is path-sensitive: the edge was last '
                  'computed by the sweep after the shape became active, not tested by newBlockingShape / firstBlocker afterwards). The unifying nudging pre-step and the "no route -> retry" flag '
                  'are seen only through route validity on the zbend / pocket families. Fourth round: the buffer growth of rectangles (PolygonInterface::offsetPolygon), ConnRef::setRoutingType / updateEndPoint and '
                  'Obstacle::possiblePinPoints are not modelled in Coq: they are seen only through route_ok on the bufzone / typeswitch / sharedpin families (the grown rectangle is tied to routingPolygon() by exact comparison).',
    'technique': 'Coq proof over cpp2v-regenerated Gallina + verified route checker run on the implementation\'s routes',
}
