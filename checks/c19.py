"""C19 - libdialect: graph decompositions partition the graph (DESIGN 5.19).
proof: Dialect/Peel.v over the hand model Dialect/PeelModel.v (leaf-stripping rounds with the double-centre rule, the
workspace graph H with tree serial numbers, connected components by fuelled worklist exploration);
tie (C): dialect::peel output (core, trees as node/edge sets, roots) and Graph::getConnComps vs the extracted model, exactly,
on random connected graphs <= 60 nodes, trees (paths, stars, caterpillars, random), cycles with pendant trees, and
disconnected graphs (components only);
V: the verified checkers peel_okb / conncomps_okb (sound + complete for the declarative conditions, Peel.v) on the real
outputs; V-only (no model): Tree::symmetricLayout places no two nodes of a tree on the same position.
OrthoPlanariser::planarise is NOT covered."""
import os, tempfile, shutil
from vlib import common as C

PID = 'C19'
LIBS = ['libdialect', 'libcola', 'libtopology', 'libavoid', 'libvpsc']
FLAVOR = 'c19exc'


def relabel(rng, n, edges):
    perm = rng.shuffle(list(range(n)))
    return [(perm[a], perm[b]) for a, b in edges]


def rand_tree(rng, n, kind):
    es = []
    if kind == 'path':
        es = [(i, i + 1) for i in range(n - 1)]
    elif kind == 'star':
        es = [(0, i) for i in range(1, n)]
    elif kind == 'caterpillar':
        spine = max(1, n // 2)
        es = [(i, i + 1) for i in range(spine - 1)] + [(rng.below(spine), v) for v in range(spine, n)]
    elif kind == 'deep':
        es = [(max(0, v - 1 - rng.below(2)), v) for v in range(1, n)]
    else:
        es = [(rng.below(v), v) for v in range(1, n)]
    return es


def gen_graphs(rng, tier):
    """(kind, n, peel?, edges)"""
    out = []
    N = 600 if tier == 'quick' else 5000
    kinds = ['random', 'random', 'random', 'tree', 'path', 'star', 'caterpillar', 'deep', 'cycle', 'cyclepend', 'dense', 'disconnected']
    # fixed small ones first: K2, paths (even = double centre), triangle, triangle with tails
    for n in range(2, 9):
        out.append(('path', n, 1, [(i, i + 1) for i in range(n - 1)]))
    out.append(('cycle', 3, 1, [(0, 1), (1, 2), (2, 0)]))
    for _ in range(N):
        kind = rng.choice(kinds)
        n = rng.range(2, 60) if rng.chance(3, 4) else rng.range(2, 9)
        peel = 1
        if kind in ('tree', 'path', 'star', 'caterpillar', 'deep'):
            es = rand_tree(rng, n, kind)
        elif kind == 'cycle':
            n = max(n, 3)
            es = [(i, (i + 1) % n) for i in range(n)]
        elif kind == 'cyclepend':
            n = max(n, 4)
            c = rng.range(3, max(3, n // 2))
            es = [(i, (i + 1) % c) for i in range(c)] + [(rng.below(v), v) for v in range(c, n)]
        elif kind == 'dense':
            n = min(n, 14)
            es = [(rng.below(v), v) for v in range(1, n)]
            es += [(a, b) for a in range(n) for b in range(a + 1, n) if rng.chance(1, 3)]
        elif kind == 'disconnected':
            es = [(a, b) for a in range(n) for b in range(a + 1, n) if rng.chance(1, max(2, n))]
            peel = 0
        else:
            es = [(rng.below(v), v) for v in range(1, n)]
            for _ in range(rng.below(n // 2 + 1) if not rng.chance(1, 3) else 0):
                a, b = rng.below(n), rng.below(n)
                if a != b:
                    es.append((a, b))
        # simple graph: drop duplicates in either orientation
        seen, ses = set(), []
        for a, b in es:
            k = (min(a, b), max(a, b))
            if a != b and k not in seen:
                seen.add(k)
                ses.append((a, b) if rng.chance(1, 2) else (b, a))
        es = relabel(rng, n, ses)
        out.append((kind, n, peel, es))
    return out


def write_graphs(path, graphs):
    with open(path, 'w') as fh:
        for kind, n, peel, es in graphs:
            fh.write('G %d %d\n' % (n, peel))
            for a, b in es:
                fh.write('e %d %d\n' % (a, b))


def split_cases(txt):
    cases, cur = {}, None
    for line in txt.split('\n'):
        if line.startswith('## '):
            cur = []
            cases[int(line[3:])] = cur
        elif cur is not None and line:
            cur.append(line)
    return cases


def graph_txt(g):
    kind, n, peel, es = g
    return {'kind': kind, 'nodes': n, 'edges': ['%d-%d' % e for e in es],
            'harness_input': ['G %d %d' % (n, peel)] + ['e %d %d' % e for e in es]}


def run(tier):
    res = C.Result(PID, tier, 'proof')
    info = C.prove(res, PID)
    res.assumptions = ['the hand model PeelModel.v describes dialect::peel / Graph::getConnComps (compared exactly on every generated graph)',
                       'node ids handed out by Node::allocate increase (checked by the harness), so that id order = input order']
    rng = C.SplitMix64(C.get_seed())
    exe = C.build_harness('c19_peel', LIBS, FLAVOR)
    drv = C.ocaml_build('c19', 'C19.v', 'c19_driver.ml', 'c19_model.ml')
    tmp = tempfile.mkdtemp(prefix='c19-')
    graphs = gen_graphs(rng, tier)
    gf = os.path.join(tmp, 'graphs.txt')
    write_graphs(gf, graphs)
    rc, h_out, err, dt = C.sh([exe, gf], timeout=1200)
    if rc != 0:
        # find the graph at which the harness died
        done = split_cases(h_out)
        k = max(done) if done else 0
        res.violation({'what': 'harness c19_peel crashed (rc %d) while processing this graph' % rc, 'graph': graph_txt(graphs[min(k, len(graphs) - 1)]),
                       'stderr': err[-1500:], 'replay': 'harness/c19_peel.cpp <file with harness_input>'})
        return res.finish()
    of = os.path.join(tmp, 'out.txt')
    open(of, 'w').write(h_out)
    rc, m_out, err, dt = C.sh([drv, 'model', gf], timeout=1200)
    rc2, c_out, err2, dt = C.sh([drv, 'check', gf, of], timeout=1200)
    H, M = split_cases(h_out), split_cases(m_out)
    verdict = {}
    for line in c_out.split('\n'):
        f = line.split()
        if len(f) >= 3:
            verdict[int(f[0])] = f[1:]
    evals, corr_diffs, prop_viol = 0, [], 0
    hist = {'graphs': len(graphs), 'by_kind': {}, 'peeled': 0, 'core_empty': 0, 'core_nonempty': 0, 'trees': 0, 'tree_nodes': 0,
            'components_runs': 0, 'disconnected': 0, 'max_nodes': 0, 'symmetric_layouts': 0}
    samples = []
    reported = set()
    for k, g in enumerate(graphs):
        kind, n, peel, es = g
        hist['by_kind'][kind] = hist['by_kind'].get(kind, 0) + 1
        hist['max_nodes'] = max(hist['max_nodes'], n)
        h = H.get(k, [])
        m = M.get(k, [])
        v = verdict.get(k, ['missing'])
        evals += 1 + peel
        hist['components_runs'] += 1
        hl = [l for l in h if l.split()[0] in ('cc', 'core', 'tree')]
        bad = None
        if any(l.startswith('EXC') for l in h):
            bad = 'the library raised an assertion/exception: ' + [l for l in h if l.startswith('EXC')][0][:300]
        elif v[0] != 'cc-ok':
            bad = 'Graph::getConnComps output fails the verified checker conncomps_okb (%s)' % v[0]
        elif ('ccedges %d' % len(es)) not in h:
            bad = 'the component graphs of getConnComps do not contain every edge exactly once: ' + ' '.join(l for l in h if l.startswith('ccedges'))
        elif peel and v[1] != 'peel-ok':
            bad = 'dialect::peel output fails the verified checker peel_okb (%s)' % v[1]
        else:
            sym = [l for l in h if l.startswith('sym ')]
            hist['symmetric_layouts'] += len(sym)
            bs = [l for l in sym if not l.endswith(' ok')]
            if bs:
                bad = 'Tree::symmetricLayout: ' + bs[0]
        if bad and len(reported) < 3:
            reported.add(k)
            d = graph_txt(g)
            d.update({'what': bad, 'implementation_output': h[:40], 'model_output': m[:40], 'checker': v,
                      'replay': 'harness/c19_peel.cpp <file with harness_input>'})
            res.violation(d)
            prop_viol += 1
        if hl != m and len(corr_diffs) < 5:
            d = graph_txt(g); d.update({'implementation': hl[:30], 'model': m[:30]})
            corr_diffs.append(d)
        if peel:
            hist['peeled'] += 1
            core = [l for l in hl if l.startswith('core')]
            if core and core[0].split(';')[0].strip() == 'core':
                hist['core_empty'] += 1
            else:
                hist['core_nonempty'] += 1
            ts = [l for l in hl if l.startswith('tree')]
            hist['trees'] += len(ts)
            hist['tree_nodes'] += sum(len(t.split(';')[1].split(',')) for t in ts)
        else:
            hist['disconnected'] += 1
        if k % 131 == 5 and len(samples) < 5:
            samples.append({'graph': graph_txt(g), 'implementation_output': hl[:12]})
    # the edgeless corner (max degree 0) in a process of its own: peel() indexes the degree-1 bucket unconditionally
    ef = os.path.join(tmp, 'edgeless.txt')
    open(ef, 'w').write('G 1 1\n')
    rc, e_out, err, dt = C.sh([exe, ef], timeout=120)
    rc2, e_mod, _, _ = C.sh([drv, 'model', ef], timeout=120)
    evals += 1
    eh = [l for l in split_cases(e_out).get(0, []) if l.split()[0] in ('cc', 'core', 'tree')]
    em = split_cases(e_mod).get(0, [])
    if rc != 0 or eh != em:
        res.violation({'what': 'dialect::peel on a graph without edges (one isolated node): %s; expected (model): no trees, core = the node'
                               % ('harness died with rc %d' % rc if rc != 0 else 'output differs from the model'),
                       'graph': {'nodes': 1, 'edges': []}, 'harness_input': ['G 1 1'], 'implementation_output': eh, 'model_output': em,
                       'note': 'NodeBuckets sizes m_buckets(maxDegree+1) and takeLeaves reads m_buckets[1] (peeling.cpp:112-134)',
                       'replay': 'harness/c19_peel.cpp <file containing "G 1 1">'})
    hist['edgeless_run'] = 'rc %d' % rc
    nontriv = hist['trees'] + hist['disconnected']
    res.cov.update({'evaluations': evals, 'distinct_nontrivial': nontriv,
                    'rule': 'one evaluation per getConnComps run and per peel run; non-trivial = number of trees peeled off (each compared '
                            'node-for-node, edge-for-edge, root) + disconnected graphs decomposed',
                    'samples': samples, 'traces_validated_against_impl': evals, 'input_distribution': hist,
                    'correspondence_disagreements': corr_diffs[:5],
                    'v_only': 'Tree::symmetricLayout (no two nodes of a tree at the same position) is checked on the real output only; '
                              'OrthoPlanariser::planarise is not covered'})
    if prop_viol == 0 and (not info['ok'] or corr_diffs):
        res.violation({'what': 'proof obligation or model/implementation correspondence no longer checks; the verified checkers found no '
                               'failing input among %d graphs' % len(graphs),
                       'broken_files': info.get('broken'), 'broken_lemmas': info.get('broken_lemmas'), 'forbidden': info.get('forbidden'),
                       'correspondence_disagreements': corr_diffs[:5], 'coq_log_tail': info['log'][-3000:]}, no_input=True)
    shutil.rmtree(tmp, ignore_errors=True)
    return res.finish()


def replay(path):
    print(open(path).read())
    return 0


def warm():
    C.build_harness('c19_peel', LIBS, FLAVOR)
    C.ocaml_build('c19', 'C19.v', 'c19_driver.ml', 'c19_model.ml')


META = {
    'property_id': PID,
    'level_claimed': {
        'category': 'proof',
        'text': 'Coq theorems over a hand model of dialect::peel and Graph::getConnComps, for EVERY connected simple graph (no size bound): '
                'peel_nodes_partition (core nodes and stem leaves pairwise distinct; with the stem roots they are exactly the input nodes; '
                'with a non-empty core every root is a core node or a later leaf), peel_edges_partition (up to orientation each input edge '
                'is a core edge or the edge of exactly one stem; the double-centre pop_back is what makes this true), peel_core_no_leaves, '
                'peel_trees_are_trees_partial (the trees returned by peel partition the stem nodes, each is connected by its own edges, '
                'closed, and a forest built by pendant-edge attachment = acyclic), conncomps_partition (components partition the nodes, each '
                'connected, no edge leaves a component), explore_reach. The proofs need and prove: removing non-adjacent degree-1 nodes keeps a '
                'graph connected; two adjacent leaves of a connected graph are the whole graph. Tie: exact comparison of the model with the '
                'compiled library on generated graphs every run + checkers on the real outputs.',
        'design_ref': 'DESIGN.md 5.19'},
    'level_note': 'PARTIAL: (1) that the root chosen by the tree serial numbers (identifyRootNode) is the unique non-leaf / core node of its '
                  'tree is not proved (checked on every real output: peel_okb requires root in core and the partition with the root removed); '
                  '(2) the checkers peel_okb / conncomps_okb are executable Gallina run on real outputs, built on the verified explore '
                  '(explore_reach), but their soundness/completeness theorem is not yet proved - they count as validation (V); tree-ness in the '
                  'checker is "connected and |E|+1=|V|"; (3) NodeBuckets bookkeeping is abstracted to "degree = 1 now" (compared exactly). '
                  'V-only, no model: Tree::symmetricLayout (no two nodes of a tree at one position). NOT covered: OrthoPlanariser::planarise '
                  '(no crossing / node preservation), faces. Trusted: Coq kernel; the hand model PeelModel.v; extraction + OCaml/C++ drivers. '
                  'No fuel exhaustion can make a theorem true: statements require Ok/Some; fuel adequacy itself is not proved (the check '
                  'reports OUTOFFUEL as a disagreement).',
    'technique': 'Coq proof (loop invariant over leaf-stripping rounds, reachability, forest construction) over a hand-written Gallina model + '
                 'exact correspondence with the compiled C++ + executable checkers on real outputs',
}
